"""C02 - inbound frames are decoded exactly, whatever the chunking.

Drives the three REAL read loops of pygls.io_ (from $VERIF_REPO):
  stream : run_async + asyncio.StreamReader, fed chunk by chunk, the event loop stepped in between
  pool   : run_async + StdinAsyncReader over a real os.pipe written chunk-wise by a thread
  sync   : run over a BufferedReader on a pipe (or a BytesIO when there is one chunk)
and observes, in order, the exact bytes handed to json.loads(body, object_hook=protocol.structure_message),
what protocol.handle_message / the error handler then received, and how the loop terminated.
Model and reference: Model/Framing.v, Spec/FramingSpec.v through bin/c02_driver.

Case shapes (bytes are hex strings):
  {"k":"frames","kind":K,"lim":L,"end":"eof","msgs":[[lay, v, body],...],"cut":null|n,"parts":[sizes],"pace":0|1}
  {"k":"raw","kind":K,"lim":L,"end":"eof","chunks":[hex,...],"pace":0|1}
"""
import asyncio, io, json, logging, os, signal, sys, threading, time
from concurrent.futures import ThreadPoolExecutor
import core
import priv

KINDS = ("stream", "pool", "sync")
KIND_CODE = {"stream": 0, "pool": 1, "sync": 2}
DEFAULT_LIMIT = 2 ** 16
CLP = b"Content-Length: "
CTP = b"Content-Type: "
TERM = {0: "normal", 1: "raise:ValueError", 2: "raise:ValueError", 3: "raise:ConnectionResetError",
        8: "model-blocked", 9: "model-out-of-fuel"}

_orig_loads = json.loads


class HarnessTimeout(BaseException):
    pass


# ------------------------------------------------------------------ a check must never hang
# Every run of library code that can loop or block gets a hard deadline.  A run that does not come
# back is the observation "hang" (S is violated: the call must return); after the first hang in this
# process the deadline of the following cases shrinks, after three hangs in one batch the rest of the
# batch is not run.  Code that cannot be interrupted from the main thread (threads blocked on a lock,
# executor threads joined at interpreter exit) runs in a forked child that the parent kills.
HANGS = 0
CASE_DEADLINE, CASE_DEADLINE_AFTER_HANG, MAX_HANGS = 10.0, 3.0, 3


def case_deadline(extra=0.0):
    return (CASE_DEADLINE_AFTER_HANG if HANGS else CASE_DEADLINE) + extra


def note_hang():
    global HANGS
    HANGS += 1


class alarm:
    """with alarm(seconds): ... raises HarnessTimeout in the main thread when the time is up."""
    def __init__(self, seconds):
        self.seconds = seconds

    def __enter__(self):
        def on_alarm(signum, frame):
            raise HarnessTimeout()
        self.old = signal.signal(signal.SIGALRM, on_alarm)
        signal.setitimer(signal.ITIMER_REAL, self.seconds)

    def __exit__(self, *a):
        signal.setitimer(signal.ITIMER_REAL, 0)
        signal.signal(signal.SIGALRM, self.old)
        return False


def run_isolated(fn, chk, idle_deadline=20.0, total_deadline=600.0):
    """Run fn(chk) -> (violations, n) in a forked child; the child reports the case it is about to run
    through chk.progress(desc).  Returns (violations, n, hung) where hung is None or the description of
    the case during which the child stopped making progress (the child is then killed)."""
    import select
    r, w = os.pipe()
    sys.stdout.flush(); sys.stderr.flush()
    pid = os.fork()
    if pid == 0:
        code = 0
        try:
            os.close(r)
            out = os.fdopen(w, "w", buffering=1)
            chk.progress = lambda desc: out.write(json.dumps({"start": desc}) + "\n")
            v, n = fn(chk)
            out.write(json.dumps({"done": [v, n]}) + "\n")
            out.flush()
        except BaseException as e:      # noqa
            try:
                out.write(json.dumps({"crash": type(e).__name__ + ": " + str(e)[:300]}) + "\n")
                out.flush()
            except Exception:
                pass
            code = 1
        finally:
            os._exit(code)               # no atexit handlers: a stuck executor thread must not keep us
    os.close(w)
    buf, last, result, crash = b"", None, None, None
    t_end, t_idle = time.time() + total_deadline, time.time() + idle_deadline
    try:
        while result is None and crash is None:
            now = time.time()
            if now > t_end or now > t_idle:
                break
            rl, _, _ = select.select([r], [], [], min(t_end, t_idle) - now)
            if not rl:
                continue
            data = os.read(r, 65536)
            if not data:
                break
            buf += data
            while b"\n" in buf:
                line, buf = buf.split(b"\n", 1)
                try:
                    m = json.loads(line)
                except ValueError:
                    continue
                t_idle = time.time() + idle_deadline
                if "start" in m:
                    last = m["start"]
                elif "done" in m:
                    result = m["done"]
                elif "crash" in m:
                    crash = m["crash"]
    finally:
        os.close(r)
        try:
            os.kill(pid, signal.SIGKILL)
        except OSError:
            pass
        try:
            os.waitpid(pid, 0)
        except OSError:
            pass
    if result is not None:
        return result[0], result[1], None
    if crash is not None:
        return [{"case": last, "impl": {"harness": "crash in isolated check: " + crash}, "S": None,
                 "verdict": "violation", "suffix": "no-failing-input-found"}], 0, None
    note_hang()
    return [{"case": last, "impl": {"ret": "hang: the call did not return within the deadline; child killed"},
             "S": {"ret": "returns"}, "verdict": "violation"}], 0, last


def H(b):
    return bytes(b).hex()


def B(h):
    return bytes.fromhex(h)


def enc_bytes(b):
    return f"{len(b)} " + " ".join(map(str, b)) if b else "0"


# ------------------------------------------------------------------ frames (Python side, independent of Coq)
def py_frame(lay, v, body):
    cl = CLP + str(len(body)).encode() + b"\r\n"
    ct = CTP + v + b"\r\n"
    head = cl if lay == 0 else (cl + ct if lay == 1 else ct + cl)
    return head + b"\r\n" + body


def case_stream(c):
    """The byte stream and its chunks for a case."""
    if c["k"] == "raw":
        chunks = [B(x) for x in c["chunks"]]
        return b"".join(chunks), chunks
    data = b"".join(py_frame(l, B(v), B(b)) for l, v, b in c["msgs"])
    if c.get("cut") is not None:
        data = data[:c["cut"]]
    chunks, i = [], 0
    for z in c["parts"]:
        chunks.append(data[i:i + z]); i += z
    if i < len(data):
        chunks.append(data[i:])
    return data, chunks


# ------------------------------------------------------------------ observation of the real loops
class StubProtocol:
    """Stands where a JsonRPCProtocol stands in run/run_async: records what it is handed."""
    def __init__(self, log):
        self.log = log

    def structure_message(self, data):      # object_hook of json.loads: identity
        return data

    def handle_message(self, message):
        self.log.append(("handle", message))


_orig_decode = json.JSONDecoder.decode


class Observer:
    """Records the exact body of every parse that carries our stub's object_hook: at json.loads
    (module attribute: io_ calls json.loads at run time; the bytes as read) and, for code that builds
    its own json.JSONDecoder(object_hook=...), at JSONDecoder.decode (the text, re-encoded)."""
    def __init__(self):
        self.log = []
        self.proto = StubProtocol(self.log)
        self.in_loads = False

    def loads(self, s, *a, **kw):
        hook = kw.get("object_hook")
        if getattr(hook, "__self__", None) is not self.proto:
            return _orig_loads(s, *a, **kw)
        self.log.append(("loads", bytes(s) if not isinstance(s, str) else s.encode("utf-8", "surrogatepass")))
        self.in_loads = True
        try:
            return _orig_loads(s, *a, **kw)
        finally:
            self.in_loads = False

    def decode(self, dec, s, *a, **kw):
        hook = getattr(dec, "object_hook", None)
        if getattr(hook, "__self__", None) is self.proto and not self.in_loads:
            self.log.append(("loads", s.encode("utf-8", "surrogatepass") if isinstance(s, str) else bytes(s)))
        return _orig_decode(dec, s, *a, **kw)

    def error_handler(self, exc, source):
        self.log.append(("error", type(exc).__name__))

    def __enter__(self):
        json.loads = self.loads
        ob = self
        json.JSONDecoder.decode = lambda dec, s, *a, **kw: ob.decode(dec, s, *a, **kw)
        return self

    def __exit__(self, *a):
        json.loads = _orig_loads
        json.JSONDecoder.decode = _orig_decode

    def observation(self, term):
        bodies, dispatch = [], "ok"
        log = self.log
        if not any(t == "loads" for t, _ in log) and any(t == "handle" for t, _ in log):
            # json.loads is no longer reached through the module attribute: fall back on what the
            # protocol was handed (exact for canonical JSON bodies, which is what the guard cases use)
            for t, x in log:
                if t == "handle":
                    bodies.append(json.dumps(x, ensure_ascii=False, separators=(",", ":")).encode())
            return {"bodies": [H(b) for b in bodies], "term": term, "dispatch": "ok", "nhandled": len(bodies)}
        i = 0
        while i < len(log):
            t, x = log[i]
            if t == "error":
                # a body that was reported without reaching a parser we can see (e.g. it failed to decode
                # first): counted, content unknown ("?" matches any one body)
                bodies.append(None)
                i += 1
                continue
            if t != "loads":
                dispatch = "unexpected-" + t
                i += 1
                continue
            bodies.append(x)
            nxt = log[i + 1] if i + 1 < len(log) else (None, None)
            try:
                want = ("handle", _orig_loads(x))
            except (ValueError, RecursionError):
                want = ("error", None)
            if nxt[0] != want[0]:
                dispatch = "body-%d-%s-instead-of-%s" % (len(bodies) - 1, nxt[0], want[0])
            elif want[0] == "handle" and canon_json(nxt[1]) != canon_json(want[1]):
                dispatch = "body-%d-handled-differently" % (len(bodies) - 1)
            i += 2 if nxt[0] in ("handle", "error") else 1
        return {"bodies": ["?" if b is None else H(b) for b in bodies], "term": term, "dispatch": dispatch,
                "nhandled": sum(1 for t, _ in log if t == "handle")}


def _parses(hexbody):
    try:
        _orig_loads(bytes.fromhex(hexbody))
        return True
    except (ValueError, RecursionError):
        return False


def bodies_match(got, want):
    """"?" (reported without a visible parse) stands for one body that does not parse as JSON."""
    return len(got) == len(want) and all(g == w or (g == "?" and not _parses(w)) for g, w in zip(got, want))


def canon_json(x):
    try:
        return json.dumps(x, sort_keys=True)
    except Exception:
        return repr(x)


def term_of(exc):
    return "normal" if exc is None else "raise:" + type(exc).__name__


def spin(loop, task=None):
    """Run the event loop until nothing is ready (the read loop is blocked in a read or done)."""
    for _ in range(50):
        loop.call_soon(loop.stop)
        loop.run_forever()
        ready = getattr(loop, "_ready", None)
        if ready is not None and len(ready) == 0:
            break
    else:
        return
    # one more turn: callbacks scheduled by the last turn
    loop.call_soon(loop.stop)
    loop.run_forever()


_POOL = None


def pool():
    global _POOL
    if _POOL is None:
        _POOL = ThreadPoolExecutor(max_workers=2, thread_name_prefix="c02-stdin")
    return _POOL


def pipe_writer(w, chunks, pace, real_gap=0.0):
    try:
        for i, c in enumerate(chunks):
            if c:
                mv = memoryview(c)
                while mv:
                    n = os.write(w, mv)
                    mv = mv[n:]
            if real_gap and i + 1 < len(chunks):
                time.sleep(real_gap)            # a real quiet period between two chunks
            elif pace:
                time.sleep(0.0004)
    except OSError:
        pass
    finally:
        try:
            os.close(w)
        except OSError:
            pass


GAP = 3600.0        # virtual seconds of silence between two chunks


class VClock:
    """Virtual time for a private event loop: loop.time() = real monotonic time + offset.  Advancing
    the offset makes every timer scheduled within that span due at the loop's next iteration, so any
    timeout-based polling in the code under test fires during a gap, whatever its constant."""
    def __init__(self, loop):
        self.real, self.off = loop.time, 0.0
        loop.time = self.time

    def time(self):
        return self.real() + self.off

    def advance(self, seconds):
        self.off += seconds


class TracingReader:
    """The blocking stream handed to StdinAsyncReader, with a count of calls in flight (a pool
    thread blocked in readline/read) so that the harness can tell when the loop waits for input."""
    def __init__(self, f):
        self.f, self.inflight, self.lock = f, 0, threading.Lock()

    def _call(self, fn, *a):
        with self.lock:
            self.inflight += 1
        try:
            return fn(*a)
        finally:
            with self.lock:
                self.inflight -= 1

    def readline(self):
        return self._call(self.f.readline)

    def read(self, n):
        return self._call(self.f.read, n)

    def close(self):
        self.f.close()


def pipe_unread(fd):
    import array, fcntl, termios
    buf = array.array("i", [0])
    fcntl.ioctl(fd, termios.FIONREAD, buf)
    return buf[0]


def settle(loop, task, tr, rfd, limit=10.0):
    """Run the loop (real time) until the read loop is done or waits for input: a pool thread is
    blocked in a read, nothing is unread in the pipe, nothing is ready in the loop - three times in a row."""
    end, stable = time.monotonic() + limit, 0
    while time.monotonic() < end:
        spin(loop)
        if task.done():
            return True
        ready = getattr(loop, "_ready", ())
        if tr.inflight > 0 and pipe_unread(rfd) == 0 and len(ready) == 0:
            stable += 1
            if stable >= 3:
                return True
        else:
            stable = 0
        time.sleep(0.0003)
    return False


def drive_pool_gaps(io_, ob, stop, chunks):
    """run_async + StdinAsyncReader over a real pipe, the harness writing the chunks itself; after
    each chunk the loop runs until it waits for input again, then an hour of virtual time passes."""
    r, w = os.pipe()
    os.set_blocking(w, False)
    tr = TracingReader(os.fdopen(r, "rb"))
    ex = ThreadPoolExecutor(max_workers=8, thread_name_prefix="c02-gap")
    loop = asyncio.new_event_loop()
    clock = VClock(loop)
    wopen = True
    try:
        reader = io_.StdinAsyncReader(tr, ex)
        task = loop.create_task(io_.run_async(stop, reader, ob.proto, error_handler=ob.error_handler))
        settle(loop, task, tr, r)
        for c in chunks:
            mv = memoryview(c)
            while mv and not task.done():
                try:
                    n = os.write(w, mv)
                except BlockingIOError:
                    n = 0
                mv = mv[n:]
                if mv:
                    spin(loop)
                    time.sleep(0.0003)
            settle(loop, task, tr, r)
            clock.advance(GAP)              # the quiet period
            settle(loop, task, tr, r)
        os.close(w)
        wopen = False
        end = time.monotonic() + 20
        while not task.done() and time.monotonic() < end:
            spin(loop)
            time.sleep(0.0003)
        if not task.done():
            task.cancel()
            term = "hang"
        else:
            term = "cancelled" if task.cancelled() else term_of(task.exception())
    finally:
        if wopen:
            os.close(w)
        for _ in range(200):                 # let orphaned pool threads (if any) see EOF and finish
            spin(loop)
            if tr.inflight == 0:
                break
            time.sleep(0.001)
        ex.shutdown(wait=False, cancel_futures=True)
        spin(loop)
        loop.close()
        tr.close()
    return ob.observation(term)


def drive(io_, kind, lim, chunks, ending="eof", pace=0, rd="pipe", gaps=0, real_gap=0.0, eager=0):
    """Run one real loop over the chunks; returns the canonical observation."""
    stop = threading.Event()
    with Observer() as ob:
        if kind == "pool" and gaps and ending == "eof":
            return drive_pool_gaps(io_, ob, stop, chunks)
        if kind == "stream":
            loop = asyncio.new_event_loop()
            clock = VClock(loop)
            try:
                reader = asyncio.StreamReader(limit=lim, loop=loop)
                # eager = 2: every byte AND the end of the stream are in the reader before the loop's first step;
                # eager = 1: the last chunk and the end of the stream arrive in the same loop iteration
                # (the placement of the EOF is part of the delivery schedule the statement quantifies over)
                if eager == 2:
                    for c in chunks:
                        reader.feed_data(c)
                    chunks = []
                    if ending == "eof":
                        reader.feed_eof()
                task = loop.create_task(io_.run_async(stop, reader, ob.proto, error_handler=ob.error_handler))
                spin(loop)
                for ci, c in enumerate(chunks):
                    reader.feed_data(c)
                    if eager == 1 and ci == len(chunks) - 1 and ending == "eof":
                        break
                    spin(loop)
                    if gaps:
                        clock.advance(GAP)      # an hour of silence: every pending timer fires
                        spin(loop)
                    if real_gap:
                        t_end = time.monotonic() + real_gap
                        while time.monotonic() < t_end:
                            spin(loop)
                            time.sleep(0.05)
                if ending == "eof":
                    if eager != 2:
                        reader.feed_eof()
                else:
                    reader.set_exception(ConnectionResetError("reset by peer"))
                spin(loop)
                if not task.done():
                    task.cancel()
                    spin(loop)
                    term = "hang"
                else:
                    term = "cancelled" if task.cancelled() else term_of(task.exception())
            finally:
                loop.close()
            return ob.observation(term)
        if kind == "sync" and rd == "bytesio" and ending == "eof":
            try:
                io_.run(stop, io.BytesIO(b"".join(chunks)), ob.proto, error_handler=ob.error_handler)
                term = "normal"
            except Exception as e:
                term = term_of(e)
            return ob.observation(term)
        if ending != "eof":
            rdr = ResetReader(chunks)
            wt = None
        else:
            r, w = os.pipe()
            rdr = os.fdopen(r, "rb")
            wt = threading.Thread(target=pipe_writer, args=(w, chunks, pace, real_gap), daemon=True)
            wt.start()
        try:
            if kind == "sync":
                try:
                    io_.run(stop, rdr, ob.proto, error_handler=ob.error_handler)
                    term = "normal"
                except Exception as e:
                    term = term_of(e)
            else:
                loop = asyncio.new_event_loop()
                try:
                    reader = io_.StdinAsyncReader(rdr, pool())
                    try:
                        loop.run_until_complete(
                            io_.run_async(stop, reader, ob.proto, error_handler=ob.error_handler))
                        term = "normal"
                    except Exception as e:
                        term = term_of(e)
                finally:
                    loop.close()
        finally:
            try:
                rdr.close()
            except Exception:
                pass
            if wt is not None:
                wt.join(10)
        return ob.observation(term)


class ResetReader:
    """A blocking reader (readline / read(n), the `Reader` protocol of pygls.io_) over bytes that have
    all arrived, after which the connection is reset: complete lines / bodies are served, the read
    that would have to wait raises ConnectionResetError (as a socket file does on ECONNRESET)."""
    def __init__(self, chunks):
        self.buf = b"".join(chunks)

    def readline(self):
        i = self.buf.find(b"\n")
        if i < 0:
            raise ConnectionResetError("reset by peer")
        line, self.buf = self.buf[:i + 1], self.buf[i + 1:]
        return line

    def read(self, n):
        if n > len(self.buf):
            raise ConnectionResetError("reset by peer")
        body, self.buf = self.buf[:n], self.buf[n:]
        return body

    def close(self):
        pass


# ------------------------------------------------------------------ generators
def jbody(obj):
    return json.dumps(obj, ensure_ascii=False, separators=(",", ":")).encode("utf-8")


def body_classes(rng, big):
    """name -> body bytes; the classes of DESIGN C02."""
    note = lambda p: jbody({"jsonrpc": "2.0", "method": "t/x", "params": p})
    d = {
        "2B": b"{}",
        "ascii": note({"a": rng.randrange(10 ** 6), "s": "x" * rng.randrange(0, 40)}),
        "utf8-2": note({"s": "café üß" * rng.randrange(1, 4)}),
        "utf8-3": note({"s": "€中文 " * rng.randrange(1, 4)}),
        "utf8-4": note({"s": "\U0001F60B\U00010000\U0010FFFF" * rng.randrange(1, 3)}),
        # text that is not NFC-normalised must arrive as sent: decomposed accent, conjoining Hangul jamo,
        # a compatibility singleton (ANGSTROM SIGN), a composition-excluded musical symbol; U+FB01 ligature (NFKC)
        "non-nfc": note({"s": "e\u0301 \u1100\u1161\u11a8 \u212b \U0001D15E \ufb01 " * rng.randrange(1, 3)}),
        "crlfcrlf-json": b'{"jsonrpc":"2.0",\r\n\r\n"method":"t/x",\r\n"params":[1,\r\n\r\n2]}',
        "header-in-string": note({"s": "Content-Length: 5\r\n\r\n{}"}),
        # opaque bodies (not JSON): the loop must still take exactly Content-Length bytes
        "header-text": b"Content-Length: 7\r\n\r\n{}\r\nContent-Length: 2\r\n\r\n",
        "crlfcrlf-raw": b"\r\n\r\n",
        "lf-first": b"\n{}\n",
        "blank-body": b" \t\r\n",
        "binary": bytes(rng.randrange(256) for _ in range(rng.randrange(1, 40))),
        "bad-utf8": b'{"s":"\xff\xfe\xc3"}',
        "nul": b"\x00",
    }
    if big:
        d["64k+1"] = note({"s": "p" * (65537 - len(note({"s": ""})))})
        assert len(d["64k+1"]) == 65537
    return d


CT_VALUES = [b"application/vscode-jsonrpc; charset=utf-8", b"", b"utf8", b"a\rb", b"Content-Length: 3",
             b" ", b"x" * 70, b"\xc3\xa9\x00\x0b"]


def interesting_cuts(data):
    """Offsets inside headers, around CRLFCRLF and inside multi-byte characters."""
    pts = set()
    i = data.find(b"\r\n\r\n")
    while i >= 0:
        pts.update(range(max(0, i - 1), min(len(data), i + 6)))
        i = data.find(b"\r\n\r\n", i + 1)
    i = data.find(CLP)
    while i >= 0:
        pts.update((i + 3, i + len(CLP), i + len(CLP) + 1))
        i = data.find(CLP, i + 1)
    for j, x in enumerate(data):
        if x >= 0x80:
            pts.add(j)
    return sorted(p for p in pts if 0 < p < len(data))


def parts_from_cuts(n, cuts):
    cuts = sorted(cuts)
    out, prev = [], 0
    for c in cuts:
        out.append(c - prev); prev = c
    out.append(n - prev)
    return out


class C02(core.Property):
    id = "C02"
    modules = ["Proofs.FramingProofs", "Proofs.FramingProofsFrames", "Props.C02"]
    obligations = ["split_line_app_some", "split_line_app_none", "step_app", "step_meas", "run_fuel_indep",
                   "run_total", "run_eof_done", "run_app", "blocked_resume", "chunk_independence", "pauses_irrelevant",
                   "pause_insertion", "eof_late",
                   "loop_consumes_body", "run_frame", "run_frames_ds", "loop_whole_frames",
                   "loop_whole_frames_stream", "loop_whole_frames_stdin", "loop_whole_frames_sync", "open_frames",
                   "dec_value", "dec_spells", "cut_bodies_full",
                   "C02", "C02_reference_agrees", "C02_nonvacuous", "C02_outside_limit"]
    coq_targets = ["Props/C02.vo", "Extract/ExtractC02.vo"]
    rule = ("frames cases: 1-6 bodies from the classes {2 B, ASCII, 2/3/4-byte UTF-8, CRLFCRLF inside JSON and raw, "
            "non-NFC text (decomposed accents, Hangul jamo, U+212B, U+1D15E), header text in a JSON string and raw, leading LF, whitespace-only, binary, invalid UTF-8, NUL, 64 KiB+1 "
            "(thorough: 200 KiB)} x layouts {CL; CL,CT v; CT v,CL} x partitions (every split point and 1-byte chunks "
            "for short streams, random partitions biased to header / CRLFCRLF / multi-byte offsets, empty chunks) x "
            "3 real loops, with and without QUIET PERIODS between the chunks (the async loops run on a private event loop whose "
            "clock is advanced by one hour after a chunk, the loop then runs until it waits for input again: any timeout-based "
            "polling fires; for StdinAsyncReader the pool thread keeps blocking in the real pipe read meanwhile; thorough: a few "
            "real 6 s gaps; the synchronous loop has no timers); raw cases: malformed streams (bad header spellings, Content-Length: 0, missing CR, junk and "
            "whitespace lines, duplicate headers, truncation, > 4300 digits, lines over the StreamReader limit) "
            "compared impl = model only; non-trivial = >= 2 frames and >= 1 chunk boundary that is not a frame boundary")
    trusted_base = ["Coq 8.16.1 kernel incl. vm_compute (Examples)",
                    "extraction with ExtrOcamlBasic only + ocaml/c02_driver.ml + conv_io/conv_n",
                    "harness/c02.py (generators, stub protocol, json.loads wrapper, canonicalisation)",
                    "modelled not verified: asyncio.StreamReader.readline/readexactly (incl. the line limit), "
                    "BufferedReader.readline/read, re fullmatch of the one pattern, int() incl. the 4300-digit limit, "
                    "bytes.strip()",
                    priv.trusted(["server.start_io_sync"])]
    private = ["server.start_io_sync"]
    assumptions = ["stop_event is not set while the loop runs (handlers that set it are C09's subject)",
                   "Content-Length values fit in memory (a blocking read(n) of an absurd n raises OverflowError/MemoryError; not modelled)",
                   "BufferedReader hides short pipe reads (kernel semantics, observed only)"]

    # ---------------- generation ----------------
    def corpus(self):
        cases = []
        cdir = os.path.join(core.ROOT, "corpus", self.id)
        if os.path.isdir(cdir):
            for f in sorted(os.listdir(cdir)):
                if f.endswith(".json"):
                    cases.extend(json.load(open(os.path.join(cdir, f))))
        return cases

    def generate(self, chk):
        rng = chk.rng
        cases = list(self.corpus())
        cases += self.gen_exhaustive_splits(chk)
        cases += self.gen_frames(chk)
        cases += self.gen_raw(chk)
        return cases

    def mk(self, kind, msgs, parts, lim=DEFAULT_LIMIT, cut=None, pace=0, end="eof"):
        return {"k": "frames", "kind": kind, "lim": lim, "end": end,
                "msgs": [[l, H(v), H(b)] for l, v, b in msgs], "cut": cut, "parts": parts, "pace": pace}

    def gen_exhaustive_splits(self, chk):
        """Short streams: every split point (2 chunks) and byte-by-byte, all three loops."""
        rng = chk.rng
        cl = body_classes(rng, False)
        streams = [
            [(0, b"", b"{}"), (2, b"utf8", jbody({"s": "é€\U0001F60B"}))],
            [(1, b"a; charset=utf-8", b"\r\n\r\n"), (0, b"", cl["header-text"])],
        ]
        if not chk.quick:
            streams.append([(2, b"", cl["utf8-4"]), (1, b"Content-Length: 3", cl["lf-first"]), (0, b"", cl["ascii"])])
            streams.append([(0, b"", cl["crlfcrlf-json"]), (0, b"", cl["blank-body"]), (2, b"x", b"[1]")])
        out = []
        for msgs in streams:
            n = len(b"".join(py_frame(*m) for m in msgs))
            for kind in KINDS:
                step = 1
                for p in range(0, n + 1, step):
                    out.append(self.mk(kind, msgs, [p, n - p], pace=1 if kind != "stream" else 0))
                    if kind != "sync":          # the same split with a long quiet period at the split point
                        c = self.mk(kind, msgs, [p, n - p]); c["gaps"] = 1
                        out.append(c)
                out.append(self.mk(kind, msgs, [1] * n))
                out.append(self.mk(kind, msgs, [1] * n, lim=64))
        return out

    def gen_frames(self, chk):
        rng = chk.rng
        out = []
        nrand = chk.n(600, 15000)
        for i in range(nrand):
            big = (i % 40 == 7)
            cl = body_classes(rng, big)
            names = sorted(cl)
            nm = rng.randint(1, 6)
            msgs = []
            for j in range(nm):
                name = "64k+1" if (big and j == nm // 2) else rng.choice([x for x in names if x != "64k+1"])
                lay = rng.randrange(3)
                v = rng.choice(CT_VALUES) if lay else b""
                msgs.append((lay, v, cl[name]))
            if not chk.quick and i % 500 == 3:
                msgs.append((0, b"", jbody({"s": "q" * 204800})))
            data = b"".join(py_frame(*m) for m in msgs)
            n = len(data)
            kind = KINDS[i % 3]
            style = rng.randrange(5)
            if style == 0:
                cuts = []
            elif style == 1:
                cuts = [rng.randrange(n + 1) for _ in range(rng.randint(1, 8))]
            elif style == 2:
                ic = interesting_cuts(data)
                cuts = rng.sample(ic, min(len(ic), rng.randint(1, 6)))
            elif style == 3:
                ic = interesting_cuts(data)
                cuts = rng.sample(ic, min(len(ic), rng.randint(1, 3))) + [rng.randrange(n + 1) for _ in range(3)]
                cuts += [rng.choice(cuts)] * 2        # empty chunks
            else:
                cuts = list(range(1, min(n, 400)))     # byte by byte at the start, the rest in one piece
            parts = parts_from_cuts(n, cuts)
            lim = DEFAULT_LIMIT if kind != "stream" or rng.random() < 0.8 else rng.choice([1, 20, 64, 90])
            c = self.mk(kind, msgs, parts, lim=lim, pace=1 if (kind != "stream" and i % 4 == 0) else 0)
            if kind == "sync" and style == 0 and i % 2:
                c["rd"] = "bytesio"
            if kind != "sync" and len(parts) <= 12 and i % 2 == 0:
                c["gaps"] = 1               # quiet periods (virtual clock) between the chunks
                c["pace"] = 0
            elif kind == "stream" and lim == DEFAULT_LIMIT and n < 60000:
                c["eager"] = 1 + (i // 3) % 2   # EOF together with the last chunk / everything before the first step
            out.append(c)
        if not chk.quick:
            # sanity check of the virtual clock: a few REAL idle gaps between frames / inside a header
            two = [(0, b"", jbody({"id": 1})), (1, b"utf8", jbody({"s": "\u00e9"}))]
            n0 = len(py_frame(*two[0]))
            for kind, parts in (("pool", [n0]), ("pool", [n0 + 9]), ("stream", [n0])):
                c = self.mk(kind, two, parts); c["real_gap"] = 6.0
                out.append(c)
        return out

    BAD_HEADERS = [b"content-length: 3\r\n", b"Content-Length:3\r\n", b"Content-Length:  3\r\n", b"Content-Length: 3 \r\n",
                   b"Content-Length: 3\n", b"Content-Length: 3\r", b"Content-Length: +3\r\n", b"Content-Length: -3\r\n",
                   b"Content-Length: 3_0\r\n", b" Content-Length: 3\r\n", b"Content-Length: \r\n", b"Content-Length: 3\r\r\n",
                   b"CONTENT-LENGTH: 3\r\n", b"Content-Length: 0x3\r\n", b"Content-Length: \xd9\xa3\r\n", b"Content-Length: 3.0\r\n",
                   b"Content-Length 3\r\n", b"Content-Lengths: 3\r\n", b"Content-Length: 3\x0b\r\n",
                   b"X-Content-Length: 3\r\n", b"\x0bContent-Length: 3\r\n", b"\tContent-Length: 3\r\n",
                   b"Content-Length: 3\r\nContent-Length: 2\r\n"]
    GOOD_HEADERS = [b"Content-Length: 3\r\n", b"Content-Length: 003\r\n", b"Content-Length: 0\r\n", b"Content-Length: 2\r\n",
                    b"Content-Length: 12\r\n", b"Content-Length: 1\r\n", b"Content-Length: 40\r\n", b"Content-Length: 00\r\n"]
    OTHER_LINES = [b"Content-Type: x\r\n", b"junk\r\n", b"\x00\xff\r\n", b"X: y\n", b":\r\n"]
    BLANKS = [b"\r\n", b"\n", b" \r\n", b"\t\n", b"\x0b\x0c\r\n", b"\r\r\n", b"  \n", b"\x1c\r\n", b"\x85\n", b"\xa0\r\n"]
    BODIES = [b"{}", b"[1]", b"{}\n", b"abc", b"\r\n", b"\n\n\n", b'{"a":1}', b"Content-Length: 2\r\n\r\n{}", b" ", b"xx"]
    TAILS = [b"", b"\r", b" ", b"\r\n", b"Content-Length: 2", b"Content-Length: 2\r\n\r", b"Content-Length: 2\r\n\r\n{",
             b"\x0b", b"C"]

    def gen_raw(self, chk):
        rng = chk.rng
        out = []
        for i in range(chk.n(800, 20000)):
            pieces = []
            for _ in range(rng.randint(1, 5)):
                r = rng.random()
                if r < 0.55:      # a frame-like block, possibly broken
                    hs = []
                    for _ in range(rng.randint(0, 3)):
                        q = rng.random()
                        hs.append(rng.choice(self.GOOD_HEADERS) if q < 0.5 else
                                  rng.choice(self.BAD_HEADERS) if q < 0.8 else rng.choice(self.OTHER_LINES))
                    pieces += hs + [rng.choice(self.BLANKS) if rng.random() < 0.9 else b"", rng.choice(self.BODIES)]
                elif r < 0.7:
                    pieces.append(py_frame(rng.randrange(3), rng.choice(CT_VALUES), rng.choice(self.BODIES)))
                elif r < 0.8:
                    pieces.append(rng.choice(self.BLANKS))
                elif r < 0.9:
                    pieces.append(rng.choice(self.BAD_HEADERS + self.OTHER_LINES))
                else:
                    pieces.append(bytes(rng.choice(b"\r\n C:0123456789\x0bxyz") for _ in range(rng.randint(1, 12))))
            pieces.append(rng.choice(self.TAILS))
            data = b"".join(pieces)
            if i % 60 == 11:      # int() digit limit: 4300 accepted, 4301 raises
                nd = rng.choice([4300, 4301])
                data = CLP + b"0" * (nd - 1) + b"2\r\n\r\n{}" + data
            n = len(data)
            kind = KINDS[i % 3]
            ncut = rng.choice([0, 1, 2, 3, 6])
            cuts = [rng.randrange(n + 1) for _ in range(ncut)] if n else []
            parts = parts_from_cuts(n, cuts)
            chunks, j = [], 0
            for z in parts:
                chunks.append(data[j:j + z]); j += z
            lim = DEFAULT_LIMIT if (kind != "stream" or rng.random() < 0.6) else rng.choice([1, 2, 17, 18, 19, 30])
            c = {"k": "raw", "kind": kind, "lim": lim, "end": "eof", "chunks": [H(x) for x in chunks],
                 "pace": 1 if (kind != "stream" and i % 5 == 0) else 0}
            if kind != "sync" and (i // 3) % 3 == 0:
                c["gaps"] = 1
            elif kind == "stream" and lim == DEFAULT_LIMIT and len(data) < 60000:
                c["eager"] = 1 + (i // 3) % 2
            if kind == "sync" and ncut == 0:
                c["rd"] = "bytesio"
            out.append(c)
        return out

    # ---------------- implementation ----------------
    def run_impl(self, chk, cases):
        logging.disable(logging.CRITICAL)
        from pygls import io_
        out = []

        hangs = 0
        try:
            for c in cases:
                if hangs >= MAX_HANGS:
                    out.append({"bodies": [], "term": "not-run-after-%d-hangs" % MAX_HANGS, "dispatch": "ok", "nhandled": 0})
                    continue
                try:
                    with alarm(case_deadline(3 * c.get("real_gap", 0.0))):
                        _, chunks = case_stream(c)
                        out.append(drive(io_, c["kind"], c.get("lim", DEFAULT_LIMIT), chunks, c.get("end", "eof"),
                                         c.get("pace", 0), c.get("rd", "pipe"), c.get("gaps", 0), c.get("real_gap", 0.0),
                                         c.get("eager", 0)))
                except HarnessTimeout:
                    # the read loop does not end (S: the call returns)
                    hangs += 1
                    note_hang()
                    out.append({"bodies": [], "term": "hang", "dispatch": "ok", "nhandled": 0})
                except Exception as ex:
                    out.append(["raise", type(ex).__name__])
        finally:
            json.loads = _orig_loads
            json.JSONDecoder.decode = _orig_decode
        return out

    # ---------------- model ----------------
    def model_input(self, c):
        kind = f"{KIND_CODE[c['kind']]} {c.get('lim', DEFAULT_LIMIT) if c['kind'] == 'stream' else 0}"
        end = 0 if c.get("end", "eof") == "eof" else 1
        if c["k"] == "raw":
            chunks = [B(x) for x in c["chunks"]]
            return f"raw {kind} {end} {len(chunks)} " + " ".join(enc_bytes(x) for x in chunks)
        msgs = " ".join(f"{l} {enc_bytes(B(v))} {enc_bytes(B(b))}" for l, v, b in c["msgs"])
        cut = -1 if c.get("cut") is None else c["cut"]
        parts = c["parts"]
        return f"frames {kind} {end} {len(c['msgs'])} {msgs} {cut} {len(parts)} " + " ".join(map(str, parts))

    @staticmethod
    def _events(it):
        n = int(next(it))
        evs = []
        for _ in range(n):
            m = int(next(it))
            evs.append(bytes(int(next(it)) for _ in range(m)).hex())
        return evs

    def model_output(self, c, toks):
        if toks and toks[0] == "DRIVER-ERROR":
            raise RuntimeError("model driver: " + " ".join(toks[:8]))
        it = iter(toks)
        agree = int(next(it)); term = int(next(it))
        evs = self._events(it)
        if not agree:
            raise RuntimeError("extracted run_chunks and loop_whole disagree (chunk_independence!) on " + core.canon(c)[:300])
        M = {"bodies": evs, "term": TERM[term], "dispatch": "ok"}
        if c["k"] == "raw":
            return {"M": M, "S": None, "guard": True}
        guard = bool(int(next(it)))
        same = int(next(it))
        sev = evs if same else self._events(it)
        if not guard:
            return {"M": M, "S": None, "guard": False}
        term_s = TERM[int(next(it))]
        S = {"bodies": sev, "term": term_s, "dispatch": "ok"}
        return {"M": M, "S": S, "guard": True}

    def satisfies(self, c, impl, S):
        if not isinstance(impl, dict):
            return False
        return (bodies_match(impl["bodies"], S["bodies"]) and impl["dispatch"] == S["dispatch"]
                and (S["term"] is None or impl["term"] == S["term"]))

    def same(self, c, impl, M):
        return (isinstance(impl, dict) and bodies_match(impl["bodies"], M["bodies"]) and impl["term"] == M["term"]
                and impl["dispatch"] == M["dispatch"])

    def nontrivial(self, c):
        if c["k"] != "frames" or len(c["msgs"]) < 2:
            return False
        bounds, off = set(), 0
        for l, v, b in c["msgs"]:
            off += len(py_frame(l, B(v), B(b)))
            bounds.add(off)
        pos = 0
        for z in c["parts"][:-1]:
            pos += z
            if pos not in bounds and 0 < pos < off:
                return True
        return False

    def shrink(self, c):
        if c["k"] == "raw":
            ch = c["chunks"]
            for i in range(len(ch) - 1):         # merge two chunks
                d = dict(c); d["chunks"] = ch[:i] + [ch[i] + ch[i + 1]] + ch[i + 2:]
                yield d
            data = "".join(ch)
            if len(ch) == 1:
                n = len(data) // 2
                for step in (max(1, n // 2), max(1, n // 8), 1):
                    for i in range(0, n, step):
                        d = dict(c); d["chunks"] = [data[:2 * i] + data[2 * (i + step):]]
                        yield d
            return
        ms = c["msgs"]
        for i in range(len(ms)):
            if len(ms) > 1:
                d = dict(c); d["msgs"] = ms[:i] + ms[i + 1:]; d["parts"] = []; d["cut"] = None
                yield d
        if len(c["parts"]) > 1:
            p = c["parts"]
            for i in range(len(p) - 1):
                d = dict(c); d["parts"] = p[:i] + [p[i] + p[i + 1]] + p[i + 2:]
                yield d
        for i, (l, v, b) in enumerate(ms):
            if len(b) > 8:
                d = dict(c); d["msgs"] = ms[:i] + [[l, v, b[:(len(b) // 4) * 2]]] + ms[i + 1:]; d["parts"] = []; d["cut"] = None
                yield d
            if l != 0:
                d = dict(c); d["msgs"] = ms[:i] + [[0, "", b]] + ms[i + 1:]; d["parts"] = []; d["cut"] = None
                yield d

    def search(self, chk):
        """Bounded-exhaustive scope judged by S: two small frames, every split point, three loops."""
        msgs = [(2, b"t", b"{}"), (1, b"", jbody({"s": "é"}))]
        n = len(b"".join(py_frame(*m) for m in msgs))
        cases = [self.mk(kind, msgs, [p, n - p]) for kind in KINDS for p in range(n + 1)]
        res = core.evaluate(self, chk, cases)
        return [r for r in res if r["verdict"] == "violation"][:1]

    COQCHK = "Pygls.Props.C02"

    def extra_checks(self, chk):
        """Thorough tier: re-check the compiled theory with the independent checker coqchk."""
        self.extra_coverage = {}
        # the extracted binary against values the kernel computed (Examples C02_nonvacuous /
        # C15_cut_inside_body are the same inputs): extraction + driver glue sanity
        b = "7 123 34 97 34 58 49 125"
        fixed = [(f"frames 0 65536 0 1 0 0 {b} 24 1 24", "1 0 0 1 1 0"),
                 (f"frames 1 0 0 1 0 0 {b} 24 1 24", "1 0 1 3 123 34 97 1 1 0"),
                 (f"frames 1 0 1 1 0 0 {b} 24 1 24", "1 0 0 1 1 0"),
                 (f"frames 2 0 1 1 0 0 {b} 24 1 24", "1 0 0 1 1 0"),
                 ("raw 0 20 0 1 9 67 58 32 120 120 120 120 13 10", "1 0 0"),
                 ("dec 65537", "5 54 53 53 51 55"),
                 ("parsecl 19 67 111 110 116 101 110 116 45 76 101 110 103 116 104 58 32 48 55 13 10".replace(" 19 ", " 20 "), "1 7")]
        outs = core.run_driver(self.id, [x for x, _ in fixed])
        bad = [(x, " ".join(o), w) for (x, w), o in zip(fixed, outs) if " ".join(o) != w]
        self.extra_coverage["driver_sanity"] = f"{len(fixed) - len(bad)}/{len(fixed)} fixed cases agree with kernel-computed values"
        if bad:
            return [{"case": None, "impl": None, "S": None, "verdict": "violation", "broken": "extracted driver sanity",
                     "log": repr(bad)[:1500], "suffix": "no-failing-input-found"}]
        if self.id == "C02":
            # the loops reached through the real entry points (start_io / its sync variant / start_tcp / client)
            import c02_entry
            t0 = time.time()
            v, n, hung = run_isolated(c02_entry.check, chk)
            self.extra_coverage["entry_points"] = {"cases": n, "violations": len(v), "hung_in": hung,
                                                   "wall_s": round(time.time() - t0, 2),
                                                   "entries": list(c02_entry.ENTRY_POINTS)}
            if v:
                return v[:3]
        if chk.quick:
            return []
        r = core.sh(f"timeout 1500 coqchk -silent -o -Q {core.COQ} Pygls {self.COQCHK}", cwd=core.COQ, timeout=1600)
        out = r.stdout + r.stderr
        ok = r.returncode == 0 and "Axioms: <none>" in " ".join(out.split())
        self.extra_coverage["coqchk"] = "ok: no axioms, no assumed positivity/guardedness/type-in-type" if ok else out[-800:]
        if ok:
            return []
        return [{"case": None, "impl": None, "S": None, "verdict": "violation", "broken": "coqchk", "log": out[-1500:],
                 "suffix": "no-failing-input-found"}]

    def distribution(self, cases):
        d = {}
        for c in cases:
            key = f"{c['k']}/{c['kind']}"
            d[key] = d.get(key, 0) + 1
            if c["k"] == "frames":
                k2 = "msgs=%d" % len(c["msgs"]); d[k2] = d.get(k2, 0) + 1
                k3 = "chunks=%s" % (len(c["parts"]) if len(c["parts"]) < 10 else "10+"); d[k3] = d.get(k3, 0) + 1
        return d


PROPERTY = C02
