"""C04 - document text tracks the client's edits exactly.
An editor simulator produces histories of valid edits (positions computed from its own buffer with
true code-unit widths and LSP line ends) and delivers them as real didOpen/didChange messages to a
real LanguageServer negotiated to the case's position encoding and sync kind; the text and version
pygls reports after every notification are compared with the extracted model (Model/Doc.v) and with
the extracted reference (Spec/DocSpec.v)."""
import io, itertools, json, os
import core

ENCS = (8, 16, 32)
ENC_NAME = {8: "utf-8", 16: "utf-16", 32: "utf-32"}
KINDS = (0, 1, 2)                      # TextDocumentSyncKind None / Full / Incremental
EXTRA_SEPS = [0x0B, 0x0C, 0x1C, 0x1D, 0x1E, 0x85, 0x2028, 0x2029]   # must NOT split lines
# characters text-handling code is tempted to treat specially (strip, normalise, split at, refuse): to the
# property they are ordinary characters of the buffer, at the start, in the middle and at the end of a text
FORMAT_CHARS = [0xFEFF, 0x200B, 0x2060, 0x200E, 0xAD, 0xFFFE, 0xFFFF, 0x1FFFE, 0x10FFFF, 0x00, 0x1F, 0x7F, 0xA0]
SPECIALS = EXTRA_SEPS + FORMAT_CHARS
URI = "file:///c04/%d.txt"


# ---------------- the editor's own notion of positions (independent of pygls and of Coq) ----------
def width(e, c):
    if e == 32:
        return 1
    if e == 16:
        return 2 if c > 0xFFFF else 1
    return 1 if c < 0x80 else 2 if c < 0x800 else 3 if c < 0x10000 else 4


def boundaries(text):
    """offsets an editor can put a cursor at: everywhere except between CR and LF"""
    return [i for i in range(len(text) + 1)
            if not (0 < i < len(text) and text[i - 1] == 13 and text[i] == 10)]


def pos_of(e, text, off):
    """(line, character) of a cursor offset: lines end at LF, CRLF, CR only"""
    line, start, i = 0, 0, 0
    while i < off:
        c = text[i]
        if c == 13 and i + 1 < len(text) and text[i + 1] == 10:
            i += 2; line += 1; start = i
        elif c in (10, 13):
            i += 1; line += 1; start = i
        else:
            i += 1
    return line, sum(width(e, c) for c in text[start:off])


def at_eol(text, off):
    return off == len(text) or text[off] in (10, 13)


def nlines(text):
    n, i = 0, 0
    while i < len(text):
        if text[i] == 13 and i + 1 < len(text) and text[i + 1] == 10:
            n += 1; i += 2
        elif text[i] in (10, 13):
            n += 1; i += 1
        else:
            i += 1
    return n + 1          # LSP lines: the last one may be empty


def enc_str(s):
    return f"{len(s)} " + " ".join(map(str, s)) if s else "0"


def enc_change(c):
    if "r" in c:
        return "1 " + " ".join(map(str, c["r"])) + " " + enc_str(c["t"])
    return "0 " + enc_str(c["t"])


# ---------------- driving the real server ----------------
class _Writer:
    def __init__(self):
        self.n = 0
    def write(self, data):
        self.n += 1
    def close(self):
        pass


def _frame(obj):
    body = json.dumps(obj).encode("utf-8")
    return b"Content-Length: %d\r\n\r\n" % len(body) + body


def _init_msgs(e):
    return [{"jsonrpc": "2.0", "id": 1, "method": "initialize",
             "params": {"processId": None, "rootUri": None,
                        "capabilities": {"general": {"positionEncodings": [ENC_NAME[e]]}}}},
            {"jsonrpc": "2.0", "method": "initialized", "params": {}}]


def _change_json(c):
    if "r" in c:
        sl, sc, el, ec = c["r"]
        d = {"range": {"start": {"line": sl, "character": sc}, "end": {"line": el, "character": ec}},
             "text": "".join(map(chr, c["t"]))}
        if c.get("rl") is not None:
            d["rangeLength"] = c["rl"]
        return d
    return {"text": "".join(map(chr, c["t"]))}


def _item(case, uri):
    return {"uri": uri, "languageId": "plaintext", "version": case["v0"], "text": "".join(map(chr, case["text"]))}


def _nb_uri(uri):
    return uri + ".ipynb"


def _msgs(case, uri):
    """the session as (message, observe-after?) pairs.  case["cell"]: None = a plain document
    (textDocument/didOpen, didChange); "open" = the document is a cell of a notebook opened with
    notebookDocument/didOpen; "struct" = the cell is added to an open notebook by a
    notebookDocument/didChange structure (array + didOpen).  Cell edits travel as
    notebookDocument/didChange cells.textContent entries."""
    cell = case.get("cell")
    nb = _nb_uri(uri)
    ncell = {"kind": 2, "document": uri}
    if cell is None:
        out = [({"jsonrpc": "2.0", "method": "textDocument/didOpen", "params": {"textDocument": _item(case, uri)}}, True)]
    elif cell == "open":
        out = [({"jsonrpc": "2.0", "method": "notebookDocument/didOpen",
                 "params": {"notebookDocument": {"uri": nb, "notebookType": "c04", "version": 1, "cells": [ncell]},
                            "cellTextDocuments": [_item(case, uri)]}}, True)]
    else:
        out = [({"jsonrpc": "2.0", "method": "notebookDocument/didOpen",
                 "params": {"notebookDocument": {"uri": nb, "notebookType": "c04", "version": 1, "cells": []},
                            "cellTextDocuments": []}}, False),
               ({"jsonrpc": "2.0", "method": "notebookDocument/didChange",
                 "params": {"notebookDocument": {"uri": nb, "version": 2},
                            "change": {"cells": {"structure": {"array": {"start": 0, "deleteCount": 0, "cells": [ncell]},
                                                               "didOpen": [_item(case, uri)]}}}}}, True)]
    for i, (v, cs) in enumerate(case["ns"]):
        if cell is None:
            out.append(({"jsonrpc": "2.0", "method": "textDocument/didChange",
                         "params": {"textDocument": {"uri": uri, "version": v},
                                    "contentChanges": [_change_json(c) for c in cs]}}, True))
        else:
            out.append(({"jsonrpc": "2.0", "method": "notebookDocument/didChange",
                         "params": {"notebookDocument": {"uri": nb, "version": 3 + i},
                                    "change": {"cells": {"textContent": [
                                        {"document": {"uri": uri, "version": v},
                                         "changes": [_change_json(c) for c in cs]}]}}}}, True))
    return out


def _close_msg(case, uri):
    if case.get("cell") is None:
        return {"jsonrpc": "2.0", "method": "textDocument/didClose", "params": {"textDocument": {"uri": uri}}}
    return {"jsonrpc": "2.0", "method": "notebookDocument/didClose",
            "params": {"notebookDocument": {"uri": _nb_uri(uri)}, "cellTextDocuments": [{"uri": uri}]}}


DISK_TEXT = "this is on disk\nNOT what the client sent \U0001F60B\n"


class _Uri:
    """the document's URI: made up, or (case["disk"]) that of a real file under work/C04/ whose content
    differs from everything the client sends - an open document is the client's text, never the disk's"""
    def __init__(self, case, n):
        self.path = None
        if case.get("disk"):
            from pygls import uris
            d = os.path.join(core.ROOT, "work", "C04")
            os.makedirs(d, exist_ok=True)
            self.path = os.path.join(d, f"disk_{os.getpid()}_{n}.txt")
            with open(self.path, "w", encoding="utf-8", newline="") as f:
                f.write(DISK_TEXT)
            self.uri = uris.from_fs_path(self.path)
        else:
            self.uri = URI % n
    def __enter__(self):
        return self.uri
    def __exit__(self, *a):
        if self.path and os.path.exists(self.path):
            os.remove(self.path)


def _query(f):
    try:
        return f()
    except Exception as ex:
        return ["raise", type(ex).__name__]


def _observe(server, uri, qs=()):
    """text and version of the managed document; with sampled positions also what the document
    answers to queries at this point of its life (a TextDocument is a stateful object: the answers
    must be those of its CURRENT text)"""
    from lsprotocol import types
    d = server.workspace.get_text_document(uri)
    obs = [[ord(x) for x in d.source], d.version]
    if qs:
        codec = d.position_codec
        obs.append(_query(lambda: [[ord(x) for x in l] for l in d.lines]))
        ans = []
        for l, ch in qs:
            def P():
                return types.Position(line=l, character=ch)
            def pos(r):
                return [r.line, r.character]
            ans.append([_query(lambda: d.offset_at_position(P())),
                        _query(lambda: [ord(x) for x in d.word_at_position(P())]),
                        _query(lambda: pos(codec.position_from_client_units(d.lines, P()))),
                        _query(lambda: pos(codec.position_to_client_units(d.lines, P())))])
        obs.append(ans)
    return obs


def _qs(case, step):
    qss = case.get("qs")
    return qss[step] if qss and step < len(qss) else ()


_SERVERS = {}
_COUNTER = [0]


def _new_server(e, kind):
    from lsprotocol import types
    from pygls.lsp.server import LanguageServer
    k = {0: types.TextDocumentSyncKind.None_, 1: types.TextDocumentSyncKind.Full,
         2: types.TextDocumentSyncKind.Incremental}[kind]
    s = LanguageServer("c04", "1", text_document_sync_kind=k)
    s.protocol.set_writer(_Writer())
    return s


def _deliver(server, obj):
    """what the read loops do with one frame body"""
    p = server.protocol
    msg = json.loads(json.dumps(obj).encode("utf-8"), object_hook=p.structure_message)
    p.handle_message(msg)


def _shared_server(e, kind):
    key = (e, kind)
    if key not in _SERVERS:
        s = _new_server(e, kind)
        for m in _init_msgs(e):
            _deliver(s, m)
        assert s.workspace.position_encoding == ENC_NAME[e], s.workspace.position_encoding
        _SERVERS[key] = s
    return _SERVERS[key]


def _run_frames(case):
    """one long-lived server per (encoding, sync kind); a fresh document per history"""
    s = _shared_server(case["e"], case["kind"])
    _COUNTER[0] += 1
    obs = []
    with _Uri(case, _COUNTER[0]) as uri:
        step = 0
        for m, observe in _msgs(case, uri):
            try:
                _deliver(s, m)
                if observe:
                    obs.append(_observe(s, uri, _qs(case, step)))
            except Exception as ex:                      # the read loop would log and go on
                if observe:
                    obs.append(["raise", type(ex).__name__])
            step += 1 if observe else 0
        _deliver(s, _close_msg(case, uri))
    return obs


def _run_loop(case, use_async):
    """a fresh server fed the whole session as Content-Length frames through run / run_async;
    observed by user handlers registered for didOpen / didChange (they run after the built-ins)"""
    import asyncio, threading
    from lsprotocol import types
    from pygls.io_ import run, run_async
    s = _new_server(case["e"], case["kind"])
    obs = []
    with _Uri(case, 0) as uri:
        return _run_loop_on(case, use_async, s, uri, obs)


def _run_loop_on(case, use_async, s, uri, obs):
    import asyncio, threading
    from lsprotocol import types
    from pygls.io_ import run, run_async

    @s.feature(types.TEXT_DOCUMENT_DID_OPEN)
    def _o(ls, params):
        obs.append(_observe(ls, params.text_document.uri, _qs(case, len(obs))))

    @s.feature(types.TEXT_DOCUMENT_DID_CHANGE)
    def _c(ls, params):
        obs.append(_observe(ls, params.text_document.uri, _qs(case, len(obs))))

    data = b"".join(_frame(m) for m in _init_msgs(case["e"]) + [m for m, _ in _msgs(case, uri)])
    errs = []
    stop = threading.Event()
    if use_async:
        loop = asyncio.new_event_loop()
        try:
            async def main():
                r = asyncio.StreamReader()
                r.feed_data(data)
                r.feed_eof()
                await asyncio.wait_for(run_async(stop, r, s.protocol, error_handler=lambda e, t: errs.append(e)), 30)
            loop.run_until_complete(main())
        finally:
            loop.close()
    else:
        run(stop, io.BytesIO(data), s.protocol, error_handler=lambda e, t: errs.append(e))
    if errs:
        obs.append(["raise", type(errs[0]).__name__])
    return obs


def _run_chunk(cases):
    import logging
    logging.disable(logging.CRITICAL)
    out = []
    for c in cases:
        try:
            via = c.get("via", "frames")
            if via == "frames":
                out.append(_run_frames(c))
            else:
                out.append(_run_loop(c, via == "async"))
        except Exception as ex:
            out.append(["raise", type(ex).__name__])
    return out


# ---------------- the property ----------------
class C04(core.Property):
    id = "C04"
    modules = ["Proofs.DocProofs", "Proofs.DocCellProofs", "Props.C04"]
    obligations = ["concat_lsp_lines", "spec_locate_located", "converted_offset", "rebuild_is_splice",
                   "incremental_exact", "apply_change_kinds", "history_fold", "history_version",
                   "spec_locate_complete", "spec_locate_eof", "spec_locate_mono",
                   "spec_locate_complete_clamp", "did_change_version",
                   "C04_partial", "C04_utf16_utf32", "C04_full_none", "C04_version", "C04_refuted_utf8",
                   "C04_refuted", "C04_reference_agrees", "C04_nonvacuous", "C04_queries_stateless",
                   "cell_document_uses_workspace_encoding"]
    coq_targets = ["Props/C04.vo", "Proofs/DocCellProofs.vo", "Extract/ExtractC04.vo"]
    rule = ("a case is one editing session on one document: didOpen + 1..40 didChange notifications (1..3 changes "
            "each), encoding x sync kind, with queries (lines, offset_at_position, word_at_position, position_from/to_"
            "client_units at sampled positions: first / last / edited line, past the end) between the notifications; non-trivial = at least 2 changes and at least one change that is "
            "multi-line (range or new text spans a terminator) or has a non-ASCII character before one of its "
            "positions on that line; exhaustive part: every text up to length L over the class alphabet x every "
            "valid range x replacement in {'', 'Z', LF} x 3 encodings, plus each range with its end-of-line ends moved "
            "beyond the end of the line (LSP: defaults back to the line length); text alphabet of initial and inserted "
            "texts includes the characters text code is tempted to treat specially (U+FEFF, U+200B, U+2060, U+00AD, "
            "VT FF FS GS RS US NEL LS PS, NUL, DEL, NBSP, non-characters U+FFFE/U+FFFF/U+1FFFE/U+10FFFF), each at the very "
            "start / in the middle / at the end / alone x 3 encodings x 3 sync kinds")
    trusted_base = ["Coq 8.16.1 kernel incl. vm_compute (refutation witnesses, Examples)",
                    "extraction with ExtrOcamlBasic only + ocaml/c04_driver.ml + conv_io/conv_n/conv_z",
                    "harness/c04.py (editor simulator, delivery, canonicalisation)",
                    "modelled not verified: RE_LINE.findall, str slicing/replace/rstrip, io.StringIO, "
                    "json/cattrs structuring of didOpen/didChange params (exercised on every case)"]
    assumptions = ["positions have non-negative line/character (LSP uinteger)",
                   "a Python str is a list of code points 0..0x10FFFF",
                   "the document was opened with didOpen (TextDocument._source is not None)"]

    # ---------------- generation ----------------
    def generate(self, chk):
        cases = []
        cdir = os.path.join(core.ROOT, "corpus", "C04")
        if os.path.isdir(cdir):
            for f in sorted(os.listdir(cdir)):
                cases.extend(json.load(open(os.path.join(cdir, f))))
        rng = chk.rng
        # 1. bounded-exhaustive single edits
        alpha = [0x61, 0xE9, 0x1F60B, 10, 13, 0x2028] if chk.quick else [0x61, 0xE9, 0x20AC, 0x1F60B, 10, 13, 0x0B, 0x2028]
        L = 3 if chk.quick else 4
        cases.extend(self._exhaustive(alpha, L, ENCS))
        self.exhaustive = True
        # 2. editor simulator: valid histories
        for _ in range(chk.n(600, 4000)):
            text0 = self._text(rng, rng.choice([0, 1, 3, 8, 20, 30]))
            r = rng.random()
            if r < 0.06:
                text0 = [rng.choice(SPECIALS)] + text0
            elif r < 0.10:
                text0 = text0 + [rng.choice(SPECIALS)]
            nedits = rng.choice([1, 2, 3, 5, 8, 13, 21, 40])
            for e in ENCS:
                kind = rng.choice([2, 2, 2, 1, 0])
                via = rng.choice(["frames"] * 12 + ["async", "sync"])
                cases.append(self._history(rng, e, kind, text0, nedits, via))
        # 3. a notification without content changes still stores its version (repaired: 814a81b)
        for _ in range(chk.n(20, 100)):
            c = self._history(rng, rng.choice(ENCS), rng.choice(KINDS), self._text(rng, 6, ascii_only=True), 3, "frames")
            i = rng.randrange(len(c["ns"]) + 1)
            c["cell"] = None      # (a cell's textContent entry without changes is C10's business)
            c["ns"].insert(i, [rng.randint(0, 99), []])
            c["qs"].insert(i + 1, list(c["qs"][i]))
            cases.append(c)
        # 4. invalid edits: compared with the model only
        for _ in range(chk.n(1500, 8000)):
            cases.append(self._invalid(rng))
        # 5. format / boundary / non-characters at the start, in the middle, at the end of initial and inserted texts
        cases.extend(self._special_histories(rng, chk.n(1, 4)))
        return cases

    @staticmethod
    def _qpos(rng, e, text, hint_line=0):
        """a few positions to query: first line, last line, the edited line, past the end"""
        nl = nlines(text)
        def ch():
            return rng.choice([0, 0, 1, 2, rng.randint(0, 12), 2 ** 31 - 1])
        out = [[0, ch()], [nl - 1, ch()], [min(hint_line, nl), ch()], [nl + rng.randint(0, 1), rng.choice([0, 0, 3])]]
        rng.shuffle(out)
        return out[:rng.randint(2, 4)]

    def _exhaustive(self, alpha, L, encs):
        out = []
        for n in range(L + 1):
            for t in itertools.product(alpha, repeat=n):
                text = list(t)
                bs = boundaries(text)
                for e in encs:
                    ps = [pos_of(e, text, o) for o in bs]
                    for i in range(len(bs)):
                        for j in range(i, len(bs)):
                            for new in ([], [0x5A], [10]):
                                out.append({"k": "hist", "e": e, "kind": 2, "text": text, "v0": 0,
                                            "ns": [[1, [{"r": list(ps[i] + ps[j]), "t": new}]]],
                                            "expect": text[:bs[i]] + new + text[bs[j]:]})
                            if at_eol(text, bs[i]) or at_eol(text, bs[j]):
                                # the same range with `character` beyond the end of the line(s)
                                pi = (ps[i][0], ps[i][1] + 2) if at_eol(text, bs[i]) else ps[i]
                                pj = (ps[j][0], ps[j][1] + 2) if at_eol(text, bs[j]) else ps[j]
                                out.append({"k": "hist", "e": e, "kind": 2, "text": text, "v0": 0,
                                            "ns": [[1, [{"r": list(pi + pj), "t": [0x5A]}]]],
                                            "expect": text[:bs[i]] + [0x5A] + text[bs[j]:]})
        # queries before and after the edit: every case on a text of at most one character (the empty
        # document above all), one in nine of the others
        for idx, c in enumerate(out):
            if not c["text"] or (not c["expect"] and idx % 3 == 0):
                c["disk"] = True        # the client's text is empty at some point: never the file's content
            if idx % 24 == 1:
                c["cell"] = "open"      # the same edit on a notebook cell's document
            elif idx % 48 == 5:
                c["cell"] = "struct"
            if len(c["text"]) <= 1 or idx % 9 == 0:
                n0, n1 = nlines(c["text"]), nlines(c["expect"])
                c["qs"] = [[[0, 0], [n0, 0]], [[0, 1], [n1 - 1, 2], [n1, 0]]]
        return out

    @staticmethod
    def _text(rng, n, ascii_only=False):
        out = []
        while len(out) < n:
            r = rng.random()
            if ascii_only:
                out.append(rng.choice([0x61, 0x62, 0x20, 10]))
            elif r < 0.40:
                out.append(rng.choice([0x61, 0x62, 0x63, 0x20, 0x7A, 0x09]))
            elif r < 0.50:
                out.append(0xE9)
            elif r < 0.58:
                out.append(0x20AC)
            elif r < 0.68:
                out.append(0x1F60B)
            elif r < 0.78:
                out.append(10)
            elif r < 0.84:
                out.append(13)
            elif r < 0.90:
                out.extend([13, 10])
            else:
                out.append(rng.choice(SPECIALS))
        return out

    def _placed(self, rng, s, where, n):
        """a text of about n characters with the character s at its very start / in the middle / at its end
        (where = 0 / 1 / 2) or alone (3); now and again doubled, or first on a later line too"""
        if where == 3:
            return [s]
        base = self._text(rng, n) if rng.random() < 0.5 else [rng.choice([0x61, 0x62, 0x20, 0xE9, 0x1F60B]) for _ in range(n)]
        if where == 0:
            out = [s] + base
        elif where == 2:
            out = base + [s]
        else:
            k = rng.choice([o for o in boundaries(base) if 0 < o < len(base)] or [0])
            out = base[:k] + [s] + base[k:]
        r = rng.random()
        if r < 0.15:
            out = [s] + out
        elif r < 0.30:
            out = out + [rng.choice([10, 13]), s, 0x61]
        return out

    def _special_histories(self, rng, per):
        """every special character x {start, middle, end, alone} of the initial text x encoding x sync kind;
        the changes of these sessions insert the same character (alone, leading, trailing) as well"""
        out = []
        for s in SPECIALS:
            for where in (0, 1, 2, 3):
                for e in ENCS:
                    for kind in KINDS:
                        for _ in range(per):
                            text0 = self._placed(rng, s, where, rng.choice([1, 2, 4, 7]))
                            c = self._history(rng, e, kind, text0, rng.choice([1, 2, 3, 5]), "frames", special=s)
                            out.append(c)
        return out

    def _new_text(self, rng, n, special=None):
        new = self._text(rng, n)
        if special is not None and rng.random() < 0.5:
            r = rng.random()
            new = [special] if r < 0.3 else [special] + new if r < 0.6 else new + [special] if r < 0.85 else new[:1] + [special] + new[1:]
        return new

    def _edit(self, rng, e, text, special=None):
        """one valid edit of the editor's buffer -> (change, new buffer)"""
        bs = boundaries(text)
        eols = [o for o in bs if o == len(text) or text[o] in (10, 13)]
        if text and rng.random() < 0.04:            # select all, delete
            return {"r": list(pos_of(e, text, 0) + pos_of(e, text, len(text))), "t": []}, []
        r = rng.random()
        if r < 0.12:
            a = 0
        elif r < 0.30:
            a = len(text)
        elif r < 0.45:
            a = rng.choice(eols)
        else:
            a = rng.choice(bs)
        r = rng.random()
        if r < 0.35:
            b = a                                   # insertion
        elif r < 0.45:
            b = len(text)
        else:
            later = [o for o in bs if o >= a]
            b = rng.choice(later[:6]) if rng.random() < 0.7 else rng.choice(later)
        r = rng.random()
        if r < 0.25:
            new = []                                # deletion (or the empty edit)
        elif r < 0.55:
            new = self._new_text(rng, 1, special)
        else:
            new = self._new_text(rng, rng.randint(1, 6), special)
        pa, pb = pos_of(e, text, a), pos_of(e, text, b)
        def beyond(off, p):
            # LSP: a character beyond the end of the line defaults back to the line length
            if at_eol(text, off) and rng.random() < 0.25:
                return (p[0], p[1] + rng.choice([1, 2, 7, 2 ** 31 - 1 - p[1]]))
            return p
        if a == b:
            pa = pb = beyond(a, pa)
        else:
            pa, pb = beyond(a, pa), beyond(b, pb)
        ch = {"r": list(pa + pb), "t": new}
        if rng.random() < 0.3:
            ch["rl"] = b - a                        # deprecated rangeLength, never read by pygls
        return ch, text[:a] + new + text[b:]

    def _history(self, rng, e, kind, text0, nedits, via, special=None):
        text, ns, v, left = list(text0), [], rng.randint(0, 5), nedits
        v0 = v
        qs = [self._qpos(rng, e, text)]                 # queries right after didOpen
        while left > 0:
            k = min(left, rng.choice([1, 1, 1, 2, 3]))
            left -= k
            cs = []
            hint = 0
            for _ in range(k):
                if rng.random() < (0.08 if kind == 2 else 0.5):
                    new = self._new_text(rng, rng.randint(0, 8), special)
                    cs.append({"t": new})
                    if kind != 0:
                        text = new
                else:
                    ch, t2 = self._edit(rng, e, text, special)
                    cs.append(ch)
                    hint = ch["r"][0]
                    if kind == 2:
                        text = t2
                    elif kind == 1:
                        text = ch["t"]
            v = v + 1 if rng.random() < 0.9 else rng.randint(-3, 10 ** 6)
            ns.append([v, cs])
            # queries between the notifications: always after the first one, then now and again
            qs.append(self._qpos(rng, e, text, hint) if (len(ns) == 1 or rng.random() < 0.25) else [])
        cell = rng.choice([None, None, None, None, None, None, "open", "struct"])
        disk = (not text0) or rng.random() < 0.2
        if cell:
            via = "frames"
        return {"k": "hist", "e": e, "kind": kind, "text": list(text0), "v0": v0, "ns": ns, "via": via, "qs": qs,
                "cell": cell, "disk": disk,
                "expect": text}

    def _invalid(self, rng):
        e = rng.choice(ENCS)
        text = self._text(rng, rng.choice([0, 1, 2, 4, 8]))
        nl = nlines(text)
        ns = []
        for i in range(rng.randint(1, 4)):
            def p():
                l = rng.choice([rng.randint(0, nl + 1), rng.randint(0, nl + 1), 2 ** 31 - 1])
                ch = rng.choice([rng.randint(0, 6), rng.randint(0, 6), rng.randint(0, 40), 2 ** 31 - 1])
                return [l, ch]
            ns.append([i + 1, [{"r": p() + p(), "t": self._text(rng, rng.randint(0, 3))}]])
        return {"k": "hist", "e": e, "kind": rng.choice([2, 2, 2, 2, 1, 0]), "text": text, "v0": 0, "ns": ns,
                "via": rng.choice(["frames"] * 9 + ["async"]), "monly": True}

    # ---------------- implementation ----------------
    def run_impl(self, chk, cases):
        if len(cases) < 4000:
            return _run_chunk(cases)
        from concurrent.futures import ProcessPoolExecutor
        n = 16                                      # round robin: every chunk gets the same mix of cases
        chunks = [cases[i::n] for i in range(n)]
        out = [None] * len(cases)
        with ProcessPoolExecutor(max_workers=4) as ex:
            for i, r in enumerate(ex.map(_run_chunk, chunks)):
                out[i::n] = r
        return out

    # ---------------- model ----------------
    def model_input(self, c):
        ns = " ".join(f"{v} {len(cs)} " + " ".join(enc_change(x) for x in cs) if cs else f"{v} 0"
                      for v, cs in c["ns"])
        qss = c.get("qs") or [[] for _ in range(len(c["ns"]) + 1)]
        qs = " ".join(f"{len(q)} " + " ".join(f"{l} {ch}" for l, ch in q) if q else "0" for q in qss)
        return f"hist {c['e']} {c['kind']} {enc_str(c['text'])} {c['v0']} {len(c['ns'])} {ns} {qs}"

    def model_output(self, c, t):
        it = iter(int(x) for x in t)
        def s():
            n = next(it)
            return [next(it) for _ in range(n)]
        def queries(nq):
            lines = [s() for _ in range(next(it))]
            ans = []
            for _ in range(nq):
                off = next(it); w = s()
                ans.append([off, w, [next(it), next(it)], [next(it), next(it)]])
            return [lines, ans]
        n = next(it)
        M, S = [], []
        for _ in range(n):
            src = s(); has = next(it); v = next(it)
            st = s(); sv = next(it)
            m, sp = [src, v if has else None], [st, sv]
            nq = next(it)
            if nq:
                m += queries(nq); sp += queries(nq)
            M.append(m); S.append(sp)
        valid, gtext = next(it), next(it)
        if c.get("monly") or not valid:
            return {"M": M, "S": None, "guard": False, "klass": None}
        if "expect" in c and S[-1][0] != c["expect"]:
            raise RuntimeError(f"editor simulator and Coq reference disagree on {json.dumps(c)}: {S[-1][0]}")
        return {"M": M, "S": S, "guard": bool(gtext), "klass": None if gtext else "F17-utf8-widths"}

    def nontrivial(self, c):
        changes = [x for _, cs in c["ns"] for x in cs]
        if len(changes) < 2:
            return False
        if any(10 in x["t"] or 13 in x["t"] or ("r" in x and x["r"][0] != x["r"][2]) for x in changes):
            return True
        return any(ch >= 0x80 for ch in c["text"])

    def shrink(self, c):
        ns = c["ns"]
        for k in range(1, len(ns)):                 # shortest failing prefix
            d = dict(c); d["ns"] = ns[:k]; d.pop("expect", None)
            if "qs" in c:
                d["qs"] = c["qs"][:k + 1]
            yield d
        if c.get("via", "frames") != "frames":
            d = dict(c); d["via"] = "frames"
            yield d
        if len(ns) == 1 and len(ns[0][1]) == 1:
            ch = ns[0][1][0]
            if len(ch["t"]) > 1:
                d = dict(c); d.pop("expect", None)
                d["ns"] = [[ns[0][0], [dict(ch, t=ch["t"][:1])]]]
                yield d

    def search(self, chk):
        cases = self._exhaustive([0x61, 0x1F60B, 10, 13], 3, ENCS)
        res = core.evaluate(self, chk, cases)
        return [r for r in res if r["verdict"] == "violation"][:1]

    def extra_checks(self, chk):
        """thorough tier: the compiled theory of Props/C04 re-checked by the independent checker"""
        self.extra_coverage = {}
        if chk.quick:
            return []
        r = core.sh("timeout 900 coqchk -silent -o -Q . Pygls Pygls.Props.C04", cwd=core.COQ, timeout=1000)
        out = r.stdout + r.stderr
        ok = r.returncode == 0 and "Axioms: <none>" in " ".join(out.split())
        self.extra_coverage = {"coqchk": "ok, Axioms: <none>" if ok else out[-800:]}
        if ok:
            return []
        return [{"case": None, "impl": None, "S": "coqchk -o Pygls.Props.C04 succeeds with no axioms",
                 "verdict": "violation", "broken": "coqchk", "log": out[-1500:], "suffix": "no-failing-input-found"}]

    def distribution(self, cases):
        d = {}
        for c in cases:
            nch = sum(len(cs) for _, cs in c["ns"])
            size = "1" if nch <= 1 else "2-5" if nch <= 5 else "6-20" if nch <= 20 else "21+"
            key = f"utf{c['e']}/kind{c['kind']}/{'invalid' if c.get('monly') else 'valid'}/{c.get('via', 'frames')}{'/cell-' + c['cell'] if c.get('cell') else ''}{'/disk' if c.get('disk') else ''}/changes{size}"
            d[key] = d.get(key, 0) + 1
        return d


PROPERTY = C04


# ---------------------------------------------------------------------------------------------
# Second tie for the pure core (appended; harness/gen_ast.py, coq/Base/PyMini.v, Proofs/AstDocEquiv.v):
# the SOURCE TEXT of TextDocument.source / lines / _apply_incremental_change / _apply_full_change /
# _apply_none_change / apply_change is translated on every run by a fail-closed AST translator into a deep
# embedding, linked with the translated position codec, and the kernel re-checks that it computes exactly
# Model/Doc.v (lsp_lines, rebuild / apply_incremental_change, apply_change) for every text, sync kind,
# encoding and change.  Imported late ("Module::theorem") so that a broken translator tie does not hide the
# other obligations.
import sys as _sys
_sys.path.insert(0, os.path.dirname(os.path.abspath(__file__)))
import gen_c04 as _gen_c04

# ast_doc_equiv = ast_lines_equiv /\ ast_apply_incremental_change_equiv /\ ast_apply_change_equiv
C04.obligations = list(C04.obligations) + ["Proofs.AstDocEquiv::" + n for n in ("ast_doc_equiv", "ast_doc_example")]
C04.coq_targets = list(C04.coq_targets) + ["Proofs/AstDocEquiv.vo"]
C04.trusted_base = list(C04.trusted_base) + [
    "translator tie: harness/gen_ast.py (Python ast -> PyMini, fail-closed) and the PyMini semantics "
    "coq/Base/PyMini.v (hand-written meaning of the Python subset: RE_LINE.findall = lsp_lines, io.StringIO as a "
    "string accumulator, for/enumerate, isinstance on the two content-change classes, procedures returning self)"]
_prev_regenerate = getattr(C04, "regenerate", None)


def _regenerate(self, chk):
    try:
        if _prev_regenerate is not None:
            _prev_regenerate(self, chk)
    finally:
        core.coq_make(["Props/C04.vo", "Extract/ExtractC04.vo"])     # the differential side first
        with core._Lock("coq"):                                      # coq/Gen is shared
            try:
                _gen_c04.main()
            finally:
                core._coq_make(["Proofs/AstDocEquiv.vo"])


C04.regenerate = _regenerate
