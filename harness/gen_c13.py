"""C13 reflection translator (DESIGN 4.8): regenerates, from the modules importable on PYTHONPATH,
  coq/Gen/MethodRegistry.v  lsprotocol.types.METHOD_TO_TYPES: one row per method
  coq/Gen/Helpers.v         every public method defined by BaseLanguageServer / BaseLanguageClient,
                            invoked against a recording protocol stub
Fail-closed: anything unexpected raises (the check then treats the tables as not established).
Run by `make setup` (as a script) and by harness/c13.py on every check (`regenerate`)."""
import asyncio, inspect, os, sys

ROOT = os.path.dirname(os.path.dirname(os.path.abspath(__file__)))
GEN = os.path.join(ROOT, "coq", "Gen")


def cps(s):
    return "[" + "; ".join(str(ord(c)) for c in s) + "]"


def opt(s):
    return "None" if s is None else f"(Some {cps(s)})"


def reflect_registry():
    import attrs
    from lsprotocol import types
    from lsprotocol import converters
    converters.get_converter()          # resolves forward references
    rows = []
    dirs = {"clientToServer": "ClientToServer", "serverToClient": "ServerToClient", "both": "BothDir"}
    for method, entry in types.METHOD_TO_TYPES.items():
        if not isinstance(method, str) or len(entry) != 4:
            raise RuntimeError(f"unexpected registry entry for {method!r}")
        msg, res, par, _reg = entry
        if msg is None or not attrs.has(msg):
            raise RuntimeError(f"{method}: message type is not an attrs class")
        fields = {f.name for f in attrs.fields(msg)}
        if not {"method", "jsonrpc"} <= fields:
            raise RuntimeError(f"{method}: message class lacks method/jsonrpc")
        d = types.message_direction(method)
        rows.append({"name": method, "request": "id" in fields, "dir": dirs[d],
                     "msg": msg.__name__, "res": None if res is None else res.__name__,
                     "par": None if par is None else par.__name__})
    return rows


class _Stub:
    """Records what a helper asks the protocol to do."""
    def __init__(self):
        self.calls = []
    def notify(self, method, params=None):
        self.calls.append(("notify", method, params, None))
    def send_request(self, method, params=None, callback=None, msg_id=None):
        self.calls.append(("send_request", method, params, callback))
        from concurrent.futures import Future
        f = Future(); f.set_result(None)
        return f
    def send_request_async(self, method, params=None, msg_id=None):
        self.calls.append(("send_request_async", method, params, None))
        f = asyncio.get_event_loop().create_future(); f.set_result(None)
        return f


def reflect_helpers(strict=True, broken=None):
    """strict: the first helper that cannot be reflected raises (fail-closed).  Otherwise such helpers
    are listed in `broken` as (side, name, reason) and left out."""
    from pygls.lsp._base_server import BaseLanguageServer
    from pygls.lsp._base_client import BaseLanguageClient
    from pygls.lsp.server import LanguageServer
    rows = []
    loop = asyncio.new_event_loop()
    asyncio.set_event_loop(loop)
    try:
        for side, cls, inst in (("Server", BaseLanguageServer, LanguageServer("gen", "0")),
                                ("Client", BaseLanguageClient, BaseLanguageClient("gen", "0"))):
            stub = _Stub()
            inst.protocol = stub
            for name, fn in cls.__dict__.items():
                if name.startswith("_") or not inspect.isfunction(fn):
                    continue
                sig = inspect.signature(fn)
                P, CB = object(), (lambda *_a: None)
                kwargs = {}
                for pn, p in list(sig.parameters.items())[1:]:
                    if pn == "params":
                        kwargs[pn] = P
                    elif pn == "callback":
                        kwargs[pn] = CB
                    elif p.default is inspect.Parameter.empty and p.kind in (p.POSITIONAL_ONLY, p.POSITIONAL_OR_KEYWORD, p.KEYWORD_ONLY):
                        raise RuntimeError(f"{cls.__name__}.{name}: unexpected required parameter {pn}")
                stub.calls.clear()
                try:
                    r = fn(inst, **kwargs)
                    if inspect.iscoroutine(r):
                        loop.run_until_complete(asyncio.wait_for(r, 5))
                    if len(stub.calls) != 1:
                        raise RuntimeError(f"{len(stub.calls)} protocol calls")
                    kind, method, params, cb = stub.calls[0]
                    if not isinstance(method, str):
                        raise RuntimeError("method is not a string")
                except Exception as ex:
                    if strict:
                        raise RuntimeError(f"{cls.__name__}.{name}: {ex!r}")
                    if broken is not None:
                        broken.append((side, name, repr(ex)))
                    continue
                rows.append({"side": side, "name": name, "method": method,
                             "kind": {"notify": "HNotify", "send_request": "HSendRequest",
                                      "send_request_async": "HSendRequestAsync"}[kind],
                             "params": "params" in kwargs and params is P,
                             "callback": "callback" in kwargs and cb is CB,
                             "coroutine": inspect.iscoroutinefunction(fn)})
    finally:
        asyncio.set_event_loop(None)
        loop.close()
    return rows


def b(x):
    return "true" if x else "false"


def render_registry(rows):
    out = ["(* REGENERATED by harness/gen_c13.py from lsprotocol.types.METHOD_TO_TYPES - do not edit *)",
           "From Pygls Require Import Model.Registry.", "Open Scope N_scope.", "",
           "Definition method_registry : list mrow := ["]
    items = []
    for r in rows:
        items.append(f"  (* {r['name']} : {r['msg']} *)\n"
                     f"  mk_mrow {cps(r['name'])} {b(r['request'])} {r['dir']}\n"
                     f"    {cps(r['msg'])} {opt(r['res'])} {opt(r['par'])}")
    out.append(";\n".join(items))
    out.append("].")
    return "\n".join(out) + "\n"


def render_helpers(rows):
    out = ["(* REGENERATED by harness/gen_c13.py: every public method of BaseLanguageServer /",
           "   BaseLanguageClient, called against a recording protocol stub - do not edit *)",
           "From Pygls Require Import Model.Registry.", "Open Scope N_scope.", "",
           "Definition helper_table : list hrow := ["]
    items = []
    for r in rows:
        items.append(f"  (* {r['side']}.{r['name']} -> {r['kind']} {r['method']} *)\n"
                     f"  mk_hrow {r['side']} {cps(r['name'])}\n    {cps(r['method'])} {r['kind']} "
                     f"{b(r['params'])} {b(r['callback'])}")
    out.append(";\n".join(items))
    out.append("].")
    return "\n".join(out) + "\n"


def write_if_changed(path, text):
    if os.path.exists(path) and open(path).read() == text:
        return False
    os.makedirs(os.path.dirname(path), exist_ok=True)
    tmp = path + ".tmp"
    open(tmp, "w").write(text)
    os.replace(tmp, path)
    return True


def generate():
    reg, helpers = reflect_registry(), reflect_helpers()
    if not reg or not helpers:
        raise RuntimeError("empty table")
    c1 = write_if_changed(os.path.join(GEN, "MethodRegistry.v"), render_registry(reg))
    c2 = write_if_changed(os.path.join(GEN, "Helpers.v"), render_helpers(helpers))
    return reg, helpers, (c1 or c2)


if __name__ == "__main__":
    import logging
    logging.disable(logging.CRITICAL)
    reg, helpers, changed = generate()
    print(f"gen_c13: {len(reg)} methods, {len(helpers)} helpers, changed={changed}")
