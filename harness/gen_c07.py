#!/usr/bin/env python3
"""Reflection translator for C07: pygls.exceptions -> coq/Gen/ExcTable.v   (DESIGN 4.8)

Imports pygls.exceptions from PYTHONPATH ($VERIF_REPO) and writes, for the base class and for every
JsonRpcException subclass the module exports: name, CODE, MESSAGE, membership in the registry that
`from_error` chooses from (the module-private set `_EXCEPTIONS`, located by harness/priv.py),
whether `supports_code` is the inherited equality test or a range test (bounds found by probing and
confirmed at the edges), and whether the constructor is the inherited one or a range-checking one.
Fail-closed: anything the row format cannot express raises, the check then handles it as a broken
obligation (DESIGN 1.2(c)).  The finite theorems over the table (Proofs/ExceptionsProofs.v,
Props/C07.v) are re-checked by the kernel against the regenerated file on every run.
"""
import importlib, inspect, os, sys
sys.path.insert(0, os.path.dirname(os.path.abspath(__file__)))
import priv

ROOT = os.path.dirname(os.path.dirname(os.path.abspath(__file__)))
OUT = os.path.join(ROOT, "coq", "Gen", "ExcTable.v")

# integers on which supports_code / constructors are probed
WINDOW = range(-40000, -24999)
FAR = sorted({s * (2 ** k) + d for k in (0, 7, 8, 15, 16, 31, 32, 53, 63, 64, 70) for s in (1, -1)
              for d in (-1, 0, 1)} | {0, 1, -1, -32768, -32769, 32767, 32768, 10 ** 6, -10 ** 6,
                                      -50000, -45000, -40001, -24999, -20000})
DEFAULT_CODE = -32001      # supports_code: getattr(cls, "CODE", -32001) == code


class TableError(Exception):
    pass


def _interval(name, pred):
    """The set {c | pred(c)} must be one interval strictly inside WINDOW (and empty on FAR)."""
    inside = [c for c in WINDOW if pred(c)]
    if not inside:
        raise TableError(f"{name}: supports no code in the probed window")
    lo, hi = inside[0], inside[-1]
    if inside != list(range(lo, hi + 1)):
        raise TableError(f"{name}: supported codes are not one interval")
    if lo == WINDOW[0] or hi == WINDOW[-1]:
        raise TableError(f"{name}: interval reaches the edge of the probed window")
    if pred(lo - 1) or pred(hi + 1) or not pred(lo) or not pred(hi):
        raise TableError(f"{name}: edges of [{lo},{hi}] not confirmed")
    for c in FAR:
        if pred(c) and not (lo <= c <= hi):
            raise TableError(f"{name}: also supports {c}")
    return lo, hi


def reflect(strict=True):
    """-> (base_row, [rows sorted by class name]); row = dict(name, code, msg, reg, sup, ctor).
    strict=False (used by the harness only to enumerate classes after a fail-closed stop): what cannot
    be expressed becomes ("unknown",) instead of raising; never used to write the Coq table."""
    X = importlib.import_module("pygls.exceptions")
    base = X.JsonRpcException
    registered = priv.registered_exceptions()
    classes = {}
    for k, v in vars(X).items():
        if inspect.isclass(v) and issubclass(v, base) and v is not base:
            classes[v.__name__] = v

    def subs(c):
        for s in c.__subclasses__():
            if s.__module__ == X.__name__:
                classes.setdefault(s.__name__, s)
            subs(s)
    subs(base)
    for c in registered:
        if c is base:
            raise TableError("the base class itself is registered")
        if not (inspect.isclass(c) and issubclass(c, base)):
            raise TableError(f"the registry holds {c!r}, not a JsonRpcException subclass")
        if classes.get(c.__name__) is not c:
            raise TableError(f"registered class {c.__name__} is not exported by pygls.exceptions")

    def row(cls):
        name = cls.__name__
        if not name.isascii() or not name.isidentifier():
            raise TableError(f"class name {name!r}")
        code = getattr(cls, "CODE", None)
        if code is not None and (type(code) is not int):
            raise TableError(f"{name}.CODE = {code!r} is not an int")
        msg = getattr(cls, "MESSAGE", None)
        if msg is not None and not isinstance(msg, str):
            raise TableError(f"{name}.MESSAGE = {msg!r} is not a str")
        # supports_code
        try:
            inherited = cls.supports_code.__func__ is base.__dict__["supports_code"].__func__
        except Exception as e:
            raise TableError(f"{name}.supports_code: {e!r}")
        pred = lambda c: cls.supports_code(c) is True or (cls.supports_code(c) and True)
        if inherited:
            want = DEFAULT_CODE if code is None else code
            probes = set(FAR) | {want - 1, want, want + 1, DEFAULT_CODE - 1, DEFAULT_CODE, DEFAULT_CODE + 1}
            probes |= set(range(-33000, -30999))
            for c in probes:
                if bool(cls.supports_code(c)) != (c == want) and strict:
                    raise TableError(f"{name}: inherited supports_code({c}) is not `CODE == code`")
            sup = ("inherited",)
        else:
            try:
                lo, hi = _interval(name, lambda c: bool(cls.supports_code(c)))
                sup = ("range", lo, hi)
            except Exception:
                if strict:
                    raise
                sup = ("unknown",)
        # constructor
        if cls.__init__ is base.__init__:
            ctor = ("default",)
        else:
            def accepts(c):
                try:
                    x = cls("m", c)
                except ValueError:
                    return False
                if x.code != c or x.message != "m" or x.data is not None or type(x) is not cls:
                    raise TableError(f"{name}('m', {c}) does not keep its arguments")
                return True
            try:
                lo, hi = _interval(name + ".__init__", accepts)
                try:
                    cls()
                except TypeError:
                    pass
                else:
                    raise TableError(f"{name}() without arguments is accepted by a custom constructor")
                ctor = ("range_checked", lo, hi)
            except Exception:
                if strict:
                    raise
                ctor = ("unknown",)
        return {"name": name, "code": code, "msg": msg, "reg": cls in registered, "sup": sup, "ctor": ctor}

    rows = [row(classes[n]) for n in sorted(classes)]
    brow = row(base)
    if brow["reg"]:
        raise TableError("base class registered")
    if brow["ctor"] != ("default",):
        raise TableError("base constructor")
    # classes json_rpc.py builds itself must exist (fail closed, the server-side model looks them up)
    names = {r["name"] for r in rows}
    for need in ("JsonRpcInternalError", "JsonRpcInvalidParams", "JsonRpcMethodNotFound",
                 "JsonRpcRequestCancelled"):
        if need not in names:
            raise TableError(f"{need} missing from pygls.exceptions")
    return brow, rows


def z(v):
    return f"({v})" if v < 0 else str(v)


def nstr(s):
    return "[" + "; ".join(str(ord(c)) for c in s) + "]%N"


def coq_row(r):
    code = "None" if r["code"] is None else f"(Some {z(r['code'])})"
    msg = "None" if r["msg"] is None else f"(Some {nstr(r['msg'])})"
    sup = "SInherited" if r["sup"][0] == "inherited" else f"(SRange {z(r['sup'][1])} {z(r['sup'][2])})"
    ctor = "CDefault" if r["ctor"][0] == "default" else f"(CRangeChecked {z(r['ctor'][1])} {z(r['ctor'][2])})"
    reg = "true" if r["reg"] else "false"
    m = "-" if r["msg"] is None else repr(r["msg"]).replace("*)", "* )").replace("(*", "( *")
    return (f"  (* {r['name']}  MESSAGE={m} *)\n"
            f"  mkEntry {nstr(r['name'])} {code} {msg} {reg} {sup} {ctor}")


def render(brow, rows):
    out = ["(* GENERATED by harness/gen_c07.py from pygls.exceptions - do not edit.",
           "   One row per exported JsonRpcException subclass (sorted by name; `_EXCEPTIONS` is a set,",
           "   the theorems hold for every order), plus the base class. *)",
           "From Coq Require Import ZArith NArith List.",
           "From Pygls Require Import Model.Exceptions.",
           "Import ListNotations.",
           "Open Scope Z_scope.",
           "",
           "Definition base_entry : entry :=",
           coq_row(brow) + ".",
           "",
           "Definition current_table : list entry := ["]
    out.append(";\n".join(coq_row(r) for r in rows))
    out.append("].")
    return "\n".join(out) + "\n"


def main(out=OUT):
    brow, rows = reflect()
    text = render(brow, rows)
    os.makedirs(os.path.dirname(out), exist_ok=True)
    if not os.path.exists(out) or open(out).read() != text:      # keep the mtime when unchanged
        tmp = out + ".tmp%d" % os.getpid()
        open(tmp, "w").write(text)
        os.replace(tmp, out)
    return brow, rows


if __name__ == "__main__":
    b, rs = main()
    import gen_ast                     # the source translation of the same module (harness/gen_ast.py)
    print("gen_c07:", os.path.relpath(gen_ast.gen_exceptions(), ROOT))
    print(f"gen_c07: {len(rs)} classes, {sum(r['reg'] for r in rs)} registered -> {os.path.relpath(OUT, ROOT)}")
