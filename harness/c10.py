"""C10 - the workspace equals the fold of the sync history, in arrival order.
Histories of the seven synchronisation notifications (text document open/change/close, notebook
open/change/close, workspace folders) are sent as real JSON-RPC notifications (structure_message +
handle_message, a share of them as Content-Length frames through run_async / run) into a real
LanguageServer; after EVERY message the public workspace API is snapshotted and canonicalised
(sorted by URI) and compared with the extracted model (Model/Workspace.v) and with the extracted
reference fold (Spec/WorkspaceSpec.v), which is total: histories with changes / closes for documents
and notebooks that are not open are judged by it too (they change nothing and are reported); only
histories with a duplicated cell document or one of the two order-dependent notifications of
DESIGN section 6 row 25 are compared with the model alone.  URIs that are not open are
backed by files on disk so that the disk fallback of get_text_document is observable.  The
"notebook stored on open is an independent copy" clause is decided here only: a user handler
mutates the params object of every notebookDocument/didOpen before the snapshot is taken."""
import io, itertools, json, os, random
import core

ENCS = (8, 16, 32)
ENC_NAME = {8: "utf-8", 16: "utf-16", 32: "utf-32"}
DISK = os.path.join(core.ROOT, "work", "C10", "disk")
DISK_MARK = "☃disk:"            # no generated text contains U+2603


# ---------------- abstract ids <-> wire values ----------------
def doc_uri(k):
    return f"file://{DISK}/d{k}.txt"


def nb_uri(k):
    return f"file://{DISK}/n{k}.ipynb"


def folder_uri(k):
    return f"file://{DISK}/f{k}"


def lang_name(k):
    return f"lang{k}"


def meta_obj(k):
    """metadata payload: 0 is the empty object (the only falsy one)"""
    return {} if k == 0 else {"k": k, "nested": {"a": [k, None, "x"]}}


def exec_obj(k):
    d = {"executionOrder": k}
    if k % 3:
        d["success"] = bool(k % 2)
    return d


def _un(prefix, s):
    """inverse of the naming functions; a value that is not of that form stays as it is (and then
    differs from every model value)"""
    if isinstance(s, str) and s.startswith(prefix):
        t = s[len(prefix):]
        for suffix in (".txt", ".ipynb", ""):
            if t.endswith(suffix) and t[:len(t) - len(suffix)].isdigit():
                return int(t[:len(t) - len(suffix)])
    return s


def un_doc(s):
    return _un(f"file://{DISK}/d", s)


def un_nb(s):
    return _un(f"file://{DISK}/n", s)


def un_folder(s):
    return _un(f"file://{DISK}/f", s)


def un_meta(conv, m):
    if m is None:
        return None
    try:
        m = conv.unstructure(m)
    except Exception:
        pass
    if m == {}:
        return 0
    if isinstance(m, dict) and isinstance(m.get("k"), int) and m == meta_obj(m["k"]):
        return m["k"]
    return "meta:" + json.dumps(m, sort_keys=True, default=repr)


def un_exec(e):
    if e is None:
        return None
    k = getattr(e, "execution_order", None)
    if isinstance(k, int) and getattr(e, "success", 0) == exec_obj(k).get("success"):
        return k
    return "exec:" + repr(e)


def ensure_disk(pool):
    os.makedirs(DISK, exist_ok=True)
    for k in pool:
        p = os.path.join(DISK, f"d{k}.txt")
        want = DISK_MARK + str(k)
        if not os.path.exists(p) or open(p, encoding="utf-8").read() != want:
            with open(p, "w", encoding="utf-8") as f:
                f.write(want)


# ---------------- pools of a case ----------------
def pools(case):
    docs, nbs, folders = set(), set(), set()
    for f in case.get("fs", []):
        folders.add(f[0])
    for o in case["ops"]:
        k = o["o"]
        if k == "open":
            docs.add(o["it"][0])
        elif k in ("change", "close"):
            docs.add(o["u"])
        elif k == "nbopen":
            nbs.add(o["n"])
            docs.update(c[1] for c in o["nb"][3])
            docs.update(it[0] for it in o["items"])
        elif k == "nbchange":
            nbs.add(o["n"])
            cc = o.get("cc")
            if cc:
                st = cc.get("st")
                if st:
                    docs.update(c[1] for c in st[2])
                    docs.update(it[0] for it in st[3])
                    docs.update(st[4])
                docs.update(c[1] for c in cc.get("data", []))
                docs.update(e[0] for e in cc.get("text", []))
        elif k == "nbclose":
            nbs.add(o["n"])
            docs.update(o["cs"])
        elif k == "folders":
            folders.update(f[0] for f in o["add"])
            folders.update(o["rem"])
    # every pool also holds one uri the history never mentions
    for s in (docs, nbs, folders):
        s.add(max(s, default=0) + 1)
    return sorted(docs), sorted(nbs), sorted(folders)


# ---------------- wire form of the operations ----------------
def _text(s):
    return "".join(map(chr, s))


def _opt_list(rng, key, d, items):
    """a member the code reads as `x or []`: empty may be sent as [], null or left out"""
    if items:
        d[key] = items
    else:
        r = rng.random()
        if r < 0.34:
            d[key] = []
        elif r < 0.67:
            d[key] = None


def _change_json(c):
    if "r" in c:
        sl, sc, el, ec = c["r"]
        return {"range": {"start": {"line": sl, "character": sc}, "end": {"line": el, "character": ec}},
                "text": _text(c["t"])}
    return {"text": _text(c["t"])}


def _item_json(it):
    u, lang, v, text = it
    return {"uri": doc_uri(u), "languageId": lang_name(lang), "version": v, "text": _text(text)}


def _cell_json(rng, c):
    kind, d, meta, ex = c
    out = {"kind": kind, "document": doc_uri(d)}
    if meta is not None:
        out["metadata"] = meta_obj(meta)
    elif rng.random() < 0.5:
        out["metadata"] = None
    if ex is not None:
        out["executionSummary"] = exec_obj(ex)
    return out


def op_json(o, rng):
    k = o["o"]
    if k == "open":
        return "textDocument/didOpen", {"textDocument": _item_json(o["it"])}
    if k == "change":
        return "textDocument/didChange", {"textDocument": {"uri": doc_uri(o["u"]), "version": o["v"]},
                                          "contentChanges": [_change_json(c) for c in o["cs"]]}
    if k == "close":
        return "textDocument/didClose", {"textDocument": {"uri": doc_uri(o["u"])}}
    if k == "nbopen":
        v, meta, ty, cells = o["nb"]
        nb = {"uri": nb_uri(o["n"]), "notebookType": f"nbtype{ty}", "version": v,
              "cells": [_cell_json(rng, c) for c in cells]}
        if meta is not None:
            nb["metadata"] = meta_obj(meta)
        return "notebookDocument/didOpen", {"notebookDocument": nb,
                                            "cellTextDocuments": [_item_json(it) for it in o["items"]]}
    if k == "nbchange":
        ch = {}
        if o["meta"] is not None:
            ch["metadata"] = meta_obj(o["meta"])
        elif rng.random() < 0.5:
            ch["metadata"] = None
        cc = o.get("cc")
        if cc is not None:
            cells = {}
            st = cc.get("st")
            if st is not None:
                start, dele, new, items, closes = st
                arr = {"start": start, "deleteCount": dele}
                _opt_list(rng, "cells", arr, [_cell_json(rng, c) for c in new])
                sj = {"array": arr}
                _opt_list(rng, "didOpen", sj, [_item_json(it) for it in items])
                _opt_list(rng, "didClose", sj, [{"uri": doc_uri(u)} for u in closes])
                cells["structure"] = sj
            _opt_list(rng, "data", cells, [_cell_json(rng, c) for c in cc.get("data", [])])
            _opt_list(rng, "textContent", cells,
                      [{"document": {"uri": doc_uri(u), "version": v}, "changes": [_change_json(c) for c in cs]}
                       for u, v, cs in cc.get("text", [])])
            ch["cells"] = cells
        return "notebookDocument/didChange", {"notebookDocument": {"uri": nb_uri(o["n"]), "version": o["v"]},
                                              "change": ch}
    if k == "nbclose":
        return "notebookDocument/didClose", {"notebookDocument": {"uri": nb_uri(o["n"])},
                                             "cellTextDocuments": [{"uri": doc_uri(u)} for u in o["cs"]]}
    if k == "folders":
        return "workspace/didChangeWorkspaceFolders", {"event": {
            "added": [{"uri": folder_uri(u), "name": f"name{nm}"} for u, nm in o["add"]],
            "removed": [{"uri": folder_uri(u), "name": "whatever"} for u in o["rem"]]}}
    raise ValueError(k)


def messages(case):
    rng = random.Random(case.get("style", 0))
    out = []
    for o in case["ops"]:
        m, p = op_json(o, rng)
        out.append({"jsonrpc": "2.0", "method": m, "params": p})
    return out


def init_msgs(case):
    return [{"jsonrpc": "2.0", "id": 1, "method": "initialize",
             "params": {"processId": None, "rootUri": None,
                        "capabilities": {"general": {"positionEncodings": [ENC_NAME[case["e"]]]}},
                        "workspaceFolders": [{"uri": folder_uri(u), "name": f"name{nm}"} for u, nm in case.get("fs", [])]}},
            {"jsonrpc": "2.0", "method": "initialized", "params": {}}]


# ---------------- snapshot of the public workspace API ----------------
def _canon_nb(conv, nb):
    return [nb.version, un_meta(conv, nb.metadata), _un("nbtype", nb.notebook_type),
            [[getattr(c.kind, "value", c.kind), un_doc(c.document), un_meta(conv, c.metadata), un_exec(c.execution_summary)]
             for c in nb.cells]]


def _canon_doc(d):
    return [[ord(x) for x in d.source], d.version, _un("lang", d.language_id)]


def snapshot(server, errs, docpool, nbpool):
    ws = server.workspace
    conv = server.protocol.fm.converter      # (public: the converter the server was built with)
    snap = {}
    snap["docs"] = sorted([un_doc(u)] + _canon_doc(d) for u, d in ws.text_documents.items())
    snap["nbs"] = sorted([un_nb(u), _canon_nb(conv, nb)] for u, nb in ws.notebook_documents.items())
    snap["folders"] = sorted([un_folder(u), _un("name", f.name)] + ([] if f.uri == u else ["uri-mismatch"])
                             for u, f in ws.folders.items())
    snap["errs"] = errs
    get = []
    for k in docpool:
        d = ws.get_text_document(doc_uri(k))
        src = d.source
        if src == DISK_MARK + str(k) and d.version is None and d.language_id is None:
            get.append([k, "disk"])
        else:
            get.append([k] + _canon_doc(d))
    snap["get"] = get
    cell = []
    for k in docpool:
        nb = ws.get_notebook_document(cell_uri=doc_uri(k))
        cell.append([k, None] if nb is None else [k, un_nb(nb.uri), _canon_nb(conv, nb)])
    snap["cell"] = cell
    bynb, both = [], []
    for n in nbpool:
        nb = ws.get_notebook_document(notebook_uri=nb_uri(n))
        bynb.append([n, None if nb is None else _canon_nb(conv, nb)])
        for k in docpool:
            nb = ws.get_notebook_document(notebook_uri=nb_uri(n), cell_uri=doc_uri(k))
            both.append([n, k, None if nb is None else _canon_nb(conv, nb)])
    snap["bynb"] = bynb
    snap["both"] = both
    snap["neither"] = None if ws.get_notebook_document() is None else "not-none"
    return snap


# ---------------- driving the real server ----------------
class _Writer:
    def write(self, data):
        pass
    def close(self):
        pass


def _frame(obj):
    body = json.dumps(obj).encode("utf-8")
    return b"Content-Length: %d\r\n\r\n" % len(body) + body


def _mutate_open_params(params):
    """the client-side object of a notebookDocument/didOpen is changed after the built-in handler
    has stored the notebook: the workspace must not see any of it"""
    nb = params.notebook_document
    try:
        nb.version = nb.version + 1000
        nb.metadata = {"mutated": True}
        nb.notebook_type = "mutated"
        for c in nb.cells:
            c.kind = 1 if getattr(c.kind, "value", c.kind) == 2 else 2
            c.metadata = {"mutated": True}
            c.execution_summary = None
            c.document = c.document + "-mutated"
        if isinstance(nb.cells, list):
            nb.cells.append(nb.cells[0]) if nb.cells else None
    except Exception:
        pass


class _Session:
    """one real LanguageServer; snapshots are taken by user handlers (which pygls runs right after
    the built-in handler) or by the error hook (when the built-in handler raised)"""
    def __init__(self, e, kind):
        from lsprotocol import types
        from pygls.lsp.server import LanguageServer
        k = {0: types.TextDocumentSyncKind.None_, 1: types.TextDocumentSyncKind.Full,
             2: types.TextDocumentSyncKind.Incremental}[kind]
        sess = self

        class Server(LanguageServer):
            def report_server_error(self, error, source):
                sess.errs += 1
                sess.snap()

        self.server = Server("c10", "1", text_document_sync_kind=k)
        self.server.protocol.set_writer(_Writer())
        self.errs = 0
        self.out = None
        self.docpool = self.nbpool = ()
        s = self.server

        def plain(ls, params):
            sess.snap()

        def nbopen(ls, params):
            _mutate_open_params(params)
            sess.snap()

        for m in (types.INITIALIZED, types.TEXT_DOCUMENT_DID_OPEN, types.TEXT_DOCUMENT_DID_CHANGE,
                  types.TEXT_DOCUMENT_DID_CLOSE, types.NOTEBOOK_DOCUMENT_DID_CHANGE,
                  types.NOTEBOOK_DOCUMENT_DID_CLOSE, types.WORKSPACE_DID_CHANGE_WORKSPACE_FOLDERS):
            s.feature(m)(plain)
        s.feature(types.NOTEBOOK_DOCUMENT_DID_OPEN)(nbopen)

    def snap(self):
        if self.out is not None:
            try:
                self.out.append(snapshot(self.server, self.errs, self.docpool, self.nbpool))
            except Exception as ex:
                self.out.append(["raise", type(ex).__name__])

    def begin(self, case):
        self.docpool, self.nbpool, _ = pools(case)
        self.errs = 0
        self.out = []

    def deliver(self, obj):
        """what the read loops do with one frame body"""
        p = self.server.protocol
        msg = json.loads(json.dumps(obj).encode("utf-8"), object_hook=p.structure_message)
        p.handle_message(msg)


_SESSIONS = {}


def _run_frames(case):
    key = (case["e"], case["kind"])
    if key not in _SESSIONS:
        _SESSIONS[key] = _Session(*key)
    s = _SESSIONS[key]
    s.begin(case)
    for m in init_msgs(case):             # a second `initialize` builds a fresh Workspace
        s.deliver(m)
    assert s.server.workspace.position_encoding == ENC_NAME[case["e"]]
    for m in messages(case):
        n = len(s.out)
        try:
            s.deliver(m)
        except Exception as ex:
            s.out.append(["raise", type(ex).__name__])
        if len(s.out) == n:                # neither the user handler nor the error hook ran
            s.out.append(["no-snapshot"])
        elif len(s.out) > n + 1:           # both ran
            s.out[n:] = [["snapshots", len(s.out) - n] + s.out[-1:]]
    out, s.out = s.out, None
    return out


def _run_loop(case, use_async):
    import asyncio, threading
    from pygls.io_ import run, run_async
    s = _Session(case["e"], case["kind"])
    s.begin(case)
    data = b"".join(_frame(m) for m in init_msgs(case) + messages(case))
    errs = []
    stop = threading.Event()
    if use_async:
        loop = asyncio.new_event_loop()
        try:
            async def main():
                r = asyncio.StreamReader()
                r.feed_data(data)
                r.feed_eof()
                await asyncio.wait_for(run_async(stop, r, s.server.protocol,
                                                 error_handler=lambda e, t: errs.append(e)), 60)
            loop.run_until_complete(main())
        finally:
            loop.close()
    else:
        run(stop, io.BytesIO(data), s.server.protocol, error_handler=lambda e, t: errs.append(e))
    out = s.out
    if errs:
        out.append(["raise", type(errs[0]).__name__])
    return out


def _run_chunk(cases):
    import logging
    logging.disable(logging.CRITICAL)
    out = []
    for c in cases:
        try:
            ensure_disk(pools(c)[0])
            via = c.get("via", "frames")
            out.append(_run_frames(c) if via == "frames" else _run_loop(c, via == "async"))
        except Exception as ex:
            out.append(["raise", type(ex).__name__, str(ex)[:200]])
    return out


# ---------------- encoding for the model driver ----------------
def enc_str(s):
    return f"{len(s)} " + " ".join(map(str, s)) if s else "0"


def enc_list(xs, f):
    return " ".join([str(len(xs))] + [f(x) for x in xs])


def enc_opt(x, f=str):
    return "0" if x is None else "1 " + f(x)


def enc_change(c):
    if "r" in c:
        return "1 " + " ".join(map(str, c["r"])) + " " + enc_str(c["t"])
    return "0 " + enc_str(c["t"])


def enc_item(it):
    u, lang, v, text = it
    return f"{u} {lang} {v} {enc_str(text)}"


def enc_cell(c):
    kind, d, meta, ex = c
    return f"{kind} {d} {enc_opt(meta)} {enc_opt(ex)}"


def enc_entry(e):
    u, v, cs = e
    return f"{u} {v} {enc_list(cs, enc_change)}"


def enc_cc(cc):
    st = cc.get("st")
    sts = "0" if st is None else (f"1 {st[0]} {st[1]} {enc_list(st[2], enc_cell)} {enc_list(st[3], enc_item)} "
                                  f"{enc_list(st[4], str)}")
    return f"{sts} {enc_list(cc.get('data', []), enc_cell)} {enc_list(cc.get('text', []), enc_entry)}"


def enc_op(o):
    k = o["o"]
    if k == "open":
        return "0 " + enc_item(o["it"])
    if k == "change":
        return f"1 {o['u']} {o['v']} {enc_list(o['cs'], enc_change)}"
    if k == "close":
        return f"2 {o['u']}"
    if k == "nbopen":
        v, meta, ty, cells = o["nb"]
        return f"3 {o['n']} {v} {enc_opt(meta)} {ty} {enc_list(cells, enc_cell)} {enc_list(o['items'], enc_item)}"
    if k == "nbchange":
        return f"4 {o['n']} {o['v']} {enc_opt(o['meta'])} {enc_opt(o.get('cc'), enc_cc)}"
    if k == "nbclose":
        return f"5 {o['n']} {enc_list(o['cs'], str)}"
    if k == "folders":
        return f"6 {enc_list(o['add'], lambda f: f'{f[0]} {f[1]}')} {enc_list(o['rem'], str)}"
    raise ValueError(k)


class _Tok:
    def __init__(self, toks):
        self.it = iter(toks)
    def int(self):
        return int(next(self.it))
    def list(self, f):
        return [f() for _ in range(self.int())]
    def opt(self, f):
        return f() if self.int() else None
    def doc(self):
        src = self.list(self.int)
        v = self.opt(self.int)
        return [src, v, self.int()]
    def cell(self):
        k, d = self.int(), self.int()
        m = self.opt(self.int)
        return [k, d, m, self.opt(self.int)]
    def nb(self):
        v = self.int()
        m = self.opt(self.int)
        ty = self.int()
        return [v, m, ty, self.list(self.cell)]
    def snap(self, docpool, nbpool):
        s = {}
        s["docs"] = sorted(self.list(lambda: [self.int()] + self.doc()))
        s["nbs"] = sorted(self.list(lambda: [self.int(), self.nb()]))
        s["folders"] = sorted(self.list(lambda: [self.int(), self.int()]))
        s["errs"] = self.int()
        s["get"] = [[k] + self.doc() if self.int() else [k, "disk"] for k in docpool]
        s["cell"] = [[k, self.int(), self.nb()] if self.int() else [k, None] for k in docpool]
        s["bynb"] = [[n, self.opt(self.nb)] for n in nbpool]
        s["both"] = [[n, k, self.opt(self.nb)] for n in nbpool for k in docpool]
        s["neither"] = None          # get_notebook_document() without arguments (C10_public_api)
        return s


# ---------------- text editing of the simulated client ----------------
def width(e, c):
    if e == 32:
        return 1
    if e == 16:
        return 2 if c > 0xFFFF else 1
    return 1 if c < 0x80 else 2 if c < 0x800 else 3 if c < 0x10000 else 4


def boundaries(text):
    return [i for i in range(len(text) + 1)
            if not (0 < i < len(text) and text[i - 1] == 13 and text[i] == 10)]


def pos_of(e, text, off):
    line, start, i = 0, 0, 0
    while i < off:
        c = text[i]
        if c == 13 and i + 1 < len(text) and text[i + 1] == 10:
            i += 2; line += 1; start = i
        elif c in (10, 13):
            i += 1; line += 1; start = i
        else:
            i += 1
    return line, sum(width(e, c) for c in text[start:off])


def rand_text(rng, n):
    out = []
    while len(out) < n:
        r = rng.random()
        if r < 0.62:
            out.append(rng.choice([0x61, 0x62, 0x63, 0x20, 0x7A]))
        elif r < 0.70:
            out.append(0xE9)
        elif r < 0.76:
            out.append(0x1F60B)
        elif r < 0.90:
            out.append(10)
        elif r < 0.95:
            out.append(13)
        else:
            out.extend([13, 10])
    return out


class Sim:
    """the client's own picture of the workspace: used to produce (mostly) well-formed histories"""
    def __init__(self, rng, e, kind, ndocs, nnbs, noise):
        self.rng, self.e, self.kind, self.noise = rng, e, kind, noise
        self.docpool = list(range(1, ndocs + 1))
        self.nbpool = list(range(1, nnbs + 1))
        self.folderpool = [1, 2, 3]
        self.docs = {}          # open uri -> text
        self.nbs = {}           # open notebook -> list of cell uris
        self.ver = 0

    def v(self):
        self.ver += 1
        return self.ver if self.rng.random() < 0.9 else self.rng.randint(-5, 10 ** 6)

    def edit(self, u):
        """one change for the open document u (valid for the text the client believes it has)"""
        rng, text = self.rng, self.docs[u]
        if rng.random() < (0.12 if self.kind == 2 else 0.5):
            new = rand_text(rng, rng.randint(0, 6))
            c = {"t": new}
            newtext = new
        else:
            bs = boundaries(text)
            a = rng.choice(bs)
            b = a if rng.random() < 0.4 else rng.choice([o for o in bs if o >= a][:5])
            new = rand_text(rng, rng.choice([0, 1, 1, 2, 4]))
            c = {"r": list(pos_of(self.e, text, a) + pos_of(self.e, text, b)), "t": new}
            newtext = text[:a] + new + text[b:]
        if self.kind == 2:
            self.docs[u] = newtext
        elif self.kind == 1:
            self.docs[u] = list(c["t"])
        return c

    def edits(self, u):
        n = self.rng.choice([0, 1, 1, 1, 2, 3])
        return [self.edit(u) for _ in range(n)]

    def bogus_change(self):
        return {"r": [0, 0, 0, self.rng.randint(0, 2)], "t": rand_text(self.rng, 1)} if self.rng.random() < 0.5 \
            else {"t": rand_text(self.rng, 2)}

    def item(self, u):
        text = rand_text(self.rng, self.rng.choice([0, 1, 3, 6, 12]))
        self.docs[u] = list(text)
        return [u, self.rng.randint(0, 3), self.v(), text]

    def cell(self, u):
        rng = self.rng
        return [rng.choice([1, 2]), u, rng.choice([None, 0, rng.randint(1, 9)]), rng.choice([None, rng.randint(0, 9)])]

    def closed(self):
        used = {c for cs in self.nbs.values() for c in cs}
        return [u for u in self.docpool if u not in self.docs and u not in used]

    def op(self):
        rng = self.rng
        if rng.random() < self.noise:
            return self.noisy()
        plain = [u for u in self.docs if not any(u in cs for cs in self.nbs.values())]
        cells = [u for u in self.docs if u not in plain]
        r = rng.random()
        if r < 0.16:
            free = self.closed()
            if free:
                return {"o": "open", "it": self.item(rng.choice(free))}
        if r < 0.36 and self.docs:
            u = rng.choice(plain or cells)
            return {"o": "change", "u": u, "v": self.v(), "cs": self.edits(u)}
        if r < 0.44 and self.docs:
            u = rng.choice(plain) if plain and rng.random() < 0.85 else rng.choice(list(self.docs))
            del self.docs[u]
            return {"o": "close", "u": u}
        if r < 0.56:
            cand = [n for n in self.nbpool if n not in self.nbs]
            free = self.closed()
            if cand:
                n = rng.choice(cand)
                rng.shuffle(free)
                cs = free[:rng.choice([0, 1, 2, 2, 3])]
                self.nbs[n] = list(cs)
                cells_ = [self.cell(u) for u in cs]
                items = [self.item(u) for u in cs]
                if rng.random() < 0.3:
                    rng.shuffle(items)
                return {"o": "nbopen", "n": n, "nb": [self.v(), rng.choice([None, 0, rng.randint(1, 9)]), rng.randint(0, 2), cells_],
                        "items": items}
        if r < 0.84 and self.nbs:
            return self.nbchange(rng.choice(list(self.nbs)))
        if r < 0.90 and self.nbs:
            n = rng.choice(list(self.nbs))
            cs = list(self.nbs.pop(n))
            if rng.random() < 0.15 and cs:
                cs = cs[1:]                           # a cell document that stays open
            for u in cs:
                self.docs.pop(u, None)
            return {"o": "nbclose", "n": n, "cs": cs}
        rem = [u for u in self.folderpool if rng.random() < 0.3]
        add = [[u, rng.randint(0, 5)] for u in self.folderpool if u not in rem and rng.random() < 0.4]
        if rng.random() < 0.3 and add:
            add.append([add[0][0], rng.randint(0, 5)])  # the same folder twice: the last name counts
        rng.shuffle(add)
        return {"o": "folders", "add": add, "rem": rem}

    def nbchange(self, n):
        rng = self.rng
        o = {"o": "nbchange", "n": n, "v": self.v(), "meta": rng.choice([None, None, 0, 0, rng.randint(1, 9)]), "cc": None}
        if rng.random() < 0.12:
            return o
        cc = {"st": None, "data": [], "text": []}
        cells = self.nbs[n]
        data_targets = list(cells)
        if rng.random() < 0.6:
            start = rng.randint(0, len(cells))
            dele = rng.randint(0, len(cells) - start) if rng.random() < 0.8 else rng.randint(0, 2)
            gone = cells[start:start + dele]
            free = self.closed()
            rng.shuffle(free)
            new = free[:rng.choice([0, 1, 1, 2])]
            closes = [u for u in gone if rng.random() < 0.9]
            for u in closes:
                self.docs.pop(u, None)
            self.nbs[n] = cells[:start] + new + cells[start + dele:]
            items = [self.item(u) for u in new]
            cc["st"] = [start, dele, [self.cell(u) for u in new], items, closes]
        for u in data_targets:
            if rng.random() < 0.35:
                cc["data"].append(self.cell(u))
        if rng.random() < 0.1:
            cc["data"].append(self.cell(rng.choice(self.docpool + [99])))   # not in the notebook, or not new
            if cc["st"] and cc["data"][-1][1] in [c[1] for c in cc["st"][2]]:
                cc["data"].pop()
        for u in self.nbs[n] + [u for u in self.docs if rng.random() < 0.1]:
            if u in self.docs and rng.random() < 0.4:
                v = self.v()
                cc["text"].append([u, v, self.edits(u)])
        o["cc"] = cc
        return o

    def noisy(self):
        """any operation on any uri: mostly ill-formed (the property is silent; model comparison only)"""
        rng = self.rng
        u = rng.choice(self.docpool)
        n = rng.choice(self.nbpool)
        r = rng.random()
        if r < 0.15:
            it = self.item(u)
            return {"o": "open", "it": it}
        if r < 0.3:
            return {"o": "change", "u": u, "v": self.v(), "cs": [self.bogus_change() for _ in range(rng.randint(0, 2))]}
        if r < 0.4:
            self.docs.pop(u, None)
            return {"o": "close", "u": u}
        if r < 0.5:
            cs = [rng.choice(self.docpool) for _ in range(rng.randint(0, 3))]
            items = [self.item(c) for c in cs if rng.random() < 0.8]
            self.nbs[n] = list(dict.fromkeys(cs))
            return {"o": "nbopen", "n": n, "nb": [self.v(), rng.choice([None, 0, 3]), 0, [self.cell(c) for c in cs]], "items": items}
        if r < 0.8:
            cc = None
            if rng.random() < 0.85:
                new = [rng.choice(self.docpool) for _ in range(rng.randint(0, 2))]
                st = None
                if rng.random() < 0.7:
                    st = [rng.randint(0, 3), rng.randint(0, 3), [self.cell(c) for c in new],
                          [self.item(c) for c in new if rng.random() < 0.8],
                          [rng.choice(self.docpool) for _ in range(rng.randint(0, 2))]]
                    for c in st[4]:
                        self.docs.pop(c, None)
                cc = {"st": st,
                      "data": [self.cell(rng.choice(new + self.docpool)) for _ in range(rng.randint(0, 2))],
                      "text": [[rng.choice(self.docpool), self.v(), [self.bogus_change() for _ in range(rng.randint(0, 2))]]
                               for _ in range(rng.randint(0, 2))]}
            self.nbs.pop(n, None)          # the client's picture is no longer reliable for n
            return {"o": "nbchange", "n": n, "v": self.v(), "meta": rng.choice([None, 0, 4]), "cc": cc}
        if r < 0.88:
            self.nbs.pop(n, None)
            cs = [rng.choice(self.docpool) for _ in range(rng.randint(0, 2))]
            for c in cs:
                self.docs.pop(c, None)
            return {"o": "nbclose", "n": n, "cs": cs}
        add = [[rng.choice(self.folderpool), rng.randint(0, 5)] for _ in range(rng.randint(0, 3))]
        rem = [rng.choice(self.folderpool) for _ in range(rng.randint(0, 3))]
        return {"o": "folders", "add": add, "rem": rem}


def random_history(rng, nops, noise, via="frames"):
    e = rng.choice([16, 16, 16, 8, 32])
    kind = rng.choice([2, 2, 2, 2, 1, 0])
    sim = Sim(rng, e, kind, rng.choice([3, 4, 6]), rng.choice([1, 2]), noise)
    fs = [[u, rng.randint(0, 5)] for u in (1, 2, 3) if rng.random() < 0.3]
    ops = [sim.op() for _ in range(nops)]
    return {"k": "hist", "e": e, "kind": kind, "fs": fs, "ops": ops, "via": via, "style": rng.randint(0, 10 ** 6)}


# the nine-operation alphabet of the bounded-exhaustive part (document uris 1, 2, 3; notebook 1)
def alphabet(v):
    return [
        {"o": "open", "it": [1, 1, v, [97, 98]]},
        {"o": "change", "u": 1, "v": v, "cs": [{"r": [0, 0, 0, 0], "t": [88]}]},
        {"o": "close", "u": 1},
        {"o": "nbopen", "n": 1, "nb": [v, 2, 0, [[2, 2, None, 1]]], "items": [[2, 2, v, [99]]]},
        {"o": "nbchange", "n": 1, "v": v, "meta": 0,
         "cc": {"st": [1, 0, [[1, 3, 5, None]], [[3, 3, v, [100]]], []], "data": [[1, 2, 7, 2]],
                "text": [[2, v, [{"r": [0, 0, 0, 0], "t": [89]}]]]}},
        {"o": "nbchange", "n": 1, "v": v, "meta": None,
         "cc": {"st": [0, 1, [], [], [2]], "data": [[2, 3, 0, None]], "text": [[3, v, [{"t": [90]}]]]}},
        {"o": "nbclose", "n": 1, "cs": [2, 3]},
        {"o": "folders", "add": [[1, v]], "rem": [2]},
        {"o": "open", "it": [2, 4, v, [101]]},
    ]


def exhaustive(maxlen):
    out = []
    for n in range(1, maxlen + 1):
        for idx in itertools.product(range(9), repeat=n):
            ops = [alphabet(i + 1)[j] for i, j in enumerate(idx)]
            out.append({"k": "hist", "e": 16, "kind": 2, "fs": [[2, 9]], "ops": ops, "via": "frames",
                        "style": sum((i + 1) * j for i, j in enumerate(idx)), "exh": True})
    return out


# ---------------- the property ----------------
class C10(core.Property):
    id = "C10"
    modules = ["Proofs.WorkspaceProofs", "Props.C10"]
    obligations = ["op_refines_did_open", "op_refines_did_change", "op_refines_did_close", "op_refines_nb_open",
                   "op_refines_nb_change", "op_refines_nb_close", "op_refines_folders", "init_refines", "op_refines",
                   "fold_refines", "wf_prefix", "data_splice_commute", "folders_interleaved", "R_text_entries", "text_entries_frame",
                   "index_consistent", "open_targets_no_error", "change_never_opens", "closed_absent", "get_after_close_is_disk",
                   "closed_cell_absent", "did_change_selects", "session_is_doc_run",
                   "C10", "C10_prefix", "C10_public_api", "C10_closed", "C10_not_open", "C10_index", "C10_text_is_C04",
                   "C10_order_open_cell_data", "C10_order_open_folders", "C10_unopened",
                   "C10_empty_metadata_replaces", "C10_nonvacuous"]
    coq_targets = ["Props/C10.vo", "Extract/ExtractC10.vo"]
    rule = ("a case is one history of synchronisation notifications into one server, observed after every "
            "message; non-trivial = the history touches at least 2 URIs and contains a close (document, cell or "
            "notebook) or a notebook structure splice")
    trusted_base = ["Coq 8.16.1 kernel incl. vm_compute (Examples)",
                    "extraction with ExtrOcamlBasic only + ocaml/c10_driver.ml + conv_io/conv_n/conv_z",
                    "harness/c10.py (client simulator, wire encoding, snapshot canonicalisation)",
                    "modelled not verified: dict get/set/pop, list slicing, copy.deepcopy, zip_longest, "
                    "cattrs structuring of the notification params (exercised on every case); the text of one "
                    "document is Model/Doc.v (C04)"]
    assumptions = ["URIs are non-empty strings; uinteger start/deleteCount",
                   "the text of a document after a change is what Model/Doc.v says (C04)",
                   "object identity (the deep copy on notebook open) is decided by the mutation probe of the "
                   "correspondence run only"]

    def generate(self, chk):
        cases = []
        cdir = os.path.join(core.ROOT, "corpus", "C10")
        if os.path.isdir(cdir):
            for f in sorted(os.listdir(cdir)):
                cases.extend(json.load(open(os.path.join(cdir, f))))
        rng = chk.rng
        cases.extend(exhaustive(3 if chk.quick else 4))
        self.exhaustive = True
        for _ in range(chk.n(600, 2500)):        # well-formed histories
            nops = rng.choice([3, 6, 10, 20, 40]) if chk.quick else rng.choice([5, 10, 20, 40, 80, 200])
            via = rng.choice(["frames"] * 7 + ["async", "async", "sync"])
            cases.append(random_history(rng, nops, 0.0, via))
        for _ in range(chk.n(300, 1500)):        # with ill-formed notifications in between
            nops = rng.choice([2, 4, 8, 16, 30])
            via = rng.choice(["frames"] * 8 + ["async", "sync"])
            cases.append(random_history(rng, nops, rng.choice([0.1, 0.3, 1.0]), via))
        return cases

    def run_impl(self, chk, cases):
        if len(cases) < 3000:
            return _run_chunk(cases)
        from concurrent.futures import ProcessPoolExecutor
        size = max(300, len(cases) // 32)
        chunks = [cases[i:i + size] for i in range(0, len(cases), size)]
        out = []
        with ProcessPoolExecutor(max_workers=4) as ex:
            for r in ex.map(_run_chunk, chunks):
                out.extend(r)
        return out

    def model_input(self, c):
        d, n, f = pools(c)
        return (f"hist {c['e']} {c['kind']} {enc_list(c.get('fs', []), lambda x: f'{x[0]} {x[1]}')} "
                f"{enc_list(d, str)} {enc_list(n, str)} {enc_list(f, str)} {enc_list(c['ops'], enc_op)}")

    def model_output(self, c, toks):
        if toks and toks[0] == "DRIVER-ERROR":
            raise RuntimeError("driver: " + " ".join(toks))
        d, n, _ = pools(c)
        t = _Tok(toks)
        M, S, wf = [], [], True
        for _ in range(t.int()):
            wf = bool(t.int()) and wf
            M.append(t.snap(d, n))
            S.append(t.snap(d, n))
        if not wf:
            return {"M": M, "S": None, "guard": False, "klass": None}
        return {"M": M, "S": S, "guard": True, "klass": None}

    def nontrivial(self, c):
        d, n, f = pools(c)
        touched = (len(d) - 1) + (len(n) - 1) + (len(f) - 1)
        def closes(o):
            if o["o"] in ("close", "nbclose"):
                return True
            cc = o.get("cc") if o["o"] == "nbchange" else None
            return bool(cc and cc.get("st"))
        return touched >= 2 and any(closes(o) for o in c["ops"])

    def shrink(self, c):
        ops = c["ops"]
        if c.get("via", "frames") != "frames":
            d = dict(c); d["via"] = "frames"
            yield d
        for k in range(1, len(ops)):                 # shortest failing prefix
            d = dict(c); d["ops"] = ops[:k]
            yield d
        for i in range(len(ops) - 1):                # drop one earlier operation
            d = dict(c); d["ops"] = ops[:i] + ops[i + 1:]
            yield d
        for i, o in enumerate(ops):                  # simplify a notebook change
            cc = o.get("cc") if o["o"] == "nbchange" else None
            if cc:
                for key, empty in (("text", []), ("data", []), ("st", None)):
                    if cc.get(key):
                        o2 = dict(o); o2["cc"] = dict(cc); o2["cc"][key] = empty
                        d = dict(c); d["ops"] = ops[:i] + [o2] + ops[i + 1:]
                        yield d
        if c.get("fs"):
            d = dict(c); d["fs"] = []
            yield d

    def search(self, chk):
        cases = exhaustive(3)
        res = core.evaluate(self, chk, cases)
        return [r for r in res if r["verdict"] == "violation"][:1]

    def extra_checks(self, chk):
        """thorough tier: the compiled theory of Props/C10 re-checked by the independent checker"""
        self.extra_coverage = {"independent_copy_probe": "every notebookDocument/didOpen of every case: the params "
                               "object is mutated by a user handler before the snapshot",
                               "disk_fallback": "every snapshot reads get_text_document for every uri of the case "
                               "(+1 never mentioned); uris that are not open are backed by files under work/C10/disk"}
        # extraction + driver cross-check: the history of Props/C10.v C10_nonvacuous, whose values the
        # kernel computed by vm_compute, through the extracted binary
        viol = []
        cases = [c for c in json.load(open(os.path.join(core.ROOT, "corpus", "C10", "witnesses.json")))
                 if c.get("note") == "Props/C10.v C10_nonvacuous"]
        m = self.model_output(cases[0], core.run_driver("C10", [self.model_input(cases[0])])[0])
        for which in ("M", "S"):
            s4, s7 = m[which][4], m[which][7]
            got = [s4["nbs"], [d for d in s4["docs"] if d[0] in (1, 11)], s7["docs"], s7["nbs"], s7["folders"],
                   [g for g in s7["get"] if g[0] in (1, 11, 12)], [c for c in s7["cell"] if c[0] == 13], s7["errs"], m["guard"]]
            want = [[[20, [2, 0, 0, [[1, 11, 7, 1], [2, 13, None, None]]]]],
                    [[1, [90, 97, 10, 88, 89], 2, 3], [11, [99, 33], 6, 1]], [[13, [101, 102], 5, 1]], [],
                    [[1, 5], [2, 6]], [[1, "disk"], [11, "disk"], [12, "disk"]], [[13, None]], 0, True]
            if got != want:
                viol.append({"case": cases[0], "impl": got, "S": want, "verdict": "violation",
                             "broken": f"extracted driver ({which}) disagrees with vm_compute (C10_nonvacuous)",
                             "suffix": "no-failing-input-found"})
        self.extra_coverage["driver_sanity"] = "C10_nonvacuous through the extracted binary: " + ("ok" if not viol else "MISMATCH")
        if chk.quick:
            return viol
        self._anchored_coverage(chk)
        r = core.sh("timeout 900 coqchk -silent -o -Q . Pygls Pygls.Props.C10", cwd=core.COQ, timeout=1000)
        out = r.stdout + r.stderr
        ok = r.returncode == 0 and "Axioms: <none>" in " ".join(out.split())
        self.extra_coverage["coqchk"] = "ok, Axioms: <none>" if ok else out[-800:]
        if ok:
            return viol
        return viol + [{"case": None, "impl": None, "S": "coqchk -o Pygls.Props.C10 succeeds with no axioms",
                        "verdict": "violation", "broken": "coqchk", "log": out[-1500:], "suffix": "no-failing-input-found"}]

    def _anchored_coverage(self, chk):
        """which anchored lines (properties.jsonl anchors.mechanism[].where, located by function name so
        that the ranges follow the file) the generated cases of the quick tier execute"""
        try:
            import ast, coverage
            from pygls.workspace import workspace as wmod
            from pygls.protocol import language_server as lmod
            want = {wmod.__file__: {"get_text_document", "get_notebook_document", "put_notebook_document",
                                    "put_text_document", "remove_notebook_document", "remove_text_document",
                                    "remove_folder", "add_folder", "update_notebook_document", "update_text_document"},
                    lmod.__file__: {"lsp_text_document__did_change", "lsp_text_document__did_close",
                                    "lsp_text_document__did_open", "lsp_notebook_document__did_open",
                                    "lsp_notebook_document__did_change", "lsp_notebook_document__did_close",
                                    "lsp_workspace__did_change_workspace_folders"}}
            cov = coverage.Coverage(include=list(want), data_file=None)
            sub = core.Chk(self, "quick", chk.seed)
            cases = self.generate(sub)
            cov.start()
            try:
                _run_chunk(cases)
            finally:
                cov.stop()
            total, missed = 0, []
            for fn, names in want.items():
                ranges = [(n.body[0].lineno, n.end_lineno) for n in ast.walk(ast.parse(open(fn).read()))
                          if isinstance(n, ast.FunctionDef) and n.name in names]
                _, stmts, _, missing, _ = cov.analysis2(fn)
                inr = lambda k: any(a <= k <= b for a, b in ranges)
                total += sum(1 for k in stmts if inr(k))
                missed += [f"{os.path.basename(fn)}:{k}" for k in missing if inr(k)]
            self.extra_coverage.update({"anchored_lines": total, "anchored_lines_executed": total - len(missed),
                                        "anchored_lines_never_executed": missed})
        except Exception as ex:
            chk.notes.append("anchored-line coverage not measured: " + repr(ex))

    def distribution(self, cases):
        d = {}
        for c in cases:
            n = len(c["ops"])
            size = "1-3" if n <= 3 else "4-10" if n <= 10 else "11-40" if n <= 40 else "41+"
            key = f"{'exhaustive' if c.get('exh') else 'random'}/{c.get('via', 'frames')}/ops{size}"
            d[key] = d.get(key, 0) + 1
            for o in c["ops"]:
                k = "op:" + o["o"]
                d[k] = d.get(k, 0) + 1
        return d


PROPERTY = C10


# ---------------------------------------------------------------------------------------------
# Second tie for class Workspace (appended; harness/gen_ast.py, coq/Base/PyMini.v, Proofs/AstWorkspaceEquiv.v):
# the SOURCE TEXT of Workspace.__init__, _create_text_document, add_folder, remove_folder, get_text_document,
# get_notebook_document, put_text_document, remove_text_document, put_notebook_document,
# remove_notebook_document and update_text_document is translated on every run by a fail-closed AST
# translator into a deep embedding, and the kernel re-checks that each method does to the four dictionaries
# exactly what Model/Workspace.v says (KeyError of update_text_document included).  update_notebook_document
# is translated too (round 5, see below).  Imported late
# ("Module::theorem") so that a broken translator tie does not hide the other obligations.
import sys as _sys
_sys.path.insert(0, os.path.dirname(os.path.abspath(__file__)))
import gen_c10 as _gen_c10

C10.obligations = list(C10.obligations) + ["Proofs.AstWorkspaceEquiv::" + n for n in (
    "ast_workspace_equiv", "ast_workspace_init_equiv", "ast_workspace_example")]
# update_notebook_document (round 5): its aliases are paths into self; Proofs/AstNotebookEquiv.v proves the
# workspace it leaves and whether KeyError escaped to be Model/Workspace.v's, partial effects included
C10.obligations += ["Proofs.AstNotebookEquiv::" + n for n in (
    "ast_update_notebook_document_equiv", "ast_update_notebook_example")]
C10.coq_targets = list(C10.coq_targets) + ["Proofs/AstWorkspaceEquiv.vo", "Proofs/AstNotebookEquiv.vo"]
C10.trusted_base = list(C10.trusted_base) + [
    "translator tie: harness/gen_ast.py (Python ast -> PyMini, fail-closed) and the PyMini semantics "
    "coq/Base/PyMini.v (hand-written meaning of the Python subset: dict get / pop / item assignment / del, "
    "for over a list, TextDocument(...) as the record of its arguments, copy.deepcopy as the identity on values)"]
_prev_regenerate = getattr(C10, "regenerate", None)


def _regenerate(self, chk):
    try:
        if _prev_regenerate is not None:
            _prev_regenerate(self, chk)
    finally:
        core.coq_make(["Props/C10.vo", "Extract/ExtractC10.vo"])     # the differential side first
        with core._Lock("coq"):                                      # coq/Gen is shared
            try:
                _gen_c10.main()
            finally:
                core._coq_make(["Proofs/AstWorkspaceEquiv.vo", "Proofs/AstNotebookEquiv.vo"])


C10.regenerate = _regenerate

# Link theorem Workspace.v <-> Dispatch.v (coq/Proofs/LinkWorkspaceDispatch.v)
C10.obligations = list(C10.obligations) + ["Proofs.LinkWorkspaceDispatch::" + n for n in (
    "link_workspace_dispatch", "link_reference", "link_step", "link_needs_sync_kind")]
C10.coq_targets = list(C10.coq_targets) + ["Proofs/LinkWorkspaceDispatch.vo"]
