"""Shared machinery of every check: build, proof obligations, model driver, verdict, evidence.

A property module (harness/cXX.py) defines a subclass of `Property`; `run_check` does the
pipeline of DESIGN.md section 1.1 and applies the verdict rules of section 1.2.
"""
import hashlib, json, os, random, re, subprocess, sys, time, traceback

sys.path.insert(0, os.path.dirname(os.path.abspath(__file__)))
import priv          # the one module that reaches private parts of pygls (names resolved fail-closed)

# what a failing piece of a check may raise: priv.Unresolvable is a BaseException on purpose (the
# harnesses' `except Exception` around library calls must not turn it into an observation)
FAILURES = (Exception, priv.Unresolvable)

ROOT = os.path.dirname(os.path.dirname(os.path.abspath(__file__)))
REPO = os.environ.get("VERIF_REPO", "/repo")
COQ = os.path.join(ROOT, "coq")
PY = "/venv/bin/python"

LINT_PAT = re.compile(
    r"\b(Admitted|admit|Axiom|Axioms|Parameter|Parameters|Conjecture|Admit Obligations|"
    r"Unset Guard Checking|Unset Positivity Checking|Unset Universe Checking|bypass_check|"
    r"type-in-type|impredicative-set|native_compute)\b")


def sh(cmd, timeout=1800, cwd=None, env=None, input=None):
    e = dict(os.environ)
    if env:
        e.update(env)
    return subprocess.run(cmd, shell=isinstance(cmd, str), cwd=cwd, env=e, input=input,
                          capture_output=True, text=True, timeout=timeout)


def strip_coq_comments(text):
    """Comments (nested) and the contents of string literals removed: a keyword inside a string
    (e.g. the Python class name "Parameter") is not a declaration."""
    out, depth, i, instr = [], 0, 0, False
    while i < len(text):
        ch = text[i]
        if instr:
            if ch == '"':
                if text.startswith('""', i):      # escaped quote inside a Coq string
                    i += 2; continue
                instr = False
                if depth == 0:
                    out.append('"')
            elif ch == "\n" and depth == 0:
                out.append("\n")                 # keep line numbers
            i += 1
        elif text.startswith("(*", i):
            depth += 1; i += 2
        elif text.startswith("*)", i) and depth > 0:
            depth -= 1; i += 2
        elif ch == '"':
            instr = True
            if depth == 0:
                out.append('"')
            i += 1
        else:
            if depth == 0:
                out.append(ch)
            i += 1
    return "".join(out)


def lint():
    """No Admitted/admit/Axiom/Parameter/... anywhere in the development (comments ignored)."""
    bad = []
    for d, _, fs in os.walk(COQ):
        for f in fs:
            if f.endswith(".v"):
                p = os.path.join(d, f)
                for n, line in enumerate(strip_coq_comments(open(p).read()).split("\n"), 1):
                    if LINT_PAT.search(line):
                        bad.append(f"{os.path.relpath(p, ROOT)}:{n}: {line.strip()}")
    return bad


def coq_files():
    fs = []
    for sub in ("Base", "Model", "Spec", "Proofs", "Props", "Gen", "Extract"):
        for d, _, names in os.walk(os.path.join(COQ, sub)):
            for f in sorted(names):
                if f.endswith(".v"):
                    fs.append(os.path.relpath(os.path.join(d, f), COQ))
    return sorted(fs)


class _Lock:
    """Serialises builds in the shared coq/ and ocaml/ directories across concurrent checks."""
    def __init__(self, name):
        os.makedirs(os.path.join(ROOT, "work"), exist_ok=True)
        self.path = os.path.join(ROOT, "work", f".{name}.lock")
    def __enter__(self):
        import fcntl
        self.f = open(self.path, "w")
        fcntl.flock(self.f, fcntl.LOCK_EX)
    def __exit__(self, *a):
        import fcntl
        fcntl.flock(self.f, fcntl.LOCK_UN)
        self.f.close()


def coq_make(targets=None, jobs=16, timeout=3000):
    with _Lock("coq"):
        return _coq_make(targets, jobs, timeout)


def _coq_make(targets=None, jobs=16, timeout=3000):
    """Full .vo build through coq_makefile (never -vos/-vok)."""
    os.makedirs(os.path.join(ROOT, "ocaml", "gen"), exist_ok=True)
    proj = "-Q . Pygls\n" + "\n".join(coq_files()) + "\n"
    pp = os.path.join(COQ, "_CoqProject")
    if not os.path.exists(pp) or open(pp).read() != proj or not os.path.exists(os.path.join(COQ, "Makefile.coq")):
        open(pp, "w").write(proj)
        r = sh("coq_makefile -f _CoqProject -o Makefile.coq", cwd=COQ)
        if r.returncode != 0:
            return False, r.stdout + r.stderr
    tgt = " ".join(targets) if targets else ""
    r = sh(f"timeout {timeout} make -f Makefile.coq -j{jobs} {tgt}", cwd=COQ, timeout=timeout + 60)
    if r.returncode != 0 and targets:
        # a stale dependency file can make a fresh target unknown: regenerate once
        sh("rm -f .Makefile.coq.d", cwd=COQ)
        r = sh(f"timeout {timeout} make -f Makefile.coq -j{jobs} {tgt}", cwd=COQ, timeout=timeout + 60)
    return r.returncode == 0, (r.stdout + r.stderr)[-6000:]


def build_driver(prop):
    sys.path.insert(0, os.path.join(ROOT, "harness"))
    import build_driver as bd
    with _Lock("ocaml_" + prop.lower()):
        return bd.build(prop)


def run_driver(prop, lines, timeout=3600):
    """Feed one case per line to the extracted model; returns one token list per case."""
    exe = os.path.join(ROOT, "bin", f"{prop.lower()}_driver")
    r = subprocess.run([exe], input="\n".join(lines) + "\n", capture_output=True, text=True,
                       timeout=timeout)
    if r.returncode != 0:
        raise RuntimeError(f"model driver failed: {r.stderr[-2000:]}")
    outs = r.stdout.split("\n")
    if outs and outs[-1] == "":
        outs.pop()
    if len(outs) != len(lines):
        raise RuntimeError(f"model driver returned {len(outs)} lines for {len(lines)} cases")
    return [o.split() for o in outs]


def check_obligations(prop, module, names, workdir):
    """Compile a file that Checks and Print-Assumptions every named obligation.
    Returns (list of {name, ok, assumptions}, raw output)."""
    os.makedirs(workdir, exist_ok=True)
    res = []
    fn = os.path.join(workdir, f"Obl_{prop}.v")
    body = [f"From Pygls Require Import {m}." for m in module]
    for n in names:
        body.append(f'Goal True. idtac "@@BEGIN {n}". Abort.')
        # "Module::theorem": Module is imported only here, so that a tie whose module may not build
        # (a proof about a regenerated file) cannot hide the obligations listed before it
        late, _, thm = n.rpartition("::")
        if late:
            body.append(f"From Pygls Require Import {late}.")
        body.append(f"Check {thm}.")
        body.append(f"Print Assumptions {thm}.")
        body.append(f'Goal True. idtac "@@END {n}". Abort.')
    open(fn, "w").write("\n".join(body) + "\n")
    r = sh(f"timeout 600 coqc -Q {COQ} Pygls {fn}", cwd=workdir, timeout=700)
    out = r.stdout + r.stderr
    for n in names:
        m = re.search(rf"@@BEGIN {re.escape(n)}\n(.*?)@@END {re.escape(n)}\n", out, re.S)
        if not m:
            res.append({"name": n, "ok": False, "assumptions": "not checked"})
            continue
        txt = m.group(1)
        am = re.search(r"(Closed under the global context|Axioms:.*)", txt, re.S)
        res.append({"name": n, "ok": True,
                    "assumptions": " ".join(am.group(1).split()) if am else "?"})
    if r.returncode != 0:
        # coqc stops at the first failing Check: everything not seen is undischarged
        pass
    return res, out


def load_known():
    p = os.path.join(ROOT, "known_findings.json")
    out = []
    if os.path.exists(p):
        out = list(json.load(open(p))["findings"])
    # proposals of a property under construction (notes/findings_Cxx.json: a list of entries);
    # the coordinator moves them into known_findings.json when the check is registered
    import glob
    for f in sorted(glob.glob(os.path.join(ROOT, "notes", "findings_C*.json"))):
        try:
            d = json.load(open(f))
            out.extend(d["findings"] if isinstance(d, dict) else d)
        except Exception:
            pass
    return out


class Property:
    id = "C00"
    modules = []          # Coq modules holding the obligations
    obligations = []      # theorem names
    coq_targets = None    # .vo targets of this property's cone (None = all)
    has_driver = True
    rule = ""
    assumptions = []
    trusted_base = []
    private = []          # keys of harness/priv.py (private parts of pygls this check reaches), resolved
                          # by run_check before any case is generated

    # --- to be provided by the property ---
    def generate(self, chk):            # -> list of JSON-able cases (corpus first)
        raise NotImplementedError
    def run_impl(self, chk, cases):     # -> list of observations (JSON-able), one per case
        raise NotImplementedError
    def model_input(self, case):        # -> one driver input line
        raise NotImplementedError
    def model_output(self, case, toks):  # -> dict(M=obs, S=obs-or-None, guard=bool, klass=str|None)
        raise NotImplementedError
    def satisfies(self, case, impl, S):  # impl |= S  (default: equality)
        return impl == S
    def same(self, case, impl, M):       # impl = M on property-level observables
        return impl == M
    def nontrivial(self, case):
        return True
    def shrink(self, case):              # -> iterable of smaller cases
        return []
    def search(self, chk):               # extra failing-input search when the tie/proofs broke
        return []
    def extra_checks(self, chk):         # runtime clauses judged directly (returns list of violations)
        return []
    def distribution(self, cases):
        return {}


class Chk:
    def __init__(self, prop, tier, seed, replay=None):
        self.prop, self.tier, self.seed, self.replay = prop, tier, seed, replay
        self.rng = random.Random(seed)
        self.work = os.path.join(ROOT, "work", prop.id)
        os.makedirs(self.work, exist_ok=True)
        self.t0 = time.time()
        self.notes = []
        self.quick = tier == "quick"

    def n(self, quick, thorough):
        return quick if self.quick else thorough


def canon(x):
    return json.dumps(x, sort_keys=True, separators=(",", ":"), ensure_ascii=True)


def evaluate(prop, chk, cases):
    """Run implementation and model on the cases, classify each (DESIGN 1.1 step 5)."""
    impl = prop.run_impl(chk, cases)
    if prop.has_driver:
        outs = run_driver(prop.id, [prop.model_input(c) for c in cases])
        model = [prop.model_output(c, o) for c, o in zip(cases, outs)]
    else:
        model = [prop.model_output(c, None) for c in cases]
    res = []
    for c, i, m in zip(cases, impl, model):
        M, S, guard, klass = m["M"], m.get("S"), m.get("guard", True), m.get("klass")
        sat = None if S is None else prop.satisfies(c, i, S)
        same = prop.same(c, i, M)
        if guard:
            if sat is False:
                v = "violation"
            elif not same:
                v = "tie" if S is not None else "tie"
            else:
                v = "ok"
        else:
            if S is None:
                v = "ok" if same else "outside"      # property silent here: never an alarm
            elif sat:
                v = "ok-unreproduced" if klass else "ok"
            elif same and klass:
                v = "known:" + klass
            else:
                v = "violation"
        res.append({"case": c, "impl": i, "M": M, "S": S, "guard": guard, "klass": klass, "verdict": v})
    return res


def shrink_case(prop, chk, rec, budget=200, wall=None):
    """Greedy delta-debugging: keep a smaller case while it is still a violation. Bounded both in
    evaluations and in wall time (a case whose evaluation is slow - real runtimes, deadlines that
    expire - must not turn a detected violation into a check that runs for half an hour)."""
    best = rec
    improved = True
    if wall is None:
        wall = float(os.environ.get("VERIF_SHRINK_WALL", "60" if chk.tier == "quick" else "300"))
    # one allowance per run, shared by all the classes that get shrunk
    if not hasattr(chk, "_shrink_end"):
        chk._shrink_end = time.time() + wall
    t_end = chk._shrink_end
    while improved and budget > 0 and time.time() < t_end:
        improved = False
        for cand in prop.shrink(best["case"]):
            budget -= 1
            if budget <= 0 or time.time() >= t_end:
                break
            try:
                r = evaluate(prop, chk, [cand])[0]
            except FAILURES:
                continue
            if r["verdict"] in ("violation", "tie"):
                best, improved = r, True
                break
    return best


def write_replay(prop, rec, extra=None):
    d = os.path.join(ROOT, "replays", prop.id)
    os.makedirs(d, exist_ok=True)
    body = {"property": prop.id, "case": rec.get("case"), "impl": rec.get("impl"),
            "model": rec.get("M"), "spec_expects": rec.get("S"), "guard": rec.get("guard"),
            "verdict": rec.get("verdict")}
    if extra:
        body.update(extra)
    h = hashlib.sha1(canon(body).encode()).hexdigest()[:12]
    p = os.path.join(d, f"{h}.json")
    json.dump(body, open(p, "w"), indent=1, sort_keys=True)
    return os.path.relpath(p, ROOT)


def run_check(prop, tier="quick", seed=0, replay=None):
    chk = Chk(prop, tier, seed, replay)
    violations = []      # (replay path, suffix)
    known_lines = []
    ev = {"property_id": prop.id, "tier": tier, "seed": seed, "level": "proof"}
    cov = {}
    # 0. lint
    bad = lint()
    if bad:
        p = write_replay(prop, {"case": None, "verdict": "lint"}, {"broken": "lint", "lines": bad})
        violations.append((p, "no-failing-input-found"))
    # 1. regenerate tables  2. build + obligations.  coq/Gen/*.v is shared by concurrent checks of
    # the same property against different trees (VERIF_REPO): steps 1-2 run under one lock so that
    # the obligations are checked against the tables generated from THIS run's tree.
    gen_ok = True
    with _Lock("pipeline"):   # global: several properties share coq/Gen files (AstCodec, AstDoc, ExcTable)
        try:
            if hasattr(prop, "regenerate"):
                prop.regenerate(chk)
        except FAILURES as e:
            gen_ok = False
            chk.notes.append("table regeneration failed: " + repr(e))
        ok, log = coq_make(prop.coq_targets)
        if not ok:
            chk.notes.append("coq build failed: " + log[-1500:])
        obl, raw = check_obligations(prop.id, prop.modules, prop.obligations, chk.work)
    discharged = sum(1 for o in obl if o["ok"])
    proofs_ok = ok and gen_ok and discharged == len(obl)
    broken_obl = [o["name"] for o in obl if not o["ok"]]
    driver_ok = True
    if prop.has_driver:
        try:
            build_driver(prop.id)
        except BaseException as e:
            driver_ok = False
            chk.notes.append("driver build failed: " + repr(e))
    # 3-5. correspondence
    results = []
    cases = []
    # private parts of pygls the check reaches (harness/priv.py) are located now, in this thread.  One that
    # cannot be located breaks the correspondence; it is not a failing input: NOTHING is then run against
    # the tree (a harness that cannot see what it observes would produce artefacts, not observations)
    priv_err = []

    def unresolvable(e, where):
        priv_err.append(str(e))
        chk.notes.append("%s: %s - nothing (more) is run against this tree" % (where, e))
    try:
        chk.private_names = priv.preflight(prop.private)
    except priv.Unresolvable as e:
        unresolvable(e, "private part of pygls not located before the run")
    if replay:
        rp = json.load(open(replay if os.path.isabs(replay) else os.path.join(ROOT, replay)))
        cases = [rp["case"]] if rp.get("case") is not None else []
    elif not priv_err:
        try:
            cases = prop.generate(chk)
        except priv.Unresolvable as e:
            cases = []
            unresolvable(e, "case generation")
        except Exception:
            # fail closed: a generator that cannot even build its cases against this tree (e.g. a
            # reflected name is gone) means the correspondence is broken, not that the check crashed
            cases = []
            chk.notes.append("case generation failed: " + traceback.format_exc()[-2500:])
            proofs_ok = False
    err = None
    if driver_ok and cases and not priv_err:
        try:
            results = evaluate(prop, chk, cases)
        except priv.Unresolvable as e:
            unresolvable(e, "evaluation")
        except Exception as e:
            err = traceback.format_exc()
            chk.notes.append("evaluation failed: " + err[-3000:])
    extra_viol = []
    if not replay and not priv_err:
        try:
            extra_viol = prop.extra_checks(chk) or []
        except priv.Unresolvable as e:
            unresolvable(e, "extra checks")
        except Exception:
            err = traceback.format_exc()
            chk.notes.append("extra checks failed: " + err[-3000:])
    if priv_err:
        proofs_ok = False
    # 6. verdict
    known = {(k["property"], k["class"]): k for k in load_known() if k.get("status") == "known"}
    viol = [r for r in results if r["verdict"] == "violation"]
    ties = [r for r in results if r["verdict"] == "tie"]
    seen_known = {}
    for r in results:
        if r["verdict"].startswith("known:"):
            k = r["verdict"][6:]
            if (prop.id, k) in known:
                seen_known.setdefault(k, r)
            else:
                viol.append(r)
    reported = set()
    for r in viol[:50]:
        key = r.get("klass") or "unclassified"
        if key in reported:
            continue
        reported.add(key)
        s = shrink_case(prop, chk, r) if not replay else r
        violations.append((write_replay(prop, s), ""))
    for v in extra_viol:
        violations.append((write_replay(prop, v), v.get("suffix", "")))
    if not viol and (ties or not proofs_ok or err or not driver_ok):
        # the property is no longer shown to hold; search for a failing input
        found = []
        if not replay and not priv_err:
            try:
                found = prop.search(chk) or []
            except FAILURES:
                chk.notes.append("search failed: " + traceback.format_exc()[-1500:])
        if found:
            violations.append((write_replay(prop, found[0]), ""))
        else:
            what = {}
            if ties:
                s = shrink_case(prop, chk, ties[0]) if not replay else ties[0]
                what = dict(s)
                what["broken"] = "correspondence impl = model"
            elif priv_err:
                what = {"case": None, "broken": "private part of pygls not located (harness/priv.py): "
                                                  + "; ".join(priv_err), "notes": chk.notes}
            elif broken_obl or not ok or not gen_ok:
                what = {"case": None, "broken": "proof obligations / build",
                        "obligations": broken_obl, "log": (log[-1500:] if not ok else raw[-1500:])}
            else:
                what = {"case": None, "broken": "check machinery", "notes": chk.notes}
            violations.append((write_replay(prop, what, {"broken": what.get("broken"),
                                                        "obligations": what.get("obligations"),
                                                        "log": what.get("log"), "notes": chk.notes}),
                               "no-failing-input-found"))
    for k, r in sorted(seen_known.items()):
        known_lines.append(f"KNOWN-FINDING: property={prop.id} {k}: {known[(prop.id, k)]['what']}")
    # evidence
    nontriv = set()
    for c in cases:
        try:
            if prop.nontrivial(c):
                nontriv.add(canon(c))
        except Exception:
            pass
    verdicts = {}
    for r in results:
        verdicts[r["verdict"]] = verdicts.get(r["verdict"], 0) + 1
    samples = [{"case": r["case"], "impl": r["impl"], "model": r["M"], "spec": r["S"],
                "guard": r["guard"], "verdict": r["verdict"]} for r in results[:2] + results[-2:]]
    cov.update({
        "obligations": len(obl), "discharged": discharged,
        "checker_cmd": "coqc 8.16.1 (full .vo build via coq_makefile; Check + Print Assumptions per obligation)",
        "trusted_base": list(prop.trusted_base) + sorted({f"{o['name']}: {o['assumptions']}" for o in obl}),
        "evaluations": len(results), "distinct_nontrivial": len(nontriv), "rule": prop.rule,
        "samples": samples or [{"obligations": [o["name"] for o in obl]}],
        "traces_validated_against_impl": len(results),
        "verdict_histogram": verdicts,
        "known_findings_reproduced": sorted(seen_known),
        "outside_scope_model_differences": verdicts.get("outside", 0),
        "distribution": prop.distribution(cases) if cases else {},
        "obligation_status": obl, "notes": chk.notes,
        "exhaustive": bool(getattr(prop, "exhaustive", False)),
    })
    cov.update(getattr(prop, "extra_coverage", {}) or {})
    ev["coverage"] = cov
    ev["assumptions"] = list(prop.assumptions)
    ev["wall_s"] = round(time.time() - chk.t0, 2)
    ev["violations"] = len(violations)
    if not replay:
        # evidence/ is only written by runs against /repo itself; runs against a scratch tree
        # (VERIF_REPO=...) leave their evidence under work/
        if os.path.realpath(REPO) == "/repo" and not os.environ.get("VERIF_NO_EVIDENCE"):
            os.makedirs(os.path.join(ROOT, "evidence"), exist_ok=True)
            json.dump(ev, open(os.path.join(ROOT, "evidence", f"{prop.id}.json"), "w"), indent=1)
        else:
            json.dump(ev, open(os.path.join(chk.work, "evidence_scratch.json"), "w"), indent=1)
    for l in known_lines:
        print(l)
    print(f"[{prop.id}] tier={tier} seed={seed} obligations={discharged}/{len(obl)} cases={len(results)} "
          f"nontrivial={len(nontriv)} verdicts={verdicts} wall={ev['wall_s']}s")
    for n in chk.notes:
        print(f"[{prop.id}] note: {n[:2000]}")
    for p, suffix in violations:
        print(f"VIOLATION property={prop.id} replay={p}" + (f" {suffix}" if suffix else ""))
    return 1 if violations else 0
