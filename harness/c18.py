"""C18 - paths and file URIs convert back and forth losslessly.
Drives the real pygls.uris (and urllib.parse for the direct comparisons); model and reference are
Model/Uris.v and Spec/UrisSpec.v through bin/c18_driver."""
import itertools, json, os, re
import core
import priv

# the property's alphabet: URI-significant characters, letters incl. an upper-case drive letter,
# a digit, a newline (urlsplit removes raw \t \r \n), a neighbour of 'z', 2-/3-/4-byte characters
ALPHA = [ord(c) for c in "/ %?#;:&=+@[]\\~.aC0\n{"] + [0xE9, 0x20AC, 0x1F60B]
assert len(ALPHA) == 24 and len(set(ALPHA)) == 24

SCHEMES = ["http", "https", "ftp", "untitled", "vscode-notebook-cell", "git", "git+ssh", "svn+ssh", "mailto",
           "data", "urn", "ws", "sip", "tel", "jar", "zip", "inmemory", "FILE", "File", "file", "files", "fil",
           "file+x", "f", "x-file", "", "1x", "a.b", "a-b", "http:file", "hdl", "itms-services"]

# Dictionary of "meaningful" fragments that code tends to special-case; combined with exhaustive short tails
# (class C18.dictionary_paths / dictionary_uris).  Hosts, path heads, reserved device names, URI spellings, and
# characters that case-fold / NFKC-normalise / lower() to ASCII letters or to a different length (they exercise
# str.lower(), re.IGNORECASE and urllib's NFKC check of the authority at once).
D_HOSTS = ["localhost", "LOCALHOST", "LocalHost", "127.0.0.1", "::1", "[::1]", "wsl$", "wsl.localhost", "server",
           "a.b", "a:80", "user@host", "xn--bcher-kva", ".", "..", "c:", "C:", "localhost.", "local%68ost", "file",
           "\u212aost", "\uff4cocalhost", "\u0130", "stra\u00dfe"]
D_HEADS = ["/c:", "/C:", "/c%3A", "/c%3a", "/tmp", "/.", "/..", "/~", "/home/user", "/CON", "/con", "/NUL", "/nul.txt",
           "/AUX", "/PRN", "/COM1", "/LPT1", "/con:", "/localhost", "/file:", "/etc/passwd", "/dev/null", "/Z:", "/z:",
           "/@:", "/[:", "/`:", "/{:", "/1:", "/cc:", "/c::"]
D_FOLD = [0x212A, 0x017F, 0x0130, 0x0131, 0x00DF, 0xFB01, 0xFF21, 0xFF23, 0xFF41, 0xFF43, 0xFF5A, 0x1E9E, 0x00AA,
          0x2126, 0x00B5, 0x0399, 0x1D400, 0x24B8, 0x2460, 0xFF0F, 0xFF1A, 0x2100]
D_URIS = ["file:/x", "file://localhost/x", "file:///x", "FILE:///x", "file:////host/x", "file://LOCALHOST/x",
          "file://LocalHost/x", "file://127.0.0.1/x", "file://[::1]/x", "file://::1/x", "file://wsl$/d/x",
          "file://wsl.localhost/d/x", "file://localhost", "file://localhost/", "file://localhost/c:/x",
          "file://localhost/C:/x", "file:///c%3A/x", "file:///C%3a/x", "file:c:/x", "file:/c:/x", "file:///c:", "file:///C:",
          "file://user@host/x", "file://a:80/x", "file://server/share/x", "file://./x", "file://../x", "file:///./x",
          "file:///../x", "file:///~/x", "file://%6cocalhost/x", "file://xn--bcher-kva/x", "file:///CON", "file:///tmp",
          "file://\u212aost/x", "file:///\u212a:/x", "file:///\u017f:/x", "file:///%E2%84%AA:/x", "file:///%C5%BF:/x",
          "file:///\uff23:/x", "file://localhost/\u212a:/x", "http://localhost/x", "http://[::1]/x", "http://[::1/x",
          "vscode-remote://wsl+ubuntu/home/user", "untitled:Untitled-1", "file://LOCALHOST", "file://localhost:80/x"]

RFC_RE = re.compile(r"^(([^:/?#]+):)?(//([^/?#]*))?([^?#]*)(\?([^#]*))?(#(.*))?", re.S)


def enc(s):
    return f"{len(s)} " + " ".join(map(str, s)) if s else "0"


def cps(x):
    return [ord(c) for c in x]


def tostr(s):
    return "".join(map(chr, s))


def obs(f, *a):
    """outcome of a call returning an optional str, as a JSON-able observation"""
    try:
        r = f(*a)
    except Exception as ex:
        return ["raise", type(ex).__name__]
    if r is None:
        return ["ok", None]
    if isinstance(r, str):
        return ["ok", cps(r)]
    return ["ok?", repr(type(r))]


class Tok:
    def __init__(self, t):
        self.t, self.i = t, 0
    def int(self):
        v = int(self.t[self.i]); self.i += 1
        return v
    def str(self):
        n = self.int()
        return [self.int() for _ in range(n)]
    def opt(self):
        return self.str() if self.int() else None
    def oo(self):           # outcome of an optional string
        k = self.int()
        if k == 0: return ["ok", None]
        if k == 1: return ["ok", self.str()]
        if k == 2: return ["raise", "ValueError"]
        if k == 3: return ["raise", "UnicodeEncodeError"]
        if k == 4: return ["raise", "Exception"]
        return ["skipped"]


F22 = "F22-empty-authority"
F29 = "F29-uri-with-drops-authority"
WIN_ALPHA = [ord(c) for c in "\\/:cCa %"] + [0xE9]


def enc_opt(x):
    return "0" if x is None else "1 " + enc(x)


class C18(core.Property):
    id = "C18"
    modules = ["Proofs.UrisProofs", "Proofs.UrisExt", "Props.C18"]
    obligations = ["hex_roundtrip", "unquote_quote", "quote_ascii_unreserved", "rfc_split_of_output",
                   "from_fs_path_spec", "to_fs_path_spec", "path_roundtrip", "uri_roundtrip", "nonfile_none",
                   "none_none", "C18_partial", "C18_refuted_empty_authority", "C18_refuted_empty_authority_4",
                   "C18_refuted", "C18_guard_class", "C18_reference_agrees", "C18_nonvacuous", "C18_bare_host",
                   "C18_bracket_raises",
                   # extension: uri_with, is_win, urlparse/urlunparse/uri_scheme (C18_ext is the conjunction of
                   # uri_with_identity, uri_with_needs_path, the is_win=false equalities, win_roundtrip,
                   # win_to_is_posix_backslashed, unparse_parse, uri_scheme_of_output, uri_scheme_lowercases)
                   "win_roundtrip", "from_fs_path_gen_posix", "to_fs_path_gen_posix", "uri_with_spec",
                   "C18_uri_with_partial", "C18_refuted_uri_with_authority", "C18_uri_with_refuted", "C18_ext",
                   "C18_ext_pinned", "C18_scheme_reference_agrees"]
    coq_targets = ["Props/C18.vo", "Extract/ExtractC18.vo"]
    rule = ("rt cases: every absolute path up to length L over the 24-symbol alphabet (exhaustive) + seeded random "
            "longer paths; to cases: scheme list x tails, random URI strings; direct quote/unquote/urlparse/urlunparse "
            "comparisons with urllib.parse / pygls.uris on the same strings; uri_with on URIs from the path corpus x "
            "component replacements and on random URIs; with pygls.uris.IS_WIN patched to True: every string up to "
            "length 3 (thorough 5) over a 9-symbol Windows alphabet + random longer paths through from/to/from, to_fs_path on "
            "random URIs; non-trivial = the string has a "
            "URI-significant or non-ASCII character")
    trusted_base = ["Coq 8.16.1 kernel incl. vm_compute (refutation witnesses, Examples, 256-octet table)",
                    "extraction with ExtrOcamlBasic only + ocaml/c18_driver.ml + conv_io/conv_n",
                    "harness/c18.py (generators, canonicalisation)",
                    "modelled not verified: urllib.parse quote/unquote/urlsplit/urlparse/urlunsplit (CPython 3.12), "
                    "bytes.decode('utf-8','replace'), str.find/startswith/lower, re match of ^/[a-zA-Z]:",
                    "not modelled (cases flagged approx, compared but never alarming): ipaddress validation of a "
                    "bracketed host, the NFKC check of a non-ASCII authority",
                    priv.trusted(["uris.normalize_win_path"])]
    private = ["uris.normalize_win_path"]
    assumptions = ["IS_WIN false unless the case says win (then pygls.uris.IS_WIN is patched to True; nothing in uris.py depends on os.path)", "a Python str is a list of code points 0..0x10FFFF",
                   "arguments are str or None"]

    # ---------------- generation ----------------
    def corpus(self):
        cases = []
        cdir = os.path.join(core.ROOT, "corpus", "C18")
        if os.path.isdir(cdir):
            for f in sorted(os.listdir(cdir)):
                if f.endswith(".json"):
                    cases.extend(json.load(open(os.path.join(cdir, f))))
        return cases

    def exhaustive_paths(self, L):
        for n in range(L):
            for t in itertools.product(ALPHA, repeat=n):
                yield [47] + list(t)

    @staticmethod
    def tails(L):
        """every string of length <= L over the property's alphabet"""
        for n in range(L + 1):
            for t in itertools.product(ALPHA, repeat=n):
                yield list(t)

    def dictionary_paths(self, L):
        """dictionary fragments x exhaustive short tails: UNC hosts, path heads, case-folding characters in the
        drive-letter position, in a host and inside the path"""
        out = []
        tl = list(self.tails(L))
        for h in D_HOSTS:
            hh = cps(h)
            out.append([47, 47] + hh)
            for t in tl:
                out.append([47, 47] + hh + [47] + t)
        for hd in D_HEADS:
            hh = cps(hd)
            for t in tl:
                out.append(hh + t)
                out.append(hh + [47] + t)
        for x in D_FOLD:
            for t in tl:
                out.append([47, x, 58] + t)               # drive-letter position
                out.append([47, x, 58, 47] + t)
                out.append([47, x] + t)
                out.append([47, 97, x, 58] + t)
                out.append([47, 47, x] + t)               # host
                out.append([47, 47, 104, x, 47] + t)
                out.append([47, 47, 104, 47, x, 58, 47] + t)   # drive letter after an authority
                out.append([47, 99, 58, 47, x] + t)       # after a genuine drive letter
        return out

    def dictionary_uris(self, L):
        out = [cps(u) for u in D_URIS]
        for u in D_URIS:
            for t in self.tails(L):
                if t:
                    out.append(cps(u) + t)
                    out.append(cps(u) + [47] + t)
        return out

    def generate(self, chk):
        rng = chk.rng
        cases = self.corpus()
        cases.append({"k": "none"})
        # 0. dictionary x short exhaustive tails (paths through from/to/from, Windows spellings, URIs)
        dpaths = self.dictionary_paths(chk.n(1, 2))
        for p in dpaths:
            cases.append({"k": "rt", "p": p})
        for p in self.dictionary_paths(chk.n(0, 1)):
            cases.append({"k": "wrt", "p": [92 if c == 47 else c for c in p]})
            if p[0] == 47 and p[1:2] != [47]:
                cases.append({"k": "wrt", "p": [92 if c == 47 else c for c in p[1:]]})     # "c:\\x", "K:\\x"
        duris = self.dictionary_uris(chk.n(1, 2))
        for u in duris:
            cases.append({"k": "to", "u": u})
        for u in duris[:chk.n(600, 6000)]:
            cases.append({"k": "wto", "u": u})
            cases.append({"k": "parse", "u": u})
        for p in dpaths[::chk.n(7, 3)]:
            cases.append({"k": "uwid", "p": p})
            cases.append({"k": "uwr", "p": [47, 97], "fp": p, "n": None, "q": None, "f": None})
            cases.append({"k": "uwr", "p": p, "fp": cps("/b"), "n": rng.choice([None, cps("localhost"), cps("h2")]),
                          "q": None, "f": None})
        # 1. exhaustive absolute paths
        L = chk.n(4, 5)
        self.exhaustive = True
        self.scope = f"all absolute paths of length <= {L} over {len(ALPHA)} symbols"
        paths = list(self.exhaustive_paths(L))
        for p in paths:
            cases.append({"k": "rt", "p": p})
        # 2. random longer paths (structured: segments, hosts, drive letters, escapes)
        pool = ALPHA + cps("bcxyzABZ19-_%25%2F%c3") + [0x7F, 0x80, 0x7FF, 0x800, 0xFFFF, 0x10000, 0x10FFFF, 0xD7FF, 0xE000,
                                                         9, 13, 0, 1, 31, 0x2100, 0xFF0F]
        longer = []
        for _ in range(chk.n(2500, 40000)):
            kind = rng.randrange(8)
            n = rng.randint(3, 24)
            body = [rng.choice(pool) for _ in range(n)]
            if kind == 0:
                p = cps("//") + [c for c in body[:rng.randint(1, 6)] if c != 47] + [47] + body
            elif kind == 1:
                p = [47, rng.choice(cps("cCzZaA@[`{")), 58] + body
            elif kind == 2:
                p = cps("//") + [c for c in body[:rng.randint(0, 4)] if c != 47] + [47, rng.choice(cps("cCZ")), 58] + body
            elif kind == 3:
                p = [47] * rng.randint(1, 4) + body
            elif kind == 4:
                p = body                               # not absolute: outside the statement, tie only
            else:
                p = [47] + body
            longer.append(p)
            cases.append({"k": "rt", "p": p})
        # lone surrogates: quote raises UnicodeEncodeError (outside the statement)
        for p in ([47, 0xD800], [47, 97, 0xDFFF, 98], cps("//") + [0xDC00] + cps("/x")):
            cases.append({"k": "rt", "p": p})
        # 3. URIs: the scheme list x tails (non-file schemes must give None), None is case "none"
        tails = ["", ":", "://h/p", ":///a/b", ":/x", ":x", "://", "://h", ":///c:/x", "://h/C:/x", ":///a%20b?q#f",
                 "://u@h:1/p;x?y#z", ":///%E2%82%AC", ":///a%2Fb", "://h%41/%zz%4", ":///;a/b;c", ":?q", ":#f"]
        for s in SCHEMES:
            for t in tails:
                cases.append({"k": "to", "u": cps(s + t)})
        # 4. URIs built by hand from the paths (other spellings than from_fs_path's own: lower-case hex,
        #    unencoded characters, upper-case scheme) -> tie only
        for p in longer[:chk.n(400, 4000)]:
            try:
                q = "".join(chr(c) if rng.random() < 0.6 else "".join("%%%02x" % b for b in chr(c).encode("utf-8"))
                            for c in p)
            except UnicodeEncodeError:
                continue
            cases.append({"k": "to", "u": cps(rng.choice(["file://", "FILE://", "file:", "file:///", "file://h"]) + q)})
        # 5. malformed stream: random URI strings, model = implementation only
        upool = cps("file:/FILE//:///%%%2541cCeEfF09gG[]v1.?#;@ \t\n\x00\\~&=+") + [0xE9, 0x20AC, 0x1F60B, 0x2100, 0xFFFD]
        uris = []
        for _ in range(chk.n(3000, 60000)):
            n = rng.randint(0, 14)
            u = [rng.choice(upool) for _ in range(n)]
            r = rng.randrange(10)
            if r < 3:
                u = cps(rng.choice(["file://", "file:", " file://", "http://", "//", "file://[", "x://[v1.a]", "file://[::1]"])) + u
            uris.append(u)
            cases.append({"k": "to", "u": u})
        # 6. direct comparisons with urllib.parse / pygls.uris.urlparse / urlunparse on the same strings
        strs = paths[:chk.n(700, 15000)] + longer[:chk.n(600, 6000)]
        for s in strs:
            cases.append({"k": "quote", "s": s})
        for u in uris[:chk.n(2500, 30000)]:
            cases.append({"k": "unquote", "s": u})
            cases.append({"k": "pyparse", "u": u})
            cases.append({"k": "parse", "u": u})
        hexpool = cps("%%%0189abcdefABCDEFgx/ ") + [0xE9]
        for _ in range(chk.n(2500, 30000)):              # percent sequences incl. ill-formed UTF-8
            n = rng.randint(1, 12)
            if rng.random() < 0.5:
                bs = [rng.choice([rng.randrange(256), rng.choice([0xC2, 0xE0, 0xED, 0xF0, 0xF4, 0x80, 0xBF, 0xA0, 0x9F, 0x90, 0x8F, 0x41])])
                      for _ in range(n)]
                s = cps("".join("%%%02X" % b for b in bs))
            else:
                s = [rng.choice(hexpool) for _ in range(n)]
            cases.append({"k": "unquote", "s": s})
        comp = [[], cps("file"), cps("h"), cps("/a b"), cps("/c:/x"), cps("/C:/é"), cps("p;q"), cps("a=b&c"), cps("frag#"),
                cps("http"), cps("svn+ssh"), cps("//x"), cps("x"), [0x20AC], cps("[::1]"), cps("//"), cps("/")]
        for _ in range(chk.n(1500, 15000)):
            cases.append({"k": "unparse", "parts": [rng.choice(comp) for _ in range(6)]})
        # 7. the reference's own RFC 3986 split and strict percent-decoding against Python's re
        for u in uris[:chk.n(1500, 20000)]:
            cases.append({"k": "rfc", "u": u})
        for p in longer[:chk.n(300, 3000)]:
            cases.append({"k": "norm", "p": p})
        # 8. extension: uri_with, the IS_WIN branches
        somepaths = paths[:chk.n(601, 14425)] + longer[:chk.n(500, 5000)]
        for p in somepaths:
            cases.append({"k": "uwid", "p": p})
        fps = [cps(x) for x in ("/baz/boo", "D:/hello universe.py", "/D:/x", "d:", "rel/a b", "/", "", "/a%41?#;", "/é€",
                                "//host/x", "//host", "///x", "//", "/a//b", "C:\\x\\y", "/Z:/q")]
        opts = [None, [], cps("h2"), cps("q=1&r=é"), cps("a b#?"), cps("h/2"), [0x20AC]]
        for p in longer[:chk.n(250, 3000)] + paths[:chk.n(100, 601)]:
            for _ in range(3):
                cases.append({"k": "uwr", "p": p, "fp": rng.choice(fps) if rng.random() < 0.7 else rng.choice(longer),
                              "n": rng.choice(opts[:3] + [None, None, cps("h/2")]), "q": rng.choice(opts),
                              "f": rng.choice(opts)})
        allopts = opts + [cps("http"), cps("file"), cps("svn+ssh"), cps("p;x")]
        for u in uris[:chk.n(1200, 15000)]:
            cases.append({"k": "uw", "win": rng.randrange(2), "u": u,
                          "parts": [rng.choice(allopts) if rng.random() < 0.4 else None for _ in range(6)]})
        for L2 in range(chk.n(4, 6)):
            for t in itertools.product(WIN_ALPHA, repeat=L2):
                cases.append({"k": "wrt", "p": list(t)})
        wpool = WIN_ALPHA + cps("\\\\//bxyZ$.-_?#") + [0x20AC, 0x1F60B]
        for _ in range(chk.n(1500, 20000)):
            body = [rng.choice(wpool) for _ in range(rng.randint(2, 16))]
            pre = rng.choice(["c:\\", "C:\\", "\\\\host\\share\\", "\\", "Z:/", "", "\\\\host", "\\\\\\"])
            cases.append({"k": "wrt", "p": cps(pre) + body})
        for u in uris[:chk.n(800, 10000)]:
            cases.append({"k": "wto", "u": u})
        return cases

    # ---------------- implementation ----------------
    def run_impl(self, chk, cases):
        import logging
        logging.disable(logging.CRITICAL)
        from urllib import parse
        from pygls import uris
        from pygls.workspace import TextDocument, Workspace
        out = []
        for c in cases:
            k = c["k"]
            try:
                if k == "rt":
                    o1 = obs(uris.from_fs_path, tostr(c["p"]))
                    o2, o3, o4, o5 = ["skipped"], ["skipped"], ["skipped"], ["skipped"]
                    if o1[0] == "ok" and o1[1] is not None:
                        u = tostr(o1[1])
                        o2 = obs(uris.to_fs_path, u)
                        if o2[0] == "ok" and o2[1] is not None:
                            o3 = obs(uris.from_fs_path, tostr(o2[1]))
                        o4 = obs(lambda: TextDocument(u, "").path)
                        o5 = obs(lambda: Workspace(u).root_path)
                    out.append([o1, o2, o3, o4, o5])
                elif k == "to":
                    u = tostr(c["u"])
                    out.append([obs(uris.to_fs_path, u), obs(uris.uri_scheme, u), obs(lambda: TextDocument(u, "").path)])
                elif k == "none":
                    out.append([obs(uris.from_fs_path, None), obs(uris.to_fs_path, None), obs(uris.uri_scheme, None)])
                elif k == "quote":
                    out.append(obs(parse.quote, tostr(c["s"])))
                elif k == "unquote":
                    out.append(obs(parse.unquote, tostr(c["s"])))
                elif k in ("parse", "pyparse"):
                    try:
                        r = (uris.urlparse if k == "parse" else parse.urlparse)(tostr(c["u"]))
                        out.append(["ok", [cps(x) for x in r]])
                    except Exception as ex:
                        out.append(["raise", type(ex).__name__])
                elif k == "unparse":
                    out.append(obs(uris.urlunparse, tuple(tostr(x) for x in c["parts"])))
                elif k == "norm":
                    norm = priv.normalize_win_path()        # (located outside the observed call)
                    try:
                        a, b = norm(tostr(c["p"]))
                        out.append(["ok", [cps(a), cps(b)]])
                    except Exception as ex:
                        out.append(["raise", type(ex).__name__])
                elif k in ("wrt", "wto", "uw") and c.get("win", 1):
                    uris.IS_WIN = True          # the module reads its own global at call time
                    try:
                        out.append(self._ext_impl(uris, c))
                    finally:
                        uris.IS_WIN = False
                elif k in ("uw", "uwid", "uwr"):
                    out.append(self._ext_impl(uris, c))
                elif k == "rfc":
                    u = tostr(c["u"])
                    m = RFC_RE.match(u)
                    g = lambda i: None if m.group(i) is None else cps(m.group(i))
                    out.append([g(2), g(4), g(5), g(7), g(9), self._strict_pct(c["u"])])
                else:
                    out.append(["?"])
            except Exception as ex:               # never crash the check on one case
                out.append(["harness-raise", type(ex).__name__])
        return out

    @staticmethod
    def _ext_impl(uris, c):
        k = c["k"]
        opt = lambda x: None if x is None else tostr(x)
        if k == "wrt":
            o1 = obs(uris.from_fs_path, tostr(c["p"]))
            o2, o3 = ["skipped"], ["skipped"]
            if o1[0] == "ok" and o1[1] is not None:
                o2 = obs(uris.to_fs_path, tostr(o1[1]))
                if o2[0] == "ok" and o2[1] is not None:
                    o3 = obs(uris.from_fs_path, tostr(o2[1]))
            return [o1, o2, o3]
        if k == "wto":
            return [obs(uris.to_fs_path, tostr(c["u"]))]
        if k == "uw":
            a = [opt(x) for x in c["parts"]]
            return [obs(lambda: uris.uri_with(tostr(c["u"]), scheme=a[0], netloc=a[1], path=a[2], params=a[3],
                                              query=a[4], fragment=a[5]))]
        if k == "uwid":
            o1 = obs(uris.from_fs_path, tostr(c["p"]))
            if o1[0] == "ok" and o1[1] is not None:
                o2 = obs(uris.to_fs_path, tostr(o1[1]))
                if o2[0] == "ok" and o2[1] is not None:
                    return [obs(lambda: uris.uri_with(tostr(o1[1]), path=tostr(o2[1])))]
            return [["skipped"]]
        if k == "uwr":
            o1 = obs(uris.from_fs_path, tostr(c["p"]))
            if o1[0] == "ok" and o1[1] is not None:
                r = obs(lambda: uris.uri_with(tostr(o1[1]), netloc=opt(c["n"]), path=tostr(c["fp"]), query=opt(c["q"]),
                                              fragment=opt(c["f"])))
                if r[0] == "ok":
                    try:
                        return [r, ["ok", [cps(x) for x in uris.urlparse(tostr(r[1]))]]]
                    except Exception as ex:
                        return [r, ["raise", type(ex).__name__]]
                return [r, ["skipped"]]
            return [["skipped"], ["skipped"]]
        raise ValueError(k)

    @staticmethod
    def _strict_pct(s):
        hexd = "0123456789abcdefABCDEF"
        out, i = [], 0
        while i < len(s):
            if s[i] == 37:
                if i + 2 < len(s) and s[i + 1] < 128 and s[i + 2] < 128 and chr(s[i + 1]) in hexd and chr(s[i + 2]) in hexd:
                    out.append(int(chr(s[i + 1]) + chr(s[i + 2]), 16)); i += 3
                else:
                    return None
            else:
                out.append(s[i]); i += 1
        return out

    # ---------------- model ----------------
    def model_input(self, c):
        k = c["k"]
        if k in ("rt", "norm"):
            return f"{k} {enc(c['p'])}"
        if k in ("to", "parse", "pyparse", "rfc"):
            return f"{k} {enc(c['u'])}"
        if k == "none":
            return "none"
        if k in ("quote", "unquote"):
            return f"{k} {enc(c['s'])}"
        if k == "unparse":
            return "unparse " + " ".join(enc(x) for x in c["parts"])
        if k in ("wrt", "uwid"):
            return f"{k} {enc(c['p'])}"
        if k == "wto":
            return f"wto {enc(c['u'])}"
        if k == "uw":
            return f"uw {c.get('win', 1)} {enc(c['u'])} " + " ".join(enc_opt(x) for x in c["parts"])
        if k == "uwr":
            return f"uwr {enc(c['p'])} {enc(c['fp'])} {enc_opt(c['n'])} {enc_opt(c['q'])} {enc_opt(c['f'])}"
        raise ValueError(k)

    def model_output(self, c, toks):
        k = c["k"]
        t = Tok(toks)
        if k == "rt":
            M = [t.oo(), t.oo(), t.oo(), t.oo()]
            M.append(M[1] if M[3] != ["skipped"] else ["skipped"])   # Workspace.root_path is to_fs_path(root_uri)
            su, sn = t.str(), t.str()
            g, ab, ea = t.int(), t.int(), t.int()
            if not ab:                              # not an absolute scalar path: property silent
                return {"M": M, "S": None, "guard": True}
            # TextDocument(uri).path and Workspace(uri).root_path are the path obtained back
            S = [["ok", su], ["ok", sn], ["ok", su], ["ok", sn], ["ok", sn]]
            return {"M": M, "S": S, "guard": bool(g), "klass": F22 if ea else None}
        if k == "to":
            M = [t.oo(), t.oo(), t.oo()]
            approx, plain, isfile = t.int(), t.int(), t.int()
            sch = t.opt()
            if approx:
                return {"M": M, "S": None, "guard": False}
            # a plain URI with a non-file scheme: None, no exception; its scheme: the RFC scheme, lower-cased
            # (an entry None of S leaves that component unconstrained)
            S = [["ok", None] if (plain and not isfile) else None, ["ok", sch] if (plain and sch is not None) else None]
            return {"M": M, "S": S if any(x is not None for x in S) else None, "guard": True}
        if k == "none":
            M = [t.oo(), t.oo(), t.oo()]
            return {"M": M, "S": [["ok", None], ["ok", None]], "guard": True}
        if k == "quote":
            return {"M": t.oo(), "S": None, "guard": True}
        if k == "unquote":
            return {"M": ["ok", t.str()], "S": None, "guard": True}
        if k in ("parse", "pyparse"):
            tag = t.int()
            M = ["ok", [t.str() for _ in range(6)]] if tag == 1 else ["raise", "ValueError"]
            approx = t.int()
            return {"M": M, "S": None, "guard": not approx}
        if k == "unparse":
            return {"M": t.oo(), "S": None, "guard": True}
        if k == "norm":
            return {"M": ["ok", [t.str(), t.str()]], "S": None, "guard": True}
        if k == "rfc":
            return {"M": [t.opt(), t.opt(), t.str(), t.opt(), t.opt(), t.opt()], "S": None, "guard": True}
        pinned = [["ok", c["expect"]]] if "expect" in c else None       # stated by tests/test_uris.py
        if k == "wrt":
            M = [t.oo(), t.oo(), t.oo()]
            su, sn = t.str(), t.str()
            g, ea = t.int(), t.int()
            if pinned:
                return {"M": M, "S": pinned, "guard": True}
            if not g and not ea:                    # lone surrogates: outside the statement
                return {"M": M, "S": None, "guard": True}
            return {"M": M, "S": [["ok", su], ["ok", sn], ["ok", su]], "guard": bool(g), "klass": F22 if ea else None}
        if k == "wto":
            M = [t.oo()]
            approx = t.int()
            return {"M": M, "S": pinned, "guard": not approx}
        if k == "uw":
            M = [t.oo()]
            approx = t.int()
            return {"M": M, "S": pinned, "guard": not approx}
        if k == "uwid":
            M = [t.oo()]
            su, g = t.str(), t.int()
            return {"M": M, "S": [["ok", su]] if g else None, "guard": True}
        if k == "uwr":
            r = t.oo()
            M = [r, ["skipped"]]
            if r != ["skipped"]:
                tag = t.int()
                M[1] = (["ok", [t.str() for _ in range(6)]] if tag == 1 else
                        ["skipped"] if tag == 9 else ["raise", "ValueError"])
            su, g, f29 = t.str(), t.int(), t.int()
            if g:
                return {"M": M, "S": [["ok", su]], "guard": True}
            if f29:
                return {"M": M, "S": [["ok", su]], "guard": False, "klass": F29}
            return {"M": M, "S": None, "guard": True}
        raise ValueError(k)

    def satisfies(self, c, impl, S):
        return len(impl) >= len(S) and all(s is None or s == i for s, i in zip(S, impl))

    def nontrivial(self, c):
        s = c.get("p") or c.get("u") or c.get("s") or [x for p in c.get("parts", []) for x in p]
        sig = set(cps(" %?#;:&=+@[]\\~\n{"))
        return any(x >= 0x80 or x in sig for x in s[1:]) or c["k"] == "none"

    @staticmethod
    def _empty_authority(p):
        return p[:2] == [47, 47] and (len(p) == 2 or p[2] == 47)

    def shrink(self, c):
        for key in ("p", "u", "s"):
            if key in c:
                s = c[key]
                cands = [s[:i] + s[i + 1:] for i in range(len(s))]
                cands += [s[:i] + [97] + s[i + 1:] for i, x in enumerate(s) if x not in (97, 47)]
                for t in cands:
                    # stay in the same class, so that a new failure is not reported as the known one
                    if c["k"] == "rt" and (self._empty_authority(t) != self._empty_authority(s)
                                           or (s[:1] == [47]) != (t[:1] == [47])):   # ... and an absolute path
                        continue
                    d = dict(c); d[key] = t
                    yield d

    def search(self, chk):
        """bounded-exhaustive scope on the implementation against S (used when the tie or a proof broke)"""
        cases = [{"k": "rt", "p": p} for p in self.exhaustive_paths(4)] + [{"k": "none"}]
        cases += [{"k": "rt", "p": p} for p in self.dictionary_paths(2)]
        cases += [{"k": "wrt", "p": [92 if c == 47 else c for c in p]} for p in self.dictionary_paths(1)]
        cases += [{"k": "uwid", "p": p} for p in self.dictionary_paths(1)]
        cases += [{"k": "to", "u": cps(s + t)} for s in SCHEMES for t in ("://h/p", ":///a", ":x")]
        res = core.evaluate(self, chk, cases)
        return [r for r in res if r["verdict"] == "violation"][:1]

    ANCHORS = [(38, 66), (69, 112), (156, 188)]      # pygls/uris.py, anchors.mechanism[].where

    def extra_checks(self, chk):
        """thorough tier: which anchored lines of pygls/uris.py the generated cases execute"""
        if chk.quick:
            return []
        try:
            import coverage, random
            from pygls import uris
            fn = uris.__file__
            cov = coverage.Coverage(include=[fn], data_file=None)
            sub = core.Chk(self, "quick", chk.seed)
            cases = self.generate(sub)
            cov.start()
            try:
                self.run_impl(sub, cases)
            finally:
                cov.stop()
            _, stmts, _, missing, _ = cov.analysis2(fn)
            src = open(fn).read().split("\n")
            # def lines run at import time, before the measurement starts
            inr = lambda n: any(a <= n <= b for a, b in self.ANCHORS) and not src[n - 1].lstrip().startswith("def ")
            anch = [n for n in stmts if inr(n)]
            miss = [n for n in missing if inr(n)]
            self.extra_coverage = {"anchored_lines": len(anch), "anchored_lines_executed": len(anch) - len(miss),
                                   "anchored_lines_never_executed": miss,
                                   "anchored_lines_note": "the IS_WIN branches are reached by the cases that patch pygls.uris.IS_WIN"}
        except Exception as ex:
            chk.notes.append("anchored-line coverage not measured: " + repr(ex))
        return []

    def distribution(self, cases):
        d = {}
        for c in cases:
            key = c["k"]
            if key == "uw":
                key += "/win" if c.get("win", 1) else "/posix"
            if key == "rt":
                p = c["p"]
                key += "/unc" if p[:2] == [47, 47] else "/drive" if len(p) > 2 and p[2] == 58 else ""
                key += "/nonascii" if any(x > 127 for x in p) else ""
            d[key] = d.get(key, 0) + 1
        if getattr(self, "scope", None):
            d["exhaustive_scope"] = self.scope
        return d


PROPERTY = C18


# ---------------------------------------------------------------------------------------------
# Second tie for the pure core (appended; harness/gen_ast.py, coq/Base/PyMini.v, Proofs/AstUrisEquiv.v):
# the SOURCE TEXT of _normalize_win_path, to_fs_path and uri_scheme is translated on every run by a
# fail-closed AST translator into a deep embedding, and the kernel re-checks that the translation computes
# exactly Model/Uris.v (POSIX branch; to_fs_path / uri_scheme given what pygls.uris.urlparse returns, which
# wraps urllib and stays an oracle).  Imported late ("Module::theorem") so that a broken translator tie
# does not hide the other obligations.
import sys as _sys
_sys.path.insert(0, os.path.dirname(os.path.abspath(__file__)))
import gen_c18 as _gen_c18

_AST_MOD = "Proofs.AstUrisEquiv"
# ast_uris_equiv = ast_normalize_win_path_equiv /\ ast_to_fs_path_equiv /\ ast_uri_scheme_equiv
# ast_uris2_equiv = ast_from_fs_path_equiv /\ ast_urlunparse_equiv /\ ast_uri_with_equiv
# (urllib.parse.quote / urllib.parse.urlunparse, and urlparse for uri_with: oracles)
C18.obligations = list(C18.obligations) + [_AST_MOD + "::" + n for n in (
    "ast_uris_equiv", "ast_uris_example", "ast_uris2_equiv", "ast_from_fs_path_example", "ast_uri_with_example")]
C18.coq_targets = list(C18.coq_targets) + ["Proofs/AstUrisEquiv.vo"]
C18.trusted_base = list(C18.trusted_base) + [
    "translator tie: harness/gen_ast.py (Python ast -> PyMini, fail-closed) and the PyMini semantics "
    "coq/Base/PyMini.v (hand-written meaning of the Python subset: slicing, str.find/startswith/lower, "
    "the drive-letter regex)"]
_prev_regenerate = getattr(C18, "regenerate", None)


def _regenerate(self, chk):
    try:
        if _prev_regenerate is not None:
            _prev_regenerate(self, chk)
    finally:
        core.coq_make(["Props/C18.vo", "Extract/ExtractC18.vo"])     # the differential side first
        with core._Lock("coq"):                                      # coq/Gen is shared by concurrent checks
            _gen_c18.main()
            core._coq_make(["Proofs/AstUrisEquiv.vo"])


C18.regenerate = _regenerate
