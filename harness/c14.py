"""C14 - built-in first, then the user handler, once each, on the promised thread.

A real LanguageServer ($VERIF_REPO) is driven event by event by a subclass of sched.Sched: the
case's decorated definitions are made with the real server.feature / server.command /
server.thread decorators (every registration shape), real LSP messages go through the real
run_async / structure_message / handle_message, handler tasks and pool work items are stepped one
at a time (pool items on real non-loop threads).  Every handler body - the user's functions AND
the built-ins (each entry of fm.builtin_features is wrapped) - logs on entry: the message it
serves, its name, built-in|user|command, which function, `current_thread() is loop thread`,
whether the first argument is the server instance, the arguments, the workspace it sees.
The same case goes through the extracted Model/Dispatch.v (M) and Spec/DispatchSpec.v (S)."""
import json
import os
import threading

import core
import sched
import priv
import c19

KLASS = "F30-raising-builtin-skips-user-handler"
KLASS_SIG = "F31-annotation-ask-lost-when-hints-fail"
T_NONE, T_ABOVE, T_BELOW = 0, 1, 2
PARAMS = c19.PARAMS            # 0 params | 1 ls | 2 srv: <server class> | 3 x: int | 4 ls: int
INJECTS = (1, 2, 4)
# the rest of the signature / the kind of callable (reg row: [kind, name, asy, par, thr, fid, rz, rest, ck])
REST = ["*rest", "p2: int = NO, *rest", 'p2: "Undefined_" = NO, *rest', '*rest) -> "Undefined_"']
CKIND = ["def", "functools.partial of a def", "instance with __call__", "lambda", "bound method"]
K_DEF, K_PARTIAL, K_OBJ, K_LAMBDA, K_METHOD = range(5)


PROTO = ["LanguageServerProtocol", "trivial subclass", "sub-subclass", "subclass adding the built-in u/x",
         "subclass overriding an inherited built-in ($/setTrace)"]
EXTRA = {3: ["x"]}             # built-ins the protocol class adds (names after "u/")


def protocol_class(kind):
    """The protocol class of the case's server (protocol_cls=): what LSPMeta does for subclasses is
    observed through dispatch only."""
    from lsprotocol import types
    from pygls.protocol import LanguageServerProtocol
    from pygls.protocol.language_server import lsp_method
    if not kind:
        return LanguageServerProtocol

    class Sub(LanguageServerProtocol):
        pass
    if kind == 1:
        return Sub
    if kind == 2:
        class SubSub(Sub):
            pass
        return SubSub
    if kind == 3:
        class Adds(LanguageServerProtocol):
            @lsp_method("u/x")
            def lsp_custom_x(self, params):
                return None
        return Adds

    class Overrides(LanguageServerProtocol):
        @lsp_method(types.SET_TRACE)
        def lsp_set_trace(self, params):
            self.trace = params.value
    return Overrides


def server_kwargs(case):
    """How the case's server is constructed: the protocol class, and whether notebook synchronisation is on"""
    kw = {"protocol_cls": protocol_class(case.get("proto", 0))}
    if case.get("nbsync"):
        from lsprotocol import types
        kw["notebook_document_sync"] = types.NotebookDocumentSyncOptions(
            notebook_selector=[types.NotebookDocumentFilterWithCells(cells=[types.NotebookCellLanguage(language="python")])])
    return kw


def reg_fields(r):
    r = list(r) + [0, 0][:max(0, 9 - len(r))]
    return r[:9]


def hints_ok(rest, ck):
    """Does typing.get_type_hints(f) return?  Written down from CPython's typing module, NOT asked from
    pygls: it evaluates EVERY annotation of a function (NameError for a reference to an undefined name,
    in a parameter or the return annotation) and raises TypeError for objects that are not a module,
    class, method or function and carry no __annotations__ (functools.partial, instances)."""
    if ck in (K_PARTIAL, K_OBJ):
        return False
    if ck == K_LAMBDA:
        return True
    return rest in (0, 1)


def first_tokens(par, ck):
    """the first parameter as inspect.signature shows it (a lambda cannot carry annotations)"""
    if par is None:
        return "0"
    t = PARAMS[par][0]
    if ck == K_LAMBDA:
        t = t.split()[0] + " " + t.split()[1] + " 0"
    return t


def build_callable(body, LS, asy, par, rest, ck):
    """A real callable of the given signature whose body is `body(first, more)`."""
    import functools
    NO = object()
    fa = None if par is None else PARAMS[par][1].replace("LanguageServer", "LS")
    first = None if par is None else fa.split(":")[0]
    ns = {"body": body, "LS": LS, "NO": NO, "functools": functools}
    if ck == K_LAMBDA:
        return eval("lambda %s*rest: body(%s, rest)" % ((first + ", ", first) if first else ("", "None")), ns)
    ra = REST[rest]
    ret = ""
    if rest == 3:
        ra, ret = "*rest", ' -> "Undefined_"'
    more = "(() if p2 is NO else (p2,)) + rest" if rest in (1, 2) else "rest"
    if first is None:
        call = "body(None, %s)" % more
    else:
        call = "body(%s, %s)" % (first, more)
    pre = ["self"] if ck in (K_OBJ, K_METHOD) else ["extra"] if ck == K_PARTIAL else []
    params = ", ".join(pre + ([fa] if fa else []) + [ra])
    kw = "async def" if asy else "def"
    if ck in (K_OBJ, K_METHOD):
        nm = "__call__" if ck == K_OBJ else "m"
        exec("class C:\n    %s %s(%s)%s:\n        return %s\n" % (kw, nm, params, ret, call), ns)
        o = ns["C"]()
        return o if ck == K_OBJ else o.m
    exec("%s h(%s)%s:\n    return %s\n" % (kw, params, ret, call), ns)
    return functools.partial(ns["h"], 0) if ck == K_PARTIAL else ns["h"]
BUILTIN = {"init": "initialize", "inited": "initialized", "open": "textDocument/didOpen",
           "change": "textDocument/didChange", "close": "textDocument/didClose",
           "folders": "workspace/didChangeWorkspaceFolders", "trace": "$/setTrace",
           "shutdown": "shutdown", "exec": "workspace/executeCommand",
           "cancel": "window/workDoneProgress/cancel", "nbopen": "notebookDocument/didOpen",
           "nbchange": "notebookDocument/didChange", "nbclose": "notebookDocument/didClose"}
TRACE = ["off", "messages", "verbose"]
USER_METHODS = ["u/a", "u/b"]
COMMANDS = ["cmd.a", "cmd.b"]


def meth_of(m):
    return BUILTIN[m["c"]] if m["c"] != "other" else m["name"]


def doc_uri(u):
    return "file:///d%d.txt" % u


def nb_uri(n):
    return "file:///n%d.ipynb" % n


NB_KEY = 1000        # Model.Dispatch.nb_key: notebooks live in the document table under 1000 + n


def folder(u):
    return {"uri": "file:///f%d" % u, "name": "f%d" % u}


def num(s, pre, post=""):
    s = s[len(pre):]
    return int(s[:len(s) - len(post)] if post else s)


# The request ids a client may send (JSON-RPC: a Number or a String): the abstract id m["id"] (what the model
# and the reference speak of) is carried on the wire as m["wid"] when given.  0 is the first id vscode-jsonrpc issues.
WIRE_IDS = [0, 1, "", "0", -1, 2 ** 31, 2 ** 53 + 1, 2 ** 64 + 7, -(2 ** 40), "abc", "1", "-1", "id with space",
            "2f1b6c1e-8c3b-4c56-9f0e-0a1b2c3d4e5f", "00000000-0000-0000-0000-000000000000", "\u00e9\u4e16"]
# The params of a custom (non-lsprotocol) method, JSON-RPC "by-name" / "by-position" / anything a client writes:
# m["ps"] = 0 object | 1 [] | 2 [v] | 3 [v, v+1] | 4 [v, "s", null] | 5 scalar number | 6 null | 7 scalar string
PSHAPES = 8


def ps_value(m):
    v = m["v"]
    return [{"v": v}, [], [v], [v, v + 1], [v, "s", None], v, None, "s%d" % v][m.get("ps", 0)]


def idkey(x):
    return [type(x).__name__, x]


def concretise(msgs, rng, first=None, shapes=True):
    """Give every request of the sequence a wire id drawn from WIRE_IDS (injective on the abstract ids, so a
    reused id stays reused and distinct ids stay distinct) and every custom-method message a params shape."""
    pool = list(WIRE_IDS)
    rng.shuffle(pool)
    if first is not None:
        pool.remove(first)
        pool.insert(0, first)
    chosen = {}
    for m in msgs:
        a = m.get("id")
        if a is not None:
            if a not in chosen:
                chosen[a] = pool.pop(0) if pool else (rng.choice([10 ** 6, -10 ** 6]) + len(chosen)
                                                      if rng.random() < 0.5 else "r-%d" % len(chosen))
            m["wid"] = chosen[a]
        if shapes and m["c"] == "other" and "ps" not in m:
            m["ps"] = rng.randrange(PSHAPES)
    return msgs


def wire(m):
    """The body of the message as a client would send it."""
    c = m["c"]
    o = {"jsonrpc": "2.0", "method": meth_of(m)}
    if m.get("id") is not None:
        o["id"] = m["wid"] if "wid" in m else m["id"]      # the JSON value the client uses for request m["id"]
    if c == "init":
        o["params"] = {"capabilities": {}, "workspaceFolders": [folder(u) for u in m["folders"]]}
    elif c == "inited":
        o["params"] = {}
    elif c == "open":
        o["params"] = {"textDocument": {"uri": doc_uri(m["u"]), "languageId": "plaintext", "version": m["v"],
                                        "text": "T%d" % m["t"]}}
    elif c == "change":
        o["params"] = {"textDocument": {"uri": doc_uri(m["u"]), "version": m["v"]},
                       "contentChanges": [{"text": "T%d" % t} for t in m["ts"]]}
    elif c == "close":
        o["params"] = {"textDocument": {"uri": doc_uri(m["u"])}}
    elif c == "folders":
        o["params"] = {"event": {"added": [folder(u) for u in m["add"]], "removed": [folder(u) for u in m["rem"]]}}
    elif c == "trace":
        o["params"] = {"value": TRACE[m["v"]]}
    elif c == "exec":
        o["params"] = {"command": m["cmd"], "arguments": [m["a"]]}
    elif c == "cancel":
        o["params"] = {"token": m["tok"]}
    elif c == "other":
        o["params"] = ps_value(m)
    elif c == "nbopen":
        o["params"] = {"notebookDocument": {"uri": nb_uri(m["n"]), "notebookType": "jupyter-notebook", "version": m["v"],
                                            "cells": [{"kind": 2, "document": doc_uri(m["cell"])}]},
                       "cellTextDocuments": [{"uri": doc_uri(m["cell"]), "languageId": "python", "version": m["v"],
                                              "text": "T%d" % m["t"]}]}
    elif c == "nbchange":
        o["params"] = {"notebookDocument": {"uri": nb_uri(m["n"]), "version": m["v"]}, "change": {}}
    elif c == "nbclose":
        o["params"] = {"notebookDocument": {"uri": nb_uri(m["n"])}, "cellTextDocuments": [{"uri": doc_uri(m["cell"])}]}
    return json.dumps(o).encode()


def canon_arg(x):
    """Property-level description of one argument a handler received."""
    if x is None:
        return ["none"]
    if isinstance(x, bool):
        return ["?", "bool"]
    if isinstance(x, int):
        return ["id", x]
    if hasattr(x, "_fields") and hasattr(x, "v"):           # params of a method lsprotocol does not know
        return ["other", x.v]
    if isinstance(x, (list, tuple)):
        return ["val", x[0] if len(x) == 1 and isinstance(x[0], int) else -1]
    n = type(x).__name__
    try:
        if n == "InitializeParams":
            return ["init", [num(f.uri, "file:///f") for f in (x.workspace_folders or [])]]
        if n == "InitializedParams":
            return ["inited"]
        if n == "DidOpenTextDocumentParams":
            d = x.text_document
            return ["open", num(d.uri, "file:///d", ".txt"), d.version, num(d.text, "T")]
        if n == "DidChangeTextDocumentParams":
            d = x.text_document
            return ["change", num(d.uri, "file:///d", ".txt"), d.version, [num(c.text, "T") for c in x.content_changes]]
        if n == "DidCloseTextDocumentParams":
            return ["close", num(x.text_document.uri, "file:///d", ".txt")]
        if n == "DidChangeWorkspaceFoldersParams":
            return ["folders", [num(f.uri, "file:///f") for f in (x.event.added or [])],
                    [num(f.uri, "file:///f") for f in (x.event.removed or [])]]
        if n == "SetTraceParams":
            return ["trace", TRACE.index(getattr(x.value, "value", x.value))]
        if n == "ExecuteCommandParams":
            return ["exec", x.command, x.arguments[0]]
        if n == "WorkDoneProgressCancelParams":
            return ["cancel", x.token]
        if n == "DidOpenNotebookDocumentParams":
            c = x.cell_text_documents[0]
            return ["nbopen", num(x.notebook_document.uri, "file:///n", ".ipynb"), x.notebook_document.version,
                    num(c.uri, "file:///d", ".txt"), num(c.text, "T")]
        if n == "DidChangeNotebookDocumentParams":
            return ["nbchange", num(x.notebook_document.uri, "file:///n", ".ipynb"), x.notebook_document.version]
        if n == "DidCloseNotebookDocumentParams":
            return ["nbclose", num(x.notebook_document.uri, "file:///n", ".ipynb"),
                    num(x.cell_text_documents[0].uri, "file:///d", ".txt")]
    except Exception as ex:        # noqa
        return ["?", n, type(ex).__name__]
    return ["?", n]


class Sched14(sched.Sched):
    """sched.Sched with the case's own registrations, real LSP payloads and the C14 handler log."""

    def __init__(self, case):
        self.case = case
        self.log14 = []
        self.seen14 = [0, 0]
        self.nrecv = 0
        super().__init__({"writer": "blocking", "hook": "default", "wfail": None},
                         server_kwargs=server_kwargs(case))
        fm = self.protocol.fm
        for name in list(fm.builtin_features):
            fm.add_builtin_feature(name, self._wrap_builtin(name, fm.builtin_features[name]))
        import concurrent.futures
        for tok in case.get("tokens", []):
            self.protocol.progress.tokens[tok] = concurrent.futures.Future()

    # ---- registrations: the decorated definitions of the case, first exception ends a definition
    def _register(self, chained):
        srv = self.server
        for r in self.case["regs"]:
            kind, name, asy, par, thr, fid, rz, rest, ck = reg_fields(r)
            f = self._make(kind, name, asy, par, fid, rz, rest, ck)
            try:
                if thr == T_BELOW:
                    f = srv.thread()(f)
                f = (srv.feature(name) if kind == 0 else srv.command(name))(f)
                if thr == T_ABOVE:
                    f = srv.thread()(f)
            except Exception:       # noqa  (refused: duplicate name, thread on a coroutine)
                pass

    def _make(self, kind, name, asy, par, fid, rz, rest=0, ck=0):
        S = self
        part = "user" if kind == 0 else "command"

        def body(first, more):
            inj = first is S.server
            args = tuple(more) if inj else (first,) + tuple(more)
            S._enter(name, part, fid, inj, args, first if inj else S.server)
            if rz == 1:
                raise RuntimeError("scripted failure")
            if rz == 2:
                raise KeyError("scripted failure")
            return fid
        return build_callable(body, type(self.server), asy, par, rest, ck)

    def _wrap_builtin(self, name, orig):
        S = self

        def builtin(*args):
            S._enter(name, "builtin", 0, False, args)
            return orig(*args)
        return builtin

    # ---- the log
    def _ctx14(self):
        import asyncio
        if threading.current_thread() is self.main:
            try:
                task = asyncio.current_task(self.loop)
            except RuntimeError:
                task = None
            if task is not None and self.task_ctx.get(task) is not None:
                return self.task_ctx[task]
            return self.cur
        job = getattr(self.tls, "job", None)
        return job.ctx if job is not None else None

    def snapshot(self, srv=None):
        """What a handler sees.  A user's function looks through what it is given: `srv` is the server
        object it holds (the injected `ls`, else the server its module created) and it reads the public
        `srv.workspace` / `srv.work_done_progress`; a built-in (srv=None) looks at its own protocol."""
        p = self.protocol
        try:
            w = p.workspace if srv is None else srv.workspace
        except RuntimeError:
            w = None
        prog = p.progress if srv is None else srv.work_done_progress
        docs = [[num(u, "file:///d", ".txt"), d.version, num(d.source, "T")]
                for u, d in (w.text_documents.items() if w else [])]
        docs += [[NB_KEY + num(u, "file:///n", ".ipynb"), nb.version, 0]
                 for u, nb in (w.notebook_documents.items() if w else [])]
        folders = sorted(num(u, "file:///f") for u in (w.folders if w else []))
        tr = TRACE.index(getattr(p.trace, "value", p.trace))
        canc = sorted(t for t, f in prog.tokens.items() if f.cancelled())
        return [w is not None, sorted(docs), folders, tr, self.flag_shutdown(), canc]

    def _enter(self, name, part, fid, inj, args, srv=None):
        ctx = self._ctx14()
        onloop = threading.current_thread() is self.main
        self.log14.append([ctx["k"] if ctx else -1, name, part, fid, "loop" if onloop else "pool", bool(inj),
                           [self._canon14(ctx, a) for a in args], self.snapshot(srv)])
        if not onloop:
            job = getattr(self.tls, "job", None)
            if job is not None:
                job.at_gate.set()
                if not job.release.wait(20):
                    self.anomalies.append("job never released")

    def _inv14(self):
        """wire id -> the abstract request id of the case"""
        inv = getattr(self, "_inv14_", None)
        if inv is None:
            inv = self._inv14_ = {}
            for e in self.case["evs"]:
                if e[0] == "recv" and e[1].get("id") is not None and "wid" in e[1]:
                    inv[core.canon(idkey(e[1]["wid"]))] = e[1]["id"]
        return inv

    def _canon14(self, ctx, a):
        """canon_arg, read against the message being served: the params a custom method's handler was given ARE
        the params that were sent (whatever their JSON shape), a request id IS the id that was sent."""
        m = ctx.get("m") if ctx else None
        if m is not None and m["c"] == "other" and m.get("ps"):
            exp = ps_value(m)
            same = type(a) is type(exp) and a == exp and core.canon(a) == core.canon(exp)
            return ["other", m["v"]] if same else ["?", "params-differ", type(a).__name__]
        if isinstance(a, (int, str)) and not isinstance(a, bool):
            inv = self._inv14()
            k = core.canon(idkey(a))
            if k in inv:
                return ["id", inv[k]]
            if inv:
                return ["?", "unknown-id", type(a).__name__]
        return canon_arg(a)

    def _unwire(self, f):
        inv = self._inv14()
        if inv and f[0] == "resp" and f[1] is not None:
            k = core.canon(idkey(f[1]))
            f = [f[0], inv[k] if k in inv else ["?", "unknown-id", f[1]]] + list(f[2:])
        return f

    # ---- pool items: like sched.Sched._start_job, but a work item that returns without reaching
    #      the gate (a coroutine function or a plain function on the pool) does not block the run
    def _start_job(self, job):
        if job.started or not job.fut.set_running_or_notify_cancel():
            return False
        job.started = True

        def body():
            self.tls.job = job
            try:
                res = job.fn(*job.args)
            except BaseException as e:          # noqa
                job.at_gate.set()
                job.release.wait(20)
                job.fut.set_exception(e)
            else:
                job.at_gate.set()
                job.release.wait(20)
                job.fut.set_result(res)
        job.thread = threading.Thread(target=body, daemon=True)
        job.thread.start()
        if not job.at_gate.wait(20):
            self.anomalies.append("job never reached its gate")
        return True

    # ---- events
    def do14(self, e):
        if e[0] != "recv":
            return self.do(e)
        if self.exit is not None or self.reader_task.done():
            return
        body = wire(e[1])
        self.cur = {"k": self.nrecv, "who": ["not", self.nrecv], "b": {}, "m": e[1]}
        self.nrecv += 1
        try:
            self.reader.feed_data(b"Content-Length: %d\r\n\r\n" % len(body) + body)
            self._collect()
            self._run_reader()
        finally:
            self.cur = None
        if self.exit is None and not self.reader_task.done() and len(self.reader._buffer):
            self.anomalies.append("reader did not consume the frame")

    def observe14(self):
        a, b = self.seen14
        self.seen14 = [len(self.writes), len(self.log14)]
        out = [self._unwire(f) for f in (sched.decode_frame(d) for d in self.writes[a:]) if f[0] == "resp"]
        return {"log": [list(x) for x in self.log14[b:]], "out": out}


def run_case(case):
    s = Sched14(case)
    obs = []
    try:
        s.observe14()
        for e in case["evs"]:
            s.do14(e)
            obs.append(s.observe14())
        r = {"obs": obs, "ws": s.snapshot(), "quiescent": s.quiescent()}
        if s.anomalies:
            r["anomalies"] = s.anomalies
        if s.exit is not None or s.reader_task.done():
            r["dead"] = True
        return r
    finally:
        s.close()


class Real14(Sched14):
    """The same registrations, payloads and handler log on an ordinary event loop (C tasks) with the
    server's own ThreadPoolExecutor: no scheduling control, each message is followed by a drain."""

    def __init__(self, case):         # noqa  (deliberately not calling Sched.__init__)
        import asyncio
        from pygls.lsp.server import LanguageServer
        self.case = case
        self.log14, self.writes, self.anomalies = [], [], []
        self.main = threading.current_thread()
        self.tls = threading.local()
        self.cur = None
        self.loop = asyncio.new_event_loop()
        self.server = LanguageServer("c14-real", "v1", **server_kwargs(case))
        self.protocol = self.server.protocol
        self._register({})
        S = self

        class W:
            def write(self, data):
                S.writes.append(bytes(data))

            def close(self):
                pass
        self.protocol.set_writer(W())
        fm = self.protocol.fm
        for name in list(fm.builtin_features):
            fm.add_builtin_feature(name, self._wrap_builtin(name, fm.builtin_features[name]))
        import concurrent.futures
        for tok in case.get("tokens", []):
            self.protocol.progress.tokens[tok] = concurrent.futures.Future()
        self.pending = []
        pool = self.server.thread_pool
        orig = pool.submit

        def submit(fn, *a, **kw):
            f = orig(fn, *a, **kw)
            S.pending.append(f)
            return f
        pool.submit = submit

    def _ctx14(self):
        return self.cur

    def run(self):
        import asyncio
        from pygls.io_ import run_async
        msgs = [e[1] for e in self.case["evs"] if e[0] == "recv"]
        per = []

        async def main():
            reader = asyncio.StreamReader()
            stop = threading.Event()
            rt = asyncio.ensure_future(run_async(stop, reader, self.protocol,
                                                 error_handler=priv.error_handler(self.server)))
            me = asyncio.current_task()
            for k, m in enumerate(msgs):
                self.cur = {"k": k, "m": m}
                a = len(self.log14)
                body = wire(m)
                reader.feed_data(b"Content-Length: %d\r\n\r\n" % len(body) + body)
                import time
                t_end = time.time() + 20
                while time.time() < t_end:
                    await asyncio.sleep(0)
                    busy = [t for t in asyncio.all_tasks() if t is not rt and t is not me and not t.done()]
                    if not busy and not len(reader._buffer) and all(f.done() for f in self.pending):
                        await asyncio.sleep(0.002)      # done-callbacks of pool futures
                        if all(f.done() for f in self.pending):
                            break
                    await asyncio.sleep(0.001)
                else:
                    self.anomalies.append("no quiescence after message %d" % k)
                per.append([list(x) for x in self.log14[a:]] + [self.snapshot()])
            reader.feed_eof()
            stop.set()
            await asyncio.wait_for(rt, 5)
        try:
            self.loop.run_until_complete(main())
        finally:
            try:
                self.server.thread_pool.shutdown(wait=True)
            finally:
                self.loop.close()
        return {"per": per, "anomalies": self.anomalies}


class Burst14(Sched14):
    """The server's PUBLIC stop path.  The case's server runs `start_tcp` in a thread of its own (so the loop
    thread is that thread, the pool the server's own ThreadPoolExecutor); a client sends, in ONE write,
    `initialize`, a burst of messages whose handlers are @thread kind - more of them than any default pool
    has workers, and the handlers wait at a gate, so that most invocations are still queued in the pool -,
    then `shutdown` and `exit`.  The gate opens when the built-in `exit` starts; the observation is taken
    after `start_tcp` has returned, i.e. after JsonRPCServer.shutdown() ran (Model.Dispatch.stop)."""

    def __init__(self, case):         # noqa  (deliberately not calling Sched.__init__)
        from pygls.lsp.server import LanguageServer
        self.case = case
        self.log14, self.anomalies = [], []
        self.lock = threading.Lock()
        self.gate = threading.Event()
        self.main = None                                    # the server's thread, set in run()
        self.tls = threading.local()
        self.cur = None
        self.server = LanguageServer("c14-burst", "v1", **server_kwargs(case))
        self.protocol = self.server.protocol
        self._register({})
        fm = self.protocol.fm
        for name in list(fm.builtin_features):
            fm.add_builtin_feature(name, self._wrap_builtin(name, fm.builtin_features[name]))
        msgs = [e[1] for e in case["evs"] if e[0] == "recv"]
        self.kmap = {core.canon([meth_of(m), canon_arg_of_msg(m)]): k for k, m in enumerate(msgs)}

    def _enter(self, name, part, fid, inj, args, srv=None):
        onloop = threading.current_thread() is self.main
        a0 = canon_arg(args[0]) if args else ["none"]
        if part == "command":
            k = self.kmap.get(core.canon(["cmd", a0]), -1)
        else:
            k = self.kmap.get(core.canon([name, a0]), -1)
        seen = None
        if a0 and a0[0] in ("open", "change") and part == "user":
            # the user's handler looks, through the server it holds, at the one document its message is about
            try:
                d = (srv or self.server).workspace.text_documents.get(doc_uri(a0[1]))
                seen = None if d is None else [d.version, num(d.source, "T")]
            except Exception as ex:         # noqa
                seen = ["raise", type(ex).__name__]
        with self.lock:
            self.log14.append([k, name, part, fid, "loop" if onloop else "pool", bool(inj), seen])
        if name == "exit":
            self.gate.set()
        elif not onloop and part != "builtin":
            self.gate.wait(20)

    def run(self):
        import socket
        import time
        msgs = [e[1] for e in self.case["evs"] if e[0] == "recv"]
        with socket.socket() as s0:
            s0.bind(("127.0.0.1", 0))
            port = s0.getsockname()[1]

        def serve():
            self.main = threading.current_thread()
            try:
                self.server.start_tcp("127.0.0.1", port)
            except BaseException:       # noqa  (SystemExit of `exit`)
                pass
        th = threading.Thread(target=serve, daemon=True)
        th.start()
        sock, t_end = None, time.time() + 10
        while sock is None and time.time() < t_end:
            try:
                sock = socket.create_connection(("127.0.0.1", port), timeout=5)
            except OSError:
                time.sleep(0.01)
        if sock is None:
            self.gate.set()
            return {"log": [], "anomalies": ["could not connect"]}
        data = b""
        for m in msgs + [{"c": "exit"}]:
            body = wire(m) if m["c"] != "exit" else json.dumps({"jsonrpc": "2.0", "method": "exit"}).encode()
            data += b"Content-Length: %d\r\n\r\n" % len(body) + body

        def drain():
            try:
                while sock.recv(65536):
                    pass
            except OSError:
                pass
        threading.Thread(target=drain, daemon=True).start()
        sock.sendall(data)
        th.join(30)
        self.gate.set()
        if th.is_alive():
            self.anomalies.append("the server did not stop")
        time.sleep(0.05)
        try:
            sock.close()
        except OSError:
            pass
        with self.lock:
            return {"log": [list(x) for x in self.log14], "anomalies": self.anomalies}


def canon_arg_of_msg(m):
    """canon_arg of the params object message m is structured into (for attributing a handler call to its
    message when there is no per-message drain)"""
    c = m["c"]
    if c == "init":
        return ["init", list(m["folders"])]
    if c == "inited":
        return ["inited"]
    if c == "open":
        return ["open", m["u"], m["v"], m["t"]]
    if c == "change":
        return ["change", m["u"], m["v"], list(m["ts"])]
    if c == "close":
        return ["close", m["u"]]
    if c == "trace":
        return ["trace", m["v"]]
    if c == "shutdown":
        return ["none"]
    if c == "other":
        return ["other", m["v"]]
    return ["?"]


def burst_cases(rng, n):
    """initialize, then 38 messages (more than the largest default pool, 32) for methods whose user handler is
    @thread kind - under textDocument/didOpen (chained after the built-in) and under a user notification -,
    mixed with didChange messages whose handler is sync or a coroutine, then shutdown (and exit).  Every
    message is distinct, so that a handler call can be attributed to its message by what it received."""
    out = []
    for i in range(n):
        thr = [T_ABOVE, T_BELOW][i % 2]
        regs = [[0, BUILTIN["open"], 0, [1, 0, 2][i % 3], thr, 1, 0],
                [0, "u/a", 0, [0, 1][i % 2], [T_BELOW, T_ABOVE][i % 2], 2, 0],
                [0, BUILTIN["change"], 1 if i % 2 else 0, 1, T_NONE, 3, (i // 2) % 2]]
        ids = [0]
        msgs = [mk_msg("init", ids)]
        for j in range(38):
            x = rng.random()
            if x < 0.7:
                msgs.append(mk_msg("open", ids, u=j + 1, v=j + 1, t=j + 1))
            else:
                msgs.append(mk_msg("other", ids, name="u/a", id=None, v=100 + j))
            if x < 0.2:
                msgs.append(mk_msg("change", ids, u=j + 1, v=j + 50, ts=[j + 60]))
        msgs.append(mk_msg("shutdown", ids))
        out.append({"t": "burst", "regs": regs, "tokens": [], "evs": [["recv", m] for m in msgs]})
    return out


def judge_burst(case, got, S, actual):
    """After the server's stop path: every message reached its built-in once; every @thread / sync handler the
    plan lists for it ran exactly once, on the promised thread, the user's didOpen / didChange handler finding
    the document as its own message left it or later (built-in first); nothing ran twice or unplanned.
    A coroutine handler whose task had not started when `exit` was handled is NOT judged for presence: the
    property does not say what a session that ends owes to it (recorded, no alarm)."""
    if got["anomalies"]:
        return "anomaly: " + got["anomalies"][0], 0
    msgs = [e[1] for e in case["evs"] if e[0] == "recv"]
    per = {}
    for h in got["log"]:
        if h[1] == "exit":
            continue
        if h[0] < 0 or h[0] >= len(msgs):
            return "a handler ran that cannot be attributed to a message: %r" % (h[:3],), 0
        per.setdefault(h[0], []).append(h)
    unstarted_async = 0
    later_version = {}
    for k, m in enumerate(msgs):
        if m["c"] in ("open", "change"):
            later_version.setdefault(m["u"], []).append((k, [m["v"], m["t"] if m["c"] == "open" else m["ts"][-1]]))
    for k, (m, act) in enumerate(zip(msgs, actual)):
        entries = per.get(k, [])
        parts = [h[2] for h in entries]
        if len(set(parts)) != len(parts):
            return "message %d: a handler ran twice" % k, 0
        exp = {y["part"]: y for y in act}
        for h in entries:
            y = exp.get(h[2])
            if y is None:
                return "message %d: a handler ran that is not planned" % k, 0
            if [h[3], h[4], h[5]] != [y["fid"], y["site"], y["inj"]]:
                return "message %d: wrong function / thread / injection" % k, 0
            if h[2] == "user" and h[6] is not None:
                ok = [v for kk, v in later_version.get(m["u"], []) if kk >= k]
                if h[6] not in ok:
                    return "message %d: the user's handler did not find the document its built-in installed" % k, 0
            if h[2] == "user" and m["c"] in ("open", "change") and h[6] is None:
                return "message %d: the user's handler ran before the built-in (document missing)" % k, 0
        for p, y in exp.items():
            if p in parts or y["fut"]:
                continue
            if y["site"] == "loop" and not y["now"]:
                unstarted_async += 1            # a loop task not yet started at exit: not judged
                continue
            return "message %d (%s): its %s handler never ran although the server has stopped" % (k, m["c"], p), 0
    return None, unstarted_async


def _burst_one(case):
    try:
        return Burst14(case).run()
    except priv.Unresolvable:
        raise
    except BaseException as ex:     # noqa
        return {"log": [], "anomalies": ["raise " + type(ex).__name__ + " " + str(ex)[:200]]}


def judge_real(case, got, S, actual):
    """Real runtime, judged per message: exactly the planned invocations, built-in first, the promised
    thread / injection / arguments, built-in on the old workspace, everyone else on the new one."""
    if got["anomalies"]:
        return "anomaly: " + got["anomalies"][0]
    if len(got["per"]) != len(S["msgs"]):
        return "anomaly: %d messages observed of %d" % (len(got["per"]), len(S["msgs"]))
    prev = W0
    for k, (x, act, entries) in enumerate(zip(S["msgs"], actual, got["per"])):
        ws_after, entries = entries[-1], entries[:-1]
        if ws_after != x["ws"]:
            return "workspace after message %d" % k
        if any(h[0] != k for h in entries):
            return "entry attributed to another message"
        exp = sorted(core.canon([y[q] for q in XKEYS]) for y in act)
        if sorted(core.canon([h[2], h[1], h[3], h[4], h[5], h[6]]) for h in entries) != exp:
            return "message %d: invocations differ from the plan" % k
        for j, h in enumerate(entries):
            if h[2] == "builtin":
                if j != 0 or h[7] != prev:
                    return "message %d: built-in not first / not on the old workspace" % k
            elif h[7] != x["ws"]:
                return "message %d: user handler did not see the updated workspace" % k
        prev = x["ws"]
    return None


@priv.in_worker
def _real_one(case):
    try:
        return Real14(case).run()
    except priv.Unresolvable:       # a failure of the harness, not an observation of pygls
        raise
    except BaseException as ex:     # noqa
        return {"per": [], "anomalies": ["raise " + type(ex).__name__ + " " + str(ex)[:200]]}


@priv.in_worker
def _run_one(case):
    if case.get("t") == "burst":
        return _burst_one(case)
    try:
        return run_case(case)
    except priv.Unresolvable:
        raise
    except BaseException as ex:     # noqa
        return ["raise", type(ex).__name__, str(ex)[:200]]


# ----------------------------------------------------------------------------- model side
def enc_str(s):
    return [len(s)] + [ord(ch) for ch in s]


def enc_call(m):
    c = m["c"]
    if c == "init":
        return [0, m["id"], len(m["folders"])] + m["folders"]
    if c == "inited":
        return [1]
    if c == "open":
        return [2, m["u"], m["v"], m["t"]]
    if c == "change":
        return [3, m["u"], m["v"], len(m["ts"])] + m["ts"]
    if c == "close":
        return [4, m["u"]]
    if c == "folders":
        return [5, len(m["add"])] + m["add"] + [len(m["rem"])] + m["rem"]
    if c == "trace":
        return [6, m["v"]]
    if c == "shutdown":
        return [7, m["id"]]
    if c == "exec":
        return [8, m["id"]] + enc_str(m["cmd"]) + [m["a"]]
    if c == "cancel":
        return [9, m["tok"]]
    if c == "nbopen":
        return [11, m["n"], m["v"], m["cell"], m["t"]]
    if c == "nbchange":
        return [12, m["n"], m["v"]]
    if c == "nbclose":
        return [13, m["n"], m["cell"]]
    assert m["name"].startswith("u/")
    return [10] + ([0] if m.get("id") is None else [1, m["id"]]) + enc_str(m["name"][2:]) + [m["v"]]


def enc_ev(e):
    if e[0] == "recv":
        return [0] + enc_call(e[1])
    return [{"task": 1, "cb": 2, "jstart": 3, "jfin": 4}[e[0]], e[1]]


def enc_cfg(case):
    toks = [len(case["regs"])]
    for r in case["regs"]:
        kind, name, asy, par, thr, fid, rz, rest, ck = reg_fields(r)
        toks += [kind] + enc_str(name) + [asy] + first_tokens(par, ck).split() + [int(hints_ok(rest, ck)), thr, fid]
    rs = [r[5] for r in case["regs"] if r[6]]
    toks += [len(rs)] + rs
    tk = case.get("tokens", [])
    toks += [len(tk)] + tk
    ex = EXTRA.get(case.get("proto", 0), [])
    toks += [len(ex)]
    for x in ex:
        toks += enc_str(x)
    return toks


def encode_case(case, cmd="run", evs=None):
    evs = case["evs"] if evs is None else evs
    toks = enc_cfg(case) + [len(evs)]
    for e in evs:
        toks += enc_ev(e)
    return cmd + " " + " ".join(map(str, toks))


class _Cur(sched._Cur):
    def str(self):
        return "".join(chr(self.int()) for _ in range(self.int()))

    def name(self):
        return None if self.int() == 0 else self.str()

    def params(self):
        t = self.int()
        if t == 0:
            return ["init", self.list(self.int)]
        if t == 1:
            return ["inited"]
        if t == 2:
            return ["open", self.int(), self.int(), self.int()]
        if t == 3:
            return ["change", self.int(), self.int(), self.list(self.int)]
        if t == 4:
            return ["close", self.int()]
        if t == 5:
            return ["folders", self.list(self.int), self.list(self.int)]
        if t == 6:
            return ["trace", self.int()]
        if t == 7:
            return ["none"]
        if t == 8:
            return ["exec", self.str(), self.int()]
        if t == 9:
            return ["cancel", self.int()]
        if t == 11:
            return ["nbopen", self.int(), self.int(), self.int(), self.int()]
        if t == 12:
            return ["nbchange", self.int(), self.int()]
        if t == 13:
            return ["nbclose", self.int(), self.int()]
        self.str()
        return ["other", self.int()]

    def arg(self):
        t = self.int()
        return self.params() if t == 0 else ["id", self.int()] if t == 1 else ["val", self.int()]

    def snap(self):
        return [bool(self.int()), self.list(lambda: [self.int(), self.int(), self.int()]), self.list(self.int),
                self.int(), bool(self.int()), self.list(self.int)]

    def entry(self):
        return [self.int(), self.name(), ["builtin", "user", "command"][self.int()], self.int(),
                ["loop", "pool"][self.int()], bool(self.int()), self.list(self.arg), self.snap()]

    def oframe(self):
        if self.int() == 0:
            i, r = self.int(), self.int()
            return ["resp", i, "result", "null" if r == 0 else "obj" if r == 1 else self.int()]
        return ["resp", self.int(), "error", self.int()]

    def xinv(self):
        return {"part": ["builtin", "user", "command"][self.int()], "meth": self.name(), "fid": self.int(),
                "site": ["loop", "pool"][self.int()], "inj": bool(self.int()), "args": self.list(self.arg),
                "now": bool(self.int()), "fut": bool(self.int())}

    def word(self, w):
        x = self.t[self.i]
        self.i += 1
        assert x == w, (x, w)


def parse_run(toks, case):
    c = _Cur(toks)
    obs = [{"log": c.list(c.entry), "out": c.list(c.oframe)} for _ in case["evs"]]
    M = {"obs": obs, "ws": c.snap(), "quiescent": bool(c.int())}
    c.word("|")
    msgs = []
    for _ in range(c.int()):
        x = {"delivered": bool(c.int()), "ok": bool(c.int()), "expect": c.list(c.xinv), "ws": c.snap()}
        r = c.int()
        x["reply"] = None if r == 0 else c.oframe() if r == 1 else "silent"
        msgs.append(x)
    guard = bool(c.int())
    inj_ok = bool(c.int())
    c.word("|")
    actual = [c.list(c.xinv) for _ in msgs]
    return M, {"msgs": msgs, "inj_ok": inj_ok}, guard, actual


W0 = [False, [], [], 0, False, []]
XKEYS = ("part", "meth", "fid", "site", "inj", "args")


def judge(case, impl, S):
    """impl |= S, clause by clause; returns None when satisfied, else the clause that fails."""
    if not isinstance(impl, dict) or "obs" not in impl:
        return "crash"
    if impl.get("anomalies") or impl.get("dead"):
        return "anomaly"
    msgs = S["msgs"]
    rids = [e[1]["id"] for e in case["evs"] if e[0] == "recv" and e[1].get("id") is not None]
    distinct = len(set(rids)) == len(rids)      # a reused request id: replies cannot be attributed by id
    k = -1
    recv_at = {}
    per = {}
    for i, (e, o) in enumerate(zip(case["evs"], impl["obs"])):
        if e[0] == "recv":
            k += 1
            recv_at[k] = i
            x = msgs[k]
            if not x["delivered"] and (o["log"] or o["out"]):
                return "a message received after shutdown invoked or answered something"
            if x["reply"] is None:
                rid = e[1].get("id")
                if distinct and any(f[1] == rid for f in o["out"]) and rid is not None:
                    return "unexpected reply"
            elif x["reply"] != "silent":
                mine = [f for f in o["out"] if f[1] == x["reply"][1]]
                if (mine != [x["reply"]]) if distinct else (x["reply"] not in mine):
                    return "the delivery did not write exactly the built-in's / method-not-found reply"
        for h in o["log"]:
            m = h[0]
            if m < 0 or m > k:
                return "a handler ran for a message that was not received"
            if h[2] == "builtin":
                if i != recv_at[m]:
                    return "a built-in ran outside the delivery of its message"
                if h[7] != (msgs[m - 1]["ws"] if m > 0 else W0):
                    return "the built-in did not see the workspace left by the previous message"
            else:
                # a user's function sees the workspace as left by the latest delivered message, which
                # is its own message or a later one: its own built-in has been applied
                if h[7] != msgs[k]["ws"]:
                    return "a user handler did not see the workspace already updated"
            per.setdefault(m, []).append((i, h))
    calls = [e[1] for e in case["evs"] if e[0] == "recv"]
    last_shut = max([j for j, m in enumerate(calls) if m["c"] == "shutdown" and msgs[j]["delivered"]], default=-1)
    for m, x in enumerate(msgs):
        got = per.get(m, [])
        exp = {y["part"]: y for y in x["expect"]}
        seen = set()
        for j, (i, h) in enumerate(got):
            y = exp.get(h[2])
            if y is None:
                return "a handler ran that is not registered for the message"
            if h[2] in seen:
                return "a handler ran twice for one message"
            seen.add(h[2])
            if [h[2], h[1], h[3], h[4], h[5], h[6]] != [y[q] for q in XKEYS]:
                return "wrong function / thread / server injection / arguments"
            if "builtin" in exp and h[2] != "builtin" and "builtin" not in [g[2] for _, g in got[:j]]:
                return "the user's handler ran before the built-in"
            if y["now"] != (i == recv_at[m]):
                return "inline handler ran later, or a task / pool handler ran inside the delivery"
        if impl.get("quiescent"):
            for p, y in exp.items():
                if p not in seen and not (y["fut"] and last_shut > m):
                    return "a registered handler never ran"
    if msgs and impl.get("ws") != msgs[-1]["ws"]:
        return "the workspace at the end is not the fold of the built-in effects"
    return None


# ----------------------------------------------------------------------------- generators
DRAIN = [["task", 0], ["cb", 0], ["jstart", 0], ["jfin", 0], ["task", 1], ["cb", 1], ["jstart", 1], ["jfin", 1]]
BKEYS = ["init", "inited", "open", "change", "close", "folders", "trace", "shutdown", "exec", "cancel"]


def mk_msg(c, ids, rng=None, **kw):
    """One message of kind c with fresh request id where needed."""
    r = rng
    pick = (lambda xs: r.choice(xs)) if r else (lambda xs: xs[0])
    m = {"c": c}
    if c in ("init", "shutdown", "exec"):
        ids[0] += 1
        m["id"] = ids[0]
    if c == "init":
        m["folders"] = pick([[1, 2], [], [1], [2, 1, 2]])
    elif c == "open":
        m.update(u=pick([1, 2]), v=pick([1, 0, 5]), t=pick([1, 2, 3]))
    elif c == "change":
        m.update(u=pick([1, 2]), v=pick([2, 3, 7]), ts=pick([[4], [5, 6], [], [7]]))
    elif c == "close":
        m.update(u=pick([1, 2]))
    elif c == "folders":
        m.update(add=pick([[3], [], [1, 3], [2]]), rem=pick([[1], [], [3], [2, 1]]))
    elif c == "trace":
        m.update(v=pick([2, 1, 0]))
    elif c == "exec":
        m.update(cmd=pick(["cmd.a", "cmd.a", "cmd.b", "cmd.none", "u/a", "textDocument/didOpen"]), a=pick([9, 3]))
    elif c == "cancel":
        m.update(tok=pick([1, 2, 3]))
    elif c == "nbopen":
        n = pick([1, 2])
        m.update(n=n, v=pick([1, 4]), cell=100 + n, t=pick([7, 8]))
    elif c == "nbchange":
        m.update(n=pick([1, 2]), v=pick([5, 6]))
    elif c == "nbclose":
        n = pick([1, 2])
        m.update(n=n, cell=100 + n)
    elif c == "other":
        req = pick([True, False])
        if req:
            ids[0] += 1
        m.update(name=pick(["u/a", "u/a", "u/b", "u/c", "u/x"]), v=pick([4, 8]), id=ids[0] if req else None)
    m.update(kw)
    return m


def shape_cases():
    """The registration-shape product (c19.shapes_cases) on a real server, every shape reached by a
    message: features under a user-only method (notification and request) and chained after a
    built-in, commands through workspace/executeCommand; outcome ok / raise."""
    out = []
    for n, sh in enumerate(c19.shapes_cases()):
        kind, asy, thr, par = sh["kind"], sh["asy"], sh["thr"], sh["par"]
        for rz in (0, 1):
            if kind == 1:
                variants = [("cmd.a", "exec")]
            else:
                variants = [("u/a", "other-n"), ("u/a", "other-r"), (BUILTIN[BKEYS[(n + rz) % 10]], BKEYS[(n + rz) % 10])]
            for name, via in variants:
                ids = [0]
                evs = [["recv", mk_msg("init", ids)]]
                if via == "exec":
                    evs.append(["recv", mk_msg("exec", ids, cmd="cmd.a")])
                elif via == "other-n":
                    evs.append(["recv", mk_msg("other", ids, name="u/a", id=None)])
                elif via == "other-r":
                    evs.append(["recv", mk_msg("other", ids, name="u/a", id=7)])
                elif via == "init":
                    pass
                else:
                    if via in ("change", "close"):
                        evs.append(["recv", mk_msg("open", ids)])
                    evs.append(["recv", mk_msg(via, ids)])
                regs = [[kind, name, asy, par, thr, 1, rz]]
                if via == "exec" and kind == 0:
                    regs.append([1, "cmd.a", 0, 0, T_NONE, 2, 0])
                out.append({"t": "shape", "regs": regs, "tokens": [1, 2], "evs": evs + DRAIN})
    return out


def sig_shape_cases():
    """The generalised shape product: first parameter {unannotated other name, `ls`, other name annotated
    exactly with the server's class, other name with another annotation, `ls` with another annotation} x
    the rest of the signature {nothing more, a further parameter with a resolvable annotation, a further
    parameter with an UNRESOLVABLE annotation, an unresolvable return annotation} x callable {def,
    async def, functools.partial of a def, instance with __call__, lambda} x {feature, command} x
    {no thread, thread above, thread below}; each shape is reached by one message (the way rotates:
    notification, request, chained after a built-in; commands through executeCommand)."""
    out = []
    n = 0
    sigs = []
    for ck in (K_DEF, K_PARTIAL, K_OBJ):
        for asy in ((0, 1) if ck == K_DEF else (0,)):
            for par in range(5):
                for rest in range(4):
                    sigs.append((asy, par, rest, ck))
    sigs += [(0, 0, 0, K_LAMBDA), (0, 1, 0, K_LAMBDA)]
    for asy, par, rest, ck in sigs:
        for kind in (0, 1):
            for thr in (T_NONE, T_ABOVE, T_BELOW):
                if rest == 0 and ck == K_DEF:
                    continue                      # shape_cases() has these, with every way of reaching them
                n += 1
                rz = (n // 3) % 2 if n % 7 == 0 else 0
                ids = [0]
                evs = [["recv", mk_msg("init", ids)]]
                if kind == 1:
                    name = "cmd.a"
                    evs.append(["recv", mk_msg("exec", ids, cmd="cmd.a")])
                    regs = [[kind, name, asy, par, thr, 1, rz, rest, ck]]
                else:
                    via = ["other-n", "other-r", "open", "trace", "exec"][n % 5]
                    name = "u/a" if via.startswith("other") else BUILTIN[via]
                    regs = [[kind, name, asy, par, thr, 1, rz, rest, ck]]
                    if via == "other-n":
                        evs.append(["recv", mk_msg("other", ids, name="u/a", id=None)])
                    elif via == "other-r":
                        evs.append(["recv", mk_msg("other", ids, name="u/a", id=7)])
                    else:
                        if via == "exec":
                            regs.append([1, "cmd.a", 0, 0, T_NONE, 2, 0])
                        evs.append(["recv", mk_msg(via, ids, **({"cmd": "cmd.a"} if via == "exec" else {}))])
                out.append({"t": "sigshape", "regs": regs, "tokens": [1, 2], "evs": evs + DRAIN[:4]})
    return out


def pair_cases():
    """A FEATURE and a COMMAND under the same name (the code keeps two dicts): every combination of
    {sync, async} x {no thread, above, below} for the pair, both orders of definition, under a user
    method name and under a built-in's name; both are reached (message + executeCommand)."""
    out = []
    shapes = [(0, T_NONE), (0, T_ABOVE), (0, T_BELOW), (1, T_NONE), (1, T_ABOVE)]
    n = 0
    for name, via in (("u/a", "other"), ("textDocument/didOpen", "open")):
        for fa, ft in shapes:
            for ca, ct in shapes:
                for swap in (0, 1):
                    n += 1
                    f = [0, name, fa, n % 5, ft, 1, 0]
                    c = [1, name, ca, (n // 5) % 5, ct, 2, 0]
                    ids = [0]
                    evs = [["recv", mk_msg("init", ids)]]
                    if via == "other":
                        evs.append(["recv", mk_msg("other", ids, name=name, id=(7 if n % 2 else None))])
                    else:
                        evs.append(["recv", mk_msg("open", ids)])
                    evs.append(["recv", mk_msg("exec", ids, cmd=name)])
                    out.append({"t": "pair", "regs": [c, f] if swap else [f, c], "tokens": [], "evs": evs + DRAIN})
    return out


def proto_cases():
    """The protocol class as a dimension: default class, trivial subclass, sub-subclass, a subclass that
    adds its own @lsp_method built-in, one that overrides an inherited built-in - x every built-in method
    (and the added one) x user handler kind {none, sync, async, thread}: once each, built-in first."""
    out = []
    kinds = [None, (0, T_NONE), (1, T_NONE), (0, T_ABOVE)]
    for proto in range(1, 5):
        for bi, b in enumerate(BKEYS + ["x-n", "x-r"]):
            for ki, kd in enumerate(kinds):
                name = BUILTIN[b] if b in BUILTIN else "u/x"
                regs = [] if kd is None else [[0, name, kd[0], (bi + ki) % 5, kd[1], 1, (bi + ki) % 3 if ki == 1 else 0]]
                ids = [0]
                evs = [["recv", mk_msg("init", ids)]]
                if b in ("change", "close"):
                    evs.append(["recv", mk_msg("open", ids)])
                if b == "exec":
                    regs.append([1, "cmd.a", 0, 0, T_NONE, 2, 0])
                if b == "x-n":
                    evs.append(["recv", mk_msg("other", ids, name="u/x", id=None)])
                elif b == "x-r":
                    evs.append(["recv", mk_msg("other", ids, name="u/x", id=9)])
                elif b != "init":
                    evs.append(["recv", mk_msg(b, ids, **({"cmd": "cmd.a"} if b == "exec" else {}))])
                out.append({"t": "proto", "proto": proto, "regs": regs, "tokens": [1, 2], "evs": evs + DRAIN[:4]})
    return out


def notebook_cases():
    """The three notebook built-ins x user handler kind {none, sync, async, thread above / below} x outcome,
    on a default-constructed server and on one constructed with notebook_document_sync; the user's
    handler must find the notebook and its cell the built-in installed / updated / removed."""
    out = []
    kinds = [None, (0, T_NONE), (1, T_NONE), (0, T_ABOVE), (0, T_BELOW)]
    for nbsync in (0, 1):
        for bi, b in enumerate(["nbopen", "nbchange", "nbclose"]):
            for ki, kd in enumerate(kinds):
                for rz in ((0,) if kd is None else (0, 1)):
                    for pre in (True, False):
                        regs = [] if kd is None else [[0, BUILTIN[b], kd[0], (bi + ki + rz + nbsync) % 5, kd[1], 1, rz]]
                        ids = [0]
                        evs = [["recv", mk_msg("init", ids)]] if pre else []
                        if b != "nbopen" and pre:
                            evs.append(["recv", mk_msg("nbopen", ids, n=1, cell=101)])
                        evs.append(["recv", mk_msg(b, ids, **({"n": 1, "cell": 101} if b != "nbchange" else {"n": 1}))])
                        evs.append(["recv", mk_msg("nbopen", ids, n=2, cell=102)])     # the workspace moves on
                        c = {"t": "notebook", "regs": regs, "tokens": [], "evs": evs + DRAIN[:4]}
                        if nbsync:
                            c["nbsync"] = 1
                        out.append(c)
    return out


def reinit_cases():
    """A second `initialize` (same folders / other folders) in one connection, then didOpen / didChange /
    a notebook with user handlers of every kind that look at the workspace THROUGH THE SERVER THEY HOLD
    (the injected `ls`, or their module's server): they must see the workspace of the second session."""
    out = []
    kinds = [(0, T_NONE), (1, T_NONE), (0, T_ABOVE)]
    n = 0
    for f2 in ([1, 2], [3]):
        for kd in kinds:
            for par in (0, 1, 2):
                n += 1
                regs = [[0, BUILTIN["open"], kd[0], par, kd[1], 1, 0], [0, BUILTIN["change"], kd[0], (par + 1) % 3, kd[1], 2, 0],
                        [0, BUILTIN["nbopen"], kd[0], (par + 2) % 3, kd[1], 3, 0], [0, "u/a", 0, par, T_NONE, 4, 0]]
                ids = [0]
                evs = [["recv", mk_msg("init", ids, folders=[1, 2])],
                       ["recv", mk_msg("open", ids, u=1, v=1, t=1)]] + DRAIN[:4] + \
                      [["recv", mk_msg("other", ids, name="u/a", id=None)],
                       ["recv", mk_msg("init", ids, folders=f2)],
                       ["recv", mk_msg("other", ids, name="u/a", id=None)],
                       ["recv", mk_msg("open", ids, u=2, v=3, t=2)], ["task", 1], ["jstart", 1], ["cb", 1], ["jfin", 1],
                       ["recv", mk_msg("change", ids, u=2, v=4, ts=[5])], ["task", 2], ["jstart", 2], ["cb", 2], ["jfin", 2],
                       ["recv", mk_msg("nbopen", ids, n=1, cell=101)], ["task", 3], ["jstart", 3], ["cb", 3], ["jfin", 3]]
                out.append({"t": "reinit", "regs": regs, "tokens": [1], "evs": evs})
    return out


def id_cases():
    """Every JSON value a client may use as a request id (WIRE_IDS: 0, 1, negative, beyond 2**53 / 2**64, "", "0",
    ordinary and uuid strings) x user handler kind {sync, async, thread above / below} x outcome {ok, raise} x
    (a) a user feature reached by a request, and a request nobody handles, (b) a command, and a feature chained
    after the built-in workspace/executeCommand, (c) features chained after the built-ins `initialize` and
    `shutdown`.  The expected handler log does not depend on the id."""
    import random
    out = []
    kinds = [(0, T_NONE), (1, T_NONE), (0, T_ABOVE), (0, T_BELOW)]
    n = 0
    for wi, wid in enumerate(WIRE_IDS):
        for ki, (asy, thr) in enumerate(kinds):
            for rz in ((wi + ki) % 2,):
                for grp in "abc":
                    n += 1
                    par = n % 5
                    ids = [0]
                    if grp == "a":
                        regs = [[0, "u/a", asy, par, thr, 1, rz]]
                        key = [mk_msg("other", ids, name="u/a", id=1, v=4), mk_msg("other", ids, name="u/c", id=2, v=8)]
                        msgs = [mk_msg("init", [2])] + key
                    elif grp == "b":
                        regs = [[1, "cmd.a", asy, par, thr, 1, rz]]
                        if (wi + ki) % 2:
                            regs.append([0, BUILTIN["exec"], kinds[(ki + 1) % 4][0], (par + 1) % 5, kinds[(ki + 1) % 4][1], 2, rz])
                        key = [mk_msg("exec", ids, cmd="cmd.a"), mk_msg("exec", ids, cmd="cmd.none")]
                        msgs = [mk_msg("init", [2])] + key
                    else:
                        regs = [[0, BUILTIN["init"], asy, par, thr, 1, rz], [0, BUILTIN["shutdown"], asy, (par + 2) % 5, thr, 2, rz]]
                        key = [mk_msg("init", ids), mk_msg("other", ids, name="u/c", id=None), mk_msg("shutdown", ids)]
                        msgs = key
                    reqs = [m for m in key if m.get("id") is not None]
                    target = reqs[(wi // 2 + ki // 2) % len(reqs)]                       # the request that carries `wid`
                    concretise([target] + [m for m in msgs if m is not target], random.Random(n), first=wid, shapes=False)
                    out.append({"t": "ids", "regs": regs, "tokens": [1], "evs": [["recv", m] for m in msgs] + DRAIN})
    return out


def params_cases():
    """The params of a custom method in every JSON shape (object, array of 0 / 1 / 2 / 3 elements, number, null,
    string) x user handler kind x {no server parameter, `ls`} x {notification, request}, under a user-only method
    and chained after a built-in the protocol class adds: the handler is entered once, with what was sent."""
    import random
    out = []
    kinds = [(0, T_NONE), (1, T_NONE), (0, T_ABOVE), (0, T_BELOW)]
    n = 0
    for ps in range(PSHAPES):
        for ki, (asy, thr) in enumerate(kinds):
            for par in ((ps + ki) % 2,):
                for req in (0, 1):
                    for proto in (0, 3):
                        n += 1
                        name = "u/x" if proto else "u/a"
                        regs = [[0, name, asy, par, thr, 1, (n // 3) % 2]]
                        msgs = [mk_msg("init", [0]), mk_msg("other", [0], name=name, id=5 if req else None, v=4 + n % 3, ps=ps),
                                mk_msg("other", [0], name=name, id=6 if req else None, v=9, ps=(ps + 3) % PSHAPES)]
                        if n % 2:
                            concretise(msgs, random.Random(n))
                        c = {"t": "params", "regs": regs, "tokens": [], "evs": [["recv", m] for m in msgs] + DRAIN}
                        if proto:
                            c["proto"] = proto
                        out.append(c)
    return out


def sig_table():
    """(par | None, rest, ck): every first parameter incl. none at all x rest x every kind of callable
    incl. bound methods (which the decorators cannot register: setattr fails) - for the function-level
    comparison of has_ls_param_or_annotation with Model.Dispatch.has_ls_g."""
    rows = []
    for ck in (K_DEF, K_PARTIAL, K_OBJ, K_LAMBDA, K_METHOD):
        for par in [None, 0, 1, 2, 3, 4]:
            for rest in ((0,) if ck == K_LAMBDA else range(4)):
                if ck == K_LAMBDA and par in (2, 3, 4):
                    continue
                for asy in ((0, 1) if ck in (K_DEF, K_METHOD) else (0,)):
                    rows.append((par, rest, ck, asy))
    return rows


def matrix_cases():
    """Every built-in method x user handler kind {none, sync, async, thread} x outcome {ok, raise,
    KeyError}, after initialize and (workspace methods) before it; a second message arrives before
    the task / pool handler of the first starts."""
    out = []
    kinds = [None, (0, T_NONE), (1, T_NONE), (0, T_ABOVE), (0, T_BELOW)]
    for bi, b in enumerate(BKEYS):
        for ki, kd in enumerate(kinds):
            for rz in ((0,) if kd is None else (0, 1, 2)):
                for pre in (True, False):
                    if not pre and b in ("init", "inited", "trace", "shutdown", "cancel"):
                        continue
                    regs = [] if kd is None else [[0, BUILTIN[b], kd[0], (bi + ki + rz) % 5, kd[1], 1, rz]]
                    cmds = [None]
                    if b == "exec":
                        cmds = [(0, T_NONE, 0), (0, T_NONE, 1), (1, T_NONE, 0), (1, T_NONE, 1), (0, T_ABOVE, 0),
                                (0, T_BELOW, 2), None]
                    for cm in cmds:
                        rg = list(regs)
                        if cm is not None:
                            rg.append([1, "cmd.a", cm[0], (bi + ki) % 5, cm[1], 2, cm[2]])
                        ids = [0]
                        evs = [["recv", mk_msg("init", ids)]] if pre else []
                        if b in ("change", "close"):
                            evs.append(["recv", mk_msg("open", ids)])
                        if b != "init" or not pre:
                            evs.append(["recv", mk_msg(b, ids, **({"cmd": "cmd.a"} if b == "exec" else {}))])
                        # the workspace moves on before a deferred handler starts
                        if b != "shutdown":
                            evs.append(["recv", mk_msg("trace", ids, v=1)])
                            evs.append(["recv", mk_msg("open", ids, u=2)])
                        out.append({"t": "matrix", "regs": rg, "tokens": [1, 2], "evs": evs + DRAIN})
    return out


NAMES_F = [BUILTIN[b] for b in BKEYS] + ["notebookDocument/didOpen", "notebookDocument/didChange",
                                          "notebookDocument/didClose", "u/a", "u/a", "u/b", "u/x", "textDocument/didOpen", "textDocument/didChange",
                                          "workspace/executeCommand", "initialize", "shutdown"]


def scenario(rng):
    regs = []
    for _ in range(rng.choice([0, 1, 2, 3, 4, 5, 6])):
        if rng.random() < 0.3:
            kind, name = 1, rng.choice(["cmd.a", "cmd.a", "cmd.b", "u/a", "textDocument/didOpen"])
        else:
            kind, name = 0, rng.choice(NAMES_F + ["cmd.a"])
        if regs and rng.random() < 0.15:        # the two name spaces are separate: share a name across them
            kind, name = 1 - regs[-1][0], regs[-1][1]
        asy = int(rng.random() < 0.35)
        thr = rng.choice([T_NONE, T_NONE, T_ABOVE, T_BELOW]) if (not asy or rng.random() < 0.1) else T_NONE
        row = [kind, name, asy, rng.randrange(5), thr, len(regs) + 1, rng.choice([0, 0, 0, 1, 2])]
        if rng.random() < 0.35:                 # the rest of the signature / another kind of callable
            ck = rng.choice([K_DEF, K_DEF, K_PARTIAL, K_OBJ, K_LAMBDA]) if not asy else K_DEF
            if ck == K_LAMBDA:
                row[3] = rng.choice([0, 1])
            row += [0 if ck == K_LAMBDA else rng.randrange(4), ck]
        regs.append(row)
    ids = [0]
    msgs = []
    wild = rng.random() < 0.25            # protocol-violating clients: built-ins that raise
    good_cmds = []
    for r in regs:
        if r[0] == 1 and r[1] not in [g for g in good_cmds] and not (r[2] and r[4] != T_NONE):
            if not (r[6] and not r[2] and r[4] == T_NONE) and r[1] not in [x[1] for x in regs[:regs.index(r)] if x[0] == 1]:
                good_cmds.append(r[1])
    inited = False
    opened = set()
    if rng.random() < (0.8 if wild else 1.0):
        msgs.append(mk_msg("init", ids, rng))
        inited = True
    for _ in range(rng.randint(3, 11)):
        c = rng.choice(["open", "open", "change", "change", "close", "folders", "trace", "cancel", "inited",
                        "exec", "exec", "other", "other", "other", "init" if rng.random() < 0.25 else "open",
                        "nbopen", "nbchange", "nbclose"])
        m = mk_msg(c, ids, rng)
        if not wild and c == "nbchange" and ("nb", m["n"]) not in opened:
            m = mk_msg("nbopen", ids, rng, n=m["n"], cell=100 + m["n"])
        if m["c"] == "nbopen" and inited:
            opened.add(("nb", m["n"]))
        elif m["c"] == "nbclose":
            opened.discard(("nb", m["n"]))
        if not wild:
            if c in ("change", "close") and m["u"] not in opened:
                m = mk_msg("open", ids, rng, u=m["u"])
            elif c == "exec" and m["cmd"] not in good_cmds:
                if good_cmds:
                    m["cmd"] = rng.choice(good_cmds)
                else:
                    ids[0] -= 1
                    m = mk_msg("other", ids, rng)
        if m["c"] == "open" and inited:
            opened.add(m["u"])
        elif m["c"] == "close":
            opened.discard(m["u"])
        elif m["c"] == "init":
            opened.clear()
            inited = True
        msgs.append(m)
    if rng.random() < 0.3:
        msgs.insert(rng.randint(max(0, len(msgs) - 4), len(msgs)), mk_msg("shutdown", ids, rng))
    reqs = [m for m in msgs if m.get("id") is not None]
    if len(reqs) >= 2 and rng.random() < 0.05:          # a client that reuses a request id
        a, b = rng.sample(reqs, 2)
        b["id"] = a["id"]
    if rng.random() < 0.5:                # the client's own request ids / params shapes
        import random
        concretise(msgs, random.Random(rng.getrandbits(32)))
    case = {"t": "seq", "regs": regs, "tokens": [1, 2]}
    if rng.random() < 0.4:
        case["proto"] = rng.randrange(1, 5)
    if rng.random() < 0.3:
        case["nbsync"] = 1
    return case, [["recv", m] for m in msgs]


def query_enabled(items):
    """items: (case, evs) -> (enabled internal events, quiescent) from the model"""
    if not items:
        return []
    outs = core.run_driver("C14", [encode_case(c, "enabled", evs) for c, evs in items])
    res = []
    for o in outs:
        cur = _Cur(o)
        evs = cur.list(lambda: [{1: "task", 2: "cb", 3: "jstart", 4: "jfin"}[cur.int()], cur.int()])
        res.append((evs, bool(cur.int())))
    return res


def interleave(rng, scens, maxlen=48, drain=0.85):
    """Model-guided random interleaving of arrivals and enabled internal events (sometimes a
    disabled one: a no-op), mostly ended by a drain to quiescence."""
    st = [{"case": c, "evs": [], "rest": list(m), "done": False, "drain": rng.random() < drain} for c, m in scens]
    for _ in range(maxlen):
        live = [s for s in st if not s["done"]]
        if not live:
            break
        en = query_enabled([(s["case"], s["evs"]) for s in live])
        for s, (evs, _q) in zip(live, en):
            x = rng.random()
            if s["rest"] and (not evs or x < 0.5):
                s["evs"].append(s["rest"].pop(0))
            elif evs and (x < 0.96 or not s["rest"]) and (s["rest"] or s["drain"]):
                s["evs"].append(rng.choice(evs))
            elif s["rest"]:
                s["evs"].append(rng.choice([["task", rng.randint(0, 3)], ["cb", rng.randint(0, 3)],
                                            ["jstart", rng.randint(0, 2)], ["jfin", rng.randint(0, 2)]]))
            else:
                s["done"] = True
    out = []
    for s in st:
        c = dict(s["case"])
        c["evs"] = s["evs"] + s["rest"]
        out.append(c)
    return out


# Example C14_nonvacuous of Props/C14.v (cfg_ex, evs_ex) and what vm_compute gives for it
SANITY = {"t": "sanity", "regs": [[0, "textDocument/didOpen", 0, 1, T_ABOVE, 1, 1], [0, "textDocument/didChange", 1, 2, T_NONE, 2, 0],
                                   [1, "c", 0, 0, T_NONE, 3, 0]], "tokens": [],
          "evs": [["recv", {"c": "init", "id": 1, "folders": [1]}], ["recv", {"c": "open", "u": 1, "v": 1, "t": 1}],
                  ["recv", {"c": "change", "u": 1, "v": 2, "ts": [2]}], ["recv", {"c": "exec", "id": 2, "cmd": "c", "a": 7}],
                  ["recv", {"c": "change", "u": 1, "v": 3, "ts": [3]}], ["jstart", 0], ["task", 0], ["jfin", 0], ["cb", 0],
                  ["task", 1], ["cb", 1], ["recv", {"c": "shutdown", "id": 3}]]}
SANITY_LOG = [[0, "builtin", 0, "loop", False, []], [1, "builtin", 0, "loop", False, []],
              [2, "builtin", 0, "loop", False, [[1, 1, 1]]], [3, "builtin", 0, "loop", False, [[1, 2, 2]]],
              [3, "command", 3, "loop", False, [[1, 2, 2]]], [4, "builtin", 0, "loop", False, [[1, 2, 2]]],
              [1, "user", 1, "pool", True, [[1, 3, 3]]], [2, "user", 2, "loop", True, [[1, 3, 3]]],
              [4, "user", 2, "loop", True, [[1, 3, 3]]], [5, "builtin", 0, "loop", False, [[1, 3, 3]]]]
SANITY_OUT = [["resp", 1, "result", "obj"], ["resp", 2, "result", 3], ["resp", 3, "result", "null"]]



def small_scenario(rng):
    """1-2 task / pool handlers (one chained after a built-in, one a request handler or a command), 3-4
    messages incl. the ones that move the workspace on: small enough for every interleaving."""
    b = rng.choice(["open", "change", "folders", "trace", "cancel", "init", "inited", "exec"])
    k1 = rng.choice([(1, T_NONE), (0, T_ABOVE), (0, T_BELOW)])
    regs = [[0, BUILTIN[b], k1[0], rng.randrange(5), k1[1], 1, rng.choice([0, 0, 1])]]
    k2 = rng.choice([(1, T_NONE), (0, T_ABOVE), (0, T_NONE)])
    if rng.random() < 0.5:
        regs.append([1, "cmd.a", k2[0], rng.randrange(5), k2[1], 2, rng.choice([0, 0, 1])])
    else:
        regs.append([0, "u/a", k2[0], rng.randrange(5), k2[1], 2, rng.choice([0, 0, 1])])
    ids = [0]
    msgs = [mk_msg("init", ids, rng)]
    if b in ("change",):
        msgs.append(mk_msg("open", ids, rng, u=1))
    if b != "init":
        msgs.append(mk_msg(b, ids, rng, **({"u": 1} if b in ("change", "open") else {"cmd": "cmd.a"} if b == "exec" else {})))
    if regs[1][0] == 1 and b != "exec":
        msgs.append(mk_msg("exec", ids, rng, cmd="cmd.a"))
    elif regs[1][0] == 0:
        msgs.append(mk_msg("other", ids, rng, name="u/a"))
    msgs.append(mk_msg(rng.choice(["trace", "open", "shutdown", "shutdown"]), ids, rng))
    return {"t": "exhaustive", "regs": regs, "tokens": [1, 2]}, [["recv", m] for m in msgs]


def exhaustive(rng, scens, cap):
    """Every interleaving of each small scenario (the model is the enabledness oracle); a scenario with
    more than `cap` interleavings is sampled."""
    out, complete = [], True
    for case, msgs in scens:
        frontier, finished = [([], list(msgs))], []
        while frontier:
            en = query_enabled([(case, evs) for evs, _ in frontier])
            nxt = []
            for (evs, rest), (enabled, _q) in zip(frontier, en):
                if not enabled and not rest:
                    finished.append(evs)
                    continue
                for ch in enabled:
                    nxt.append((evs + [ch], rest))
                if rest:
                    nxt.append((evs + [rest[0]], rest[1:]))
            if len(nxt) + len(finished) > cap:
                complete = False
                rng.shuffle(nxt)
                nxt = nxt[:max(1, cap - len(finished))]
            frontier = nxt
        out.extend(dict(case, evs=e) for e in finished)
    return out, complete


ANCHORS = [("pygls.protocol.lsp_meta", ["call_user_feature"]),
           ("pygls.protocol.json_rpc", ["JsonRPCProtocol._execute_notification", "JsonRPCProtocol._execute_request",
                                        "JsonRPCProtocol._get_handler", "JsonRPCProtocol._handle_request",
                                        "JsonRPCProtocol._handle_notification"]),
           ("pygls.feature_manager", ["wrap_with_server", "has_ls_param_or_annotation", "is_thread_function",
                                      "FeatureManager.thread"]),
           ("pygls.protocol.language_server", ["LanguageServerProtocol.lsp_workspace__execute_command"])]


def anchored_coverage(cases):
    """Run the cases in this process under coverage and report which anchored lines never ran."""
    import coverage
    import importlib
    import inspect
    cov = coverage.Coverage(data_file=None, include=[os.path.join(core.REPO, "pygls", "*")])
    cov.start()
    try:
        for c in cases:
            _run_one(c)
    finally:
        cov.stop()
    total, missing, gone = 0, [], []
    for modname, names in ANCHORS:
        mod = importlib.import_module(modname)
        fn = mod.__file__
        _, stmts, _, miss, _ = cov.analysis2(fn)
        lines = open(fn).read().split("\n")
        for nm in names:
            o = mod
            for part in nm.split("."):
                o = getattr(o, part, None)
            if o is None:               # evidence only: an anchored private function that was renamed is not counted
                gone.append(nm)
                continue
            src, start = inspect.getsourcelines(o)
            a, b = start, start + len(src) - 1
            total += len([l for l in stmts if a <= l <= b])
            missing += ["%s:%d" % (os.path.basename(fn), l) for l in miss if a <= l <= b
                        and not lines[l - 1].lstrip().startswith(("def ", "class ", "@", "async def "))]
    return {"anchored_lines": total, "anchored_lines_executed": total - len(missing),
            "anchored_lines_never_executed": missing, "anchored_functions_not_found": gone}


class C14(core.Property):
    id = "C14"
    modules = ["Proofs.FeaturesProofs", "Proofs.C14Proofs", "Props.C14", "Proofs.LinkDispatchEndpoint"]
    # the top-level theorems (their Print Assumptions cover the lemmas they rest on: recv_delivery, plan_actual,
    # step_log, step_tot, M_run, K_run, stop_jobs, runx_is_run, cfg_of_agrees, ...)
    obligations = ["shape_general", "site_iff_thread", "inject_iff_asked", "balance",
                   "O_run", "at_most_once", "exactly_once_at_quiescence", "builtin_then_user_once",
                   "entries_are_owed", "snapshots", "user_failure_keeps_builtin", "builtin_reply_kept",
                   "no_handler_nothing", "delivery_exact", "inject_decision", "inject_iff_asked_g",
                   "shapes_in_context_g", "thread_keeps", "shared_name_pairs", "custom_builtin_once",
                   "notebook_builtin_first", "stop_jobs_idle", "stop_preserves_log", "once_after_stop",
                   "stop_history_invariants", "stop_runs_the_queue", "C14_refuted_unresolvable_hints", "C14_shapes",
                   "C14_partial", "C14_refuted_builtin_raises", "C14_refuted", "C14_nonvacuous",
                   "C14_reference_agrees", "link_run", "link_starts", "endpoint_satisfies_C14",
                   "endpoint_command_after_builtin", "dispatch_inherits_never_starts", "link_function", "link_nonvacuous"]
    coq_targets = ["Props/C14.vo", "Extract/ExtractC14.vo", "Proofs/LinkDispatchEndpoint.vo"]
    rule = ("non-trivial = the registration shape has a thread decorator or a server parameter, or the message's "
            "method has both a built-in and a user handler")
    trusted_base = ["Coq 8.16.1 kernel incl. vm_compute (shape product, refutation witness, Examples)",
                    "extraction with ExtrOcamlBasic only + ocaml/c14_driver.ml + conv_io/n/z/nat",
                    "harness/sched.py (ready-queue interposition, duck-typed pool on real threads) + harness/c14.py "
                    "(Sched14: registrations, payloads, the handler log, wrapping of fm.builtin_features entries)",
                    "modelled not verified: asyncio task start / cancel-before-start, concurrent.futures.Future.cancel, "
                    "dict order, inspect.signature / get_type_hints (abstract signature), lsprotocol structuring "
                    "(messages are well-formed), the workspace transformers of the built-ins (C04 / C10)",
                    priv.trusted(sched.PRIVATE + ["protocol.get_handler"])]
    private = sched.PRIVATE + ["protocol.get_handler"]       # (get_handler: c19's probe machinery, used by the shape product)
    assumptions = ["messages are well-formed LSP messages for their method (structuring succeeds: C06, C13)",
                   "the reply clauses of the reference attribute replies by request id: exact for pairwise distinct "
                   "ids, containment when a client reuses an id (the model itself handles reuse: impl = M)",
                   "handler coroutines have no suspension point; user handlers do not touch the workspace",
                   "a pool work item starts and finishes as two atomic events"]

    def generate(self, chk):
        cases = []
        cdir = os.path.join(core.ROOT, "corpus", "C14")
        if os.path.isdir(cdir):
            for f in sorted(os.listdir(cdir)):
                if f.endswith(".json"):
                    cases.extend(json.load(open(os.path.join(cdir, f))))
        cases.append(SANITY)
        cases.extend(shape_cases())
        cases.extend(sig_shape_cases())
        cases.extend(pair_cases())
        cases.extend(proto_cases())
        cases.extend(notebook_cases())
        cases.extend(reinit_cases())
        cases.extend(id_cases())
        cases.extend(params_cases())
        # the public stop path: bursts of @thread messages, then shutdown and exit, observed after start_tcp returned
        cases.extend(burst_cases(chk.rng, chk.n(3, 24)))
        cases.extend(matrix_cases())
        n = chk.n(260, 6000)
        cases.extend(interleave(chk.rng, [scenario(chk.rng) for _ in range(n)]))
        self.extra_coverage = dict(getattr(self, "extra_coverage", None) or {})
        if not chk.quick:
            small = [small_scenario(chk.rng) for _ in range(60)]
            ex, complete = exhaustive(chk.rng, small, 600)
            cases.extend(ex)
            self.extra_coverage.update({"exhaustive_small_scenarios": len(small), "exhaustive_interleavings": len(ex),
                                        "every_small_scenario_complete": complete})
            sub = [c for c in cases if c.get("t") in ("shape", "matrix", "witness", "finding")]
            sub += [c for c in cases if c.get("t") == "seq"][:300]
            try:
                self.extra_coverage.update(anchored_coverage(sub))
            except Exception as ex_:        # noqa  (coverage is informational)
                self.extra_coverage["anchored_coverage_error"] = repr(ex_)
        return cases

    def run_impl(self, chk, cases):
        if len(cases) < 40:
            return priv.collect(_run_one(c) for c in cases)
        import multiprocessing as mp
        with mp.get_context("fork").Pool(4) as pool:
            return priv.collect(pool.map(_run_one, cases, chunksize=8))

    def model_input(self, case):
        return encode_case(case)

    def model_output(self, case, toks):
        M, S, guard, actual = parse_run(toks, case)
        if case.get("t") == "burst":
            # observed once, after the stop path: judged by the reference's plan per message (no event-by-event M)
            return {"M": {"burst": True}, "S": {"burst": actual}, "guard": True, "klass": None}
        if not guard:
            self._unguarded.add(core.canon(case))
        return {"M": M, "S": S, "guard": guard,
                "klass": None if guard else (KLASS if S["inj_ok"] else KLASS_SIG)}

    _unguarded = set()
    _outside = []

    def same(self, case, impl, M):
        if case.get("t") == "burst":
            return True
        eq = core.canon(impl) == core.canon(M)
        if not eq and core.canon(case) in self._unguarded and len(self._outside) < 5:
            # outside the guard core.evaluate compares impl = M only when S fails; the model is meant
            # to be faithful there too (it reproduces the finding), so a difference is reported
            self._outside.append({"case": case, "impl": impl, "M": M, "S": None, "guard": False,
                                  "verdict": "tie", "suffix": "no-failing-input-found"})
        return eq

    def satisfies(self, case, impl, S):
        if case.get("t") == "burst":
            if not isinstance(impl, dict) or "log" not in impl:
                return False
            why, na = judge_burst(case, impl, None, S["burst"])
            self._unstarted_async += na
            return why is None
        return judge(case, impl, S) is None

    _unstarted_async = 0

    def nontrivial(self, case):
        regs = case["regs"]
        if any(r[4] != T_NONE or r[3] in INJECTS or len(r) > 7 for r in regs):
            return True
        feats = {r[1] for r in regs if r[0] == 0}
        return any(e[0] == "recv" and e[1]["c"] != "other" and meth_of(e[1]) in feats for e in case["evs"])

    def shrink(self, case):
        evs, regs = case["evs"], case["regs"]
        n = len(evs)
        for k in (n // 2, n // 4):
            if 0 < k < n:
                yield dict(case, evs=evs[:n - k])
        for a in range(n - 1, -1, -1):
            yield dict(case, evs=evs[:a] + evs[a + 1:])
        for a in range(len(regs) - 1, -1, -1):
            yield dict(case, regs=regs[:a] + regs[a + 1:])
        if case.get("proto") in (2, 4):
            yield dict(case, proto=1)
        for a, r in enumerate(regs):
            if r[6]:
                yield dict(case, regs=regs[:a] + [r[:6] + [0] + r[7:]] + regs[a + 1:])
            if len(r) > 7 and (r[7] or r[8]):
                yield dict(case, regs=regs[:a] + [r[:7]] + regs[a + 1:])

    def search(self, chk):
        """The tie or a proof broke: look for an input on which the property itself fails (judged by
        the reference S alone, inside the guard)."""
        cases = (shape_cases() + sig_shape_cases() + pair_cases() + proto_cases() + notebook_cases() + reinit_cases()
                 + id_cases() + params_cases()
                 + matrix_cases() + interleave(chk.rng, [scenario(chk.rng) for _ in range(300)]))
        out = []
        for r in core.evaluate(self, chk, cases):
            if r["guard"] and r["S"] is not None and not self.satisfies(r["case"], r["impl"], r["S"]):
                r["verdict"] = "violation"
                out.append(core.shrink_case(self, chk, r))
                break
        return out

    def distribution(self, cases):
        d = {}

        def add(k):
            d[k] = d.get(k, 0) + 1
        for c in cases:
            add("kind/" + c.get("t", "corpus"))
            add("protocol_cls/" + PROTO[c.get("proto", 0)])
            add("notebook_document_sync/%s" % bool(c.get("nbsync")))
            add("len/%d" % (10 * (len(c["evs"]) // 10)))
            feats = {}
            for r in c["regs"]:
                k = "async" if r[2] else ("thread" if r[4] != T_NONE else "sync")
                add("reg/%s/%s/%s/%s" % ("feature" if r[0] == 0 else "command", k, PARAMS[r[3]][1],
                                         ["ok", "raise", "keyerror"][r[6]]))
                rr = reg_fields(r)
                add("sig/%s/rest=%d/hints=%s" % (CKIND[rr[8]], rr[7], hints_ok(rr[7], rr[8])))
                if r[0] == 0:
                    feats.setdefault(r[1], k + "/" + ["ok", "raise", "keyerror"][r[6]])
            for e in c["evs"]:
                if e[0] != "recv":
                    add("ev/" + e[0])
                else:
                    m = e[1]
                    add("msg/%s/user=%s" % (m["c"], feats.get(meth_of(m), "none")))
        return d

    def _sig_table_check(self):
        import typing
        from pygls.lsp.server import LanguageServer
        try:
            from pygls.feature_manager import has_ls_param_or_annotation as decide
        except ImportError:                     # renamed: the registration-level cases still cover it
            self.extra_coverage = dict(getattr(self, "extra_coverage", None) or {}, signature_table="skipped")
            return []

        class Srv(LanguageServer):
            pass
        LS = Srv
        rows = sig_table()
        outs = core.run_driver("C14", ["sig %s %d" % (first_tokens(par, ck), int(hints_ok(rest, ck)))
                                       for par, rest, ck, asy in rows])
        bad = []
        for (par, rest, ck, asy), o in zip(rows, outs):
            f = build_callable(lambda first, more: None, LS, asy, par, rest, ck)
            try:
                typing.get_type_hints(f)
                h = True
            except Exception:       # noqa
                h = False
            got = bool(decide(f, LS))
            model, via_features, asks, ok = [bool(int(x)) for x in o[:4]]
            if h != hints_ok(rest, ck) or got != model or model != via_features or (ok and got != asks):
                bad.append({"case": {"first": None if par is None else PARAMS[par][1], "rest": REST[rest],
                                     "callable": CKIND[ck], "async": asy},
                            "impl": {"injects": got, "get_type_hints_ok": h},
                            "S": {"model": model, "asks": asks, "inside_sig_ok": ok, "hints_ok_table": hints_ok(rest, ck)},
                            "verdict": "violation"})
        self.extra_coverage = dict(getattr(self, "extra_coverage", None) or {}, signature_table=len(rows))
        return bad[:3]

    def extra_checks(self, chk):
        """The shape product once more through C19's own machinery (c19.run_shape: the real decorators,
        a probe message through the real protocol) against the closed form proved in FeaturesProofs."""
        viol = list(self._outside)
        # the driver against the kernel: Example C14_nonvacuous (Props/C14.v) evaluates this case by
        # vm_compute; the extracted binary must print the same log
        got = core.run_driver("C14", [encode_case(SANITY)])[0]
        Ms, _S, g, _a = parse_run(got, SANITY)
        flat = [[h[0], h[2], h[3], h[4], h[5], h[7][1]] for o in Ms["obs"] for h in o["log"]]
        outs = [f for o in Ms["obs"] for f in o["out"]]
        if flat != SANITY_LOG or outs != SANITY_OUT or not g or not Ms["quiescent"]:
            viol.append({"case": SANITY, "impl": flat, "S": SANITY_LOG, "verdict": "violation",
                         "suffix": "no-failing-input-found"})
        # every signature, at the level of the decision function: the real has_ls_param_or_annotation on
        # real callables against Model.Dispatch.has_ls_g (and the hand-written CPython facts `hints_ok`
        # against typing.get_type_hints itself)
        viol += self._sig_table_check()
        # the real runtime: ordinary loop, C tasks, the server's own ThreadPoolExecutor
        rcases = []
        for _ in range(chk.n(40, 600)):
            c, msgs = scenario(chk.rng)
            rcases.append(dict(c, t="real", evs=msgs))
        rcases += [dict(c, t="real", evs=[e for e in c["evs"] if e[0] == "recv"]) for c in matrix_cases()[::3]]
        rcases += [dict(c, t="real", evs=[e for e in c["evs"] if e[0] == "recv"]) for c in (id_cases() + params_cases())[::5]]
        import multiprocessing as mp
        with mp.get_context("fork").Pool(4) as pool:
            rgot = priv.collect(pool.map(_real_one, rcases, chunksize=8))
        routs = core.run_driver("C14", [encode_case(c) for c in rcases])
        nreal = 0
        for c, g, o in zip(rcases, rgot, routs):
            _M, S_, _g, act = parse_run(o, c)
            why = judge_real(c, g, S_, act)
            nreal += 1
            if why and len(viol) < 4:
                viol.append({"case": c, "impl": g, "S": why, "verdict": "violation"})
        impl = c19._Impl()
        n = 0
        try:
            for sh in c19.shapes_cases():
                got = c19.run_shape(impl, sh)
                exp = sh["expect"]
                n += 1
                ok = (got["accepted"] == exp["accepted"] and got["site"] == exp["site"] and
                      got["inject"] == exp["inject"] and got["runs"] == (1 if exp["accepted"] else 0))
                if not ok:
                    viol.append({"case": {"shape": sh["case"], "param": sh["param"]}, "impl": got, "S": exp,
                                 "verdict": "violation"})
        finally:
            impl.close()
        self.extra_coverage = dict(getattr(self, "extra_coverage", None) or {})
        self.extra_coverage["shape_product_via_c19"] = n
        self.extra_coverage["coroutine_handlers_unstarted_at_exit_not_judged"] = self._unstarted_async
        self.extra_coverage["real_runtime_sequences"] = nreal
        if not chk.quick:
            # the compiled proofs once more through the independent checker
            r = core.sh("timeout 900 coqchk -silent -o -Q . Pygls Pygls.Props.C14 Pygls.Proofs.LinkDispatchEndpoint", cwd=core.COQ, timeout=1000)
            out = r.stdout + r.stderr
            ok = r.returncode == 0 and "* Axioms: <none>" in out
            self.extra_coverage["coqchk"] = "Props.C14 + Proofs.LinkDispatchEndpoint: ok, axioms <none>" if ok else out[-600:]
            if not ok:
                viol.append({"case": None, "impl": out[-600:], "S": "coqchk -o accepts Props/C14.vo without axioms",
                             "verdict": "violation", "suffix": "no-failing-input-found"})
        return viol[:3]


PROPERTY = C14


# ---------------------------------------------------------------------------------------------
# Second tie for has_ls_param_or_annotation (appended; harness/gen_ast.py, Proofs/AstFeaturesEquiv.v): its SOURCE
# TEXT is translated on every run by a fail-closed AST translator, and the kernel re-checks that - with
# inspect.signature / islice / next / typing.get_type_hints as oracles answering as the signature g does - it
# returns Model/Dispatch.v's has_ls_g g.  Imported late ("Module::theorem").
import sys as _sys
_sys.path.insert(0, os.path.dirname(os.path.abspath(__file__)))
import gen_c14 as _gen_c14

C14.obligations = list(C14.obligations) + ["Proofs.AstFeaturesEquiv::ast_has_ls_equiv"]
C14.coq_targets = list(C14.coq_targets) + ["Proofs/AstFeaturesEquiv.vo"]
_prev_regenerate14 = getattr(C14, "regenerate", None)


def _regenerate14(self, chk):
    try:
        if _prev_regenerate14 is not None:
            _prev_regenerate14(self, chk)
    finally:
        with core._Lock("coq"):                                      # coq/Gen is shared
            try:
                _gen_c14.main()
            finally:
                core._coq_make(["Proofs/AstFeaturesEquiv.vo"])


C14.regenerate = _regenerate14

# Link theorem Workspace.v <-> Dispatch.v (coq/Proofs/LinkWorkspaceDispatch.v): the snapshot a chained
# user handler sees is `abs` of C10's post-state
C14.obligations = list(C14.obligations) + ["Proofs.LinkWorkspaceDispatch::" + n for n in (
    "link_workspace_dispatch", "link_snapshot", "link_reference", "link_nonvacuous")]
C14.coq_targets = list(C14.coq_targets) + ["Proofs/LinkWorkspaceDispatch.vo"]
