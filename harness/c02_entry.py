"""The read loops reached the way pygls' servers and client reach them (C02 / C15 runtime tie).

Entry points driven, each with chunked delivery (pieces inside headers and bodies, pauses between
pieces, bodies larger than the pipe capacity):
  server-stdio-args     JsonRPCServer.start_io(stdin=BufferedReader(pipe), stdout=...)
  server-stdio-default  start_io() with sys.stdin / sys.stdout patched to pipe-backed objects
  server-sync           the private sync variant of start_io (harness/priv.py) (stdin=BufferedReader(pipe), stdout=...)
  server-tcp            start_tcp on a real socket, a raw socket client sending the pieces
  client-stdio          JsonRPCClient.start_io(<python> servers/c02_emitter.py spec): the child writes the pieces
  client-tcp            JsonRPCClient.start_tcp against a listening socket that sends the pieces
Observation at the handler: a feature registered for the notification "t/n" records (i, d) of every
payload; bodies are canonical JSON, so the payload is the body.  Expected: exactly the payloads
sent, once each, in order (Props/C02.v clause iii), and the entry point returns."""
import asyncio, hashlib, io, json, logging, os, socket, subprocess, sys, tempfile, threading, time
import core
import priv

EMITTER = os.path.join(core.ROOT, "harness", "servers", "c02_emitter.py")
CLP = b"Content-Length: "


def note(i, d):
    return json.dumps({"jsonrpc": "2.0", "method": "t/n", "params": {"i": i, "d": d}},
                      ensure_ascii=False, separators=(",", ":")).encode("utf-8")


def frame(body, lay=0):
    cl = CLP + str(len(body)).encode() + b"\r\n"
    ct = b"Content-Type: application/vscode-jsonrpc; charset=utf-8\r\n"
    return (cl if lay == 0 else cl + ct if lay == 1 else ct + cl) + b"\r\n" + body


def digest(d):
    return [len(d), hashlib.sha1(d.encode("utf-8", "surrogatepass")).hexdigest()[:12]]


def sessions(rng, big):
    """name -> (payload strings, pieces to write with a pause after each)."""
    out = {}
    small = ["", "plain ascii", "café € \U0001F60B", "Content-Length: 3\r\n\r\n{}", "x" * 300,
             "e\u0301 \u1100\u1161\u11a8 \u212b \U0001D15E \ufb01"]          # not NFC-normalised: must arrive as sent
    data = b"".join(frame(note(i, d), i % 3) for i, d in enumerate(small))
    cuts = sorted(rng.sample(range(1, len(data)), 7))
    out["small-random-pieces"] = (small, [data[a:b] for a, b in zip([0] + cuts, cuts + [len(data)])])
    # every body delivered in two pieces, the pause in the middle of the body
    pieces = []
    for i, d in enumerate(small):
        f = frame(note(i, d), (i + 1) % 3)
        mid = len(f) - max(1, len(note(i, d)) // 2)
        pieces += [f[:mid], f[mid:]]
    out["pause-inside-each-body"] = (small, pieces)
    if big:
        bigs = ["a", "ü" * 35000 + "z", "b", "q" * 204800, "c"]          # 70 KB and 200 KB bodies
        data = b"".join(frame(note(i, d), i % 3) for i, d in enumerate(bigs))
        step = 50000
        out["bodies-over-64KiB-in-pieces"] = (bigs, [data[i:i + step] for i in range(0, len(data), step)])
    return out


def burst_sessions():
    """Peers that write N frames back to back and are gone at once: name -> (payloads, pieces)."""
    out = {}
    for n in (1, 20, 200):
        pl = ["m%d \u20ac" % i for i in range(n)]
        out["burst-%d-small" % n] = (pl, [b"".join(frame(note(i, d), i % 3) for i, d in enumerate(pl))])
    pl = [("L%d " % i) + "\u00fc" * 2000 for i in range(20)]
    data = b"".join(frame(note(i, d), i % 3) for i, d in enumerate(pl))
    out["burst-20-large"] = (pl, [data[:30000], data[30000:]])
    return out


def expected(payloads):
    return [[i, digest(d)] for i, d in enumerate(payloads)]


def _recorder(rec):
    def on_note(params):
        get = (lambda k: params.get(k)) if isinstance(params, dict) else (lambda k: getattr(params, k, None))
        rec.append([get("i"), digest(get("d") if isinstance(get("d"), str) else repr(get("d")))])
    return on_note


class _Sink:
    """stdout of a stdio server: swallows what the server writes."""
    def write(self, b):
        return len(b)

    def flush(self):
        pass

    def close(self):
        pass


def _write_pieces(write, pieces, pause):
    for p in pieces:
        write(p)
        time.sleep(pause)


def _fd_write_all(fd, data, deadline=15.0):
    """Write everything to a NON-BLOCKING fd; gives up (OSError) when the reader stops taking bytes."""
    mv, end = memoryview(data), time.monotonic() + deadline
    while mv:
        try:
            n = os.write(fd, mv)
        except BlockingIOError:
            if time.monotonic() > end:
                raise OSError("peer does not read")
            time.sleep(0.0005)
            continue
        mv = mv[n:]


def run_server_stdio(mode, payloads, pieces, pause, bound=20.0):
    """mode: server-stdio-args | server-stdio-default | server-sync"""
    from pygls.lsp.server import LanguageServer
    srv = LanguageServer("c02-entry", "1")
    rec = []
    srv.feature("t/n")(_recorder(rec))
    r, w = os.pipe()
    os.set_blocking(w, False)
    rd = os.fdopen(r, "rb")                       # a BufferedReader, as sys.stdin.buffer is
    res = {}
    start_sync = priv.start_io_sync(srv)          # located here, outside the observed call

    def serve():
        try:
            if mode == "server-stdio-args":
                srv.start_io(stdin=rd, stdout=_Sink())
            elif mode == "server-sync":
                start_sync(rd, _Sink())
            else:
                srv.start_io()
            res["ret"] = "returns"
        except BaseException as e:      # noqa
            res["ret"] = "raise:" + type(e).__name__
    saved = (sys.stdin, sys.stdout)
    if mode == "server-stdio-default":
        sys.stdin = type("In", (), {"buffer": rd})()
        sys.stdout = type("Out", (), {"buffer": _Sink(), "write": lambda self, s: len(s), "flush": lambda self: None})()
    th = threading.Thread(target=serve, daemon=True)
    try:
        th.start()
        try:
            _write_pieces(lambda p: _fd_write_all(w, p), pieces, pause)
        except OSError:
            pass
        os.close(w)
        th.join(bound)
    finally:
        sys.stdin, sys.stdout = saved
    if th.is_alive():
        res["ret"] = "hang"
        try:
            rd.close()
        except Exception:
            pass
    else:
        rd.close()
    return {"received": rec, "ret": res.get("ret", "hang")}


def free_port():
    s = socket.socket()
    s.bind(("127.0.0.1", 0))
    p = s.getsockname()[1]
    s.close()
    return p


def run_server_tcp(payloads, pieces, pause, bound=20.0):
    from pygls.lsp.server import LanguageServer
    srv = LanguageServer("c02-entry", "1")
    rec = []
    srv.feature("t/n")(_recorder(rec))
    port = free_port()
    res = {}

    def serve():
        try:
            srv.start_tcp("127.0.0.1", port)
            res["ret"] = "returns"
        except BaseException as e:      # noqa
            res["ret"] = "raise:" + type(e).__name__
    th = threading.Thread(target=serve, daemon=True)
    th.start()
    sock, end = None, time.time() + 10
    while sock is None:
        try:
            sock = socket.create_connection(("127.0.0.1", port), timeout=2)
        except OSError:
            if time.time() > end:
                return {"received": rec, "ret": "no-connection"}
            time.sleep(0.02)
    try:
        sock.settimeout(bound)
        _write_pieces(sock.sendall, pieces, pause)
        sock.shutdown(socket.SHUT_WR)
        while sock.recv(65536):
            pass
    except OSError:
        pass                                    # a server that hangs up on us: judged by what it delivered
    finally:
        sock.close()
    th.join(bound)
    return {"received": rec, "ret": res.get("ret", "hang") if not th.is_alive() else "hang"}


def run_client(mode, payloads, pieces, pause, bound=20.0, abrupt=None):
    """mode: client-stdio | client-tcp.  The client is the receiving side."""
    from pygls.lsp.client import LanguageClient
    rec = []
    want = len(payloads)
    spec = None
    lsock = None
    if mode == "client-stdio":
        fd, spec = tempfile.mkstemp(prefix="c02_emit_", suffix=".json", dir=os.path.join(core.ROOT, "work", "C02"))
        with os.fdopen(fd, "w") as f:
            json.dump({"pause": pause, "pieces": [p.hex() for p in pieces], "exit": abrupt}, f)
    else:
        lsock = socket.socket()
        lsock.bind(("127.0.0.1", 0))
        lsock.listen(1)
        port = lsock.getsockname()[1]

        def peer():
            try:
                c, _ = lsock.accept()
                c.settimeout(bound)
                _write_pieces(c.sendall, pieces, pause)
                if abrupt is None:
                    time.sleep(0.3)              # let the client read everything before the close
                c.close()
            except OSError:
                pass
        pt = threading.Thread(target=peer, daemon=True)
        pt.start()

    async def main():
        client = LanguageClient("c02-entry-client", "1")
        client.feature("t/n")(_recorder(rec))
        if mode == "client-stdio":
            await client.start_io(core.PY, EMITTER, spec)
        else:
            await client.start_tcp("127.0.0.1", port)
        end = time.monotonic() + bound
        # everything must have been delivered by the time the client reports that it has stopped
        while len(rec) < want and not client.stopped and time.monotonic() < end:
            await asyncio.sleep(0.01)
        await asyncio.sleep(0.05)                # anything delivered twice / too much shows up here
        try:
            await asyncio.wait_for(client.stop(), timeout=bound)
            return "returns"
        except asyncio.TimeoutError:
            return "hang"
        except BaseException as e:      # noqa
            return "raise:" + type(e).__name__
    try:
        ret = asyncio.run(main())
    finally:
        if spec:
            try:
                os.remove(spec)
            except OSError:
                pass
        if lsock is not None:
            lsock.close()
    return {"received": rec, "ret": ret}


ENTRY_POINTS = ("server-stdio-args", "server-stdio-default", "server-sync", "server-tcp", "client-stdio", "client-tcp")


def run_entry(mode, payloads, pieces, pause, abrupt=None):
    logging.disable(logging.CRITICAL)
    if mode.startswith("client"):
        return run_client(mode, payloads, pieces, pause, abrupt=abrupt)
    if mode.startswith("server-stdio") or mode == "server-sync":
        return run_server_stdio(mode, payloads, pieces, pause)
    if mode == "server-tcp":
        return run_server_tcp(payloads, pieces, pause)
    return run_client(mode, payloads, pieces, pause)


def check(chk):
    """-> (violations, number of cases).  Quick: every entry point x 3 sessions."""
    viol, n = [], 0
    ss = sessions(chk.rng, True)
    for name, (payloads, pieces) in ss.items():
        for mode in ENTRY_POINTS:
            if chk.quick and mode in ("client-stdio",) and name == "small-random-pieces":
                continue                           # one subprocess less in the quick tier
            pause = 0.003 if len(pieces) > 12 else 0.01
            n += 1
            getattr(chk, "progress", lambda d: None)({"k": "entry-point", "entry": mode, "session": name})
            try:
                impl = run_entry(mode, payloads, pieces, pause)
            except Exception as e:      # noqa
                impl = {"received": [], "ret": "harness-error:" + type(e).__name__ + ":" + str(e)[:120]}
            S = {"received": expected(payloads), "ret": "returns"}
            if impl != S:
                got = impl["received"]
                viol.append({"case": {"k": "entry-point", "entry": mode, "session": name,
                                      "pieces": [len(p) for p in pieces][:40]},
                             "impl": {"ret": impl["ret"], "n_received": len(got), "received_head": got[:8]},
                             "S": {"ret": "returns", "n_received": len(payloads), "received_head": S["received"][:8]},
                             "verdict": "violation"})
    # peers that write N frames and are gone at once (a server process that exits with status 0 / 1 right
    # after its last flush; a socket closed right after the last byte; a pipe closed at once)
    bs = burst_sessions()
    plan = []
    for j, (name, (payloads, pieces)) in enumerate(bs.items()):
        for mode in ENTRY_POINTS:
            if chk.quick:
                keep = (mode == "client-stdio") or (name in ("burst-200-small", "burst-20-large") and
                                                    mode in ("client-tcp", "server-tcp", "server-stdio-args", "server-sync"))
                if not keep:
                    continue
            for status in ((0, 1) if (mode == "client-stdio" and not chk.quick) else ((j + 1) % 2,)):
                plan.append((name, mode, status, payloads, pieces))
    for name, mode, status, payloads, pieces in plan:
        n += 1
        getattr(chk, "progress", lambda d: None)({"k": "entry-point", "entry": mode, "session": name, "peer": "gone-at-once"})
        try:
            impl = run_entry(mode, payloads, pieces, 0.0, abrupt=status)
        except Exception as e:      # noqa
            impl = {"received": [], "ret": "harness-error:" + type(e).__name__ + ":" + str(e)[:120]}
        S = {"received": expected(payloads), "ret": "returns"}
        if impl != S:
            got = impl["received"]
            viol.append({"case": {"k": "entry-point", "entry": mode, "session": name, "peer": "gone-at-once",
                                  "exit_status": status if mode == "client-stdio" else None},
                         "impl": {"ret": impl["ret"], "n_received": len(got), "received_tail": got[-3:]},
                         "S": {"ret": "returns", "n_received": len(payloads), "received_tail": S["received"][-3:]},
                         "verdict": "violation"})
    return viol, n
