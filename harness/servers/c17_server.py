"""Scripted server process for C17 (plain Python, no pygls): speaks LSP framing over stdio.

argv[1] is a JSON script:
  k        exit after the k-th received message (0 = before reading anything)
  exit     "0" | "1" | "kill"   (status 0, status 1, SIGKILL on itself)
  answers  {"<n>": ["result", payload] | ["error", code] | ["bad", kind]}  reply to the n-th message
           (1-based) if it is a request; replies to messages n < k are written at once, the reply to
           message k (a "late" reply, racing with the exit) just before the tail.  "bad" replies name
           the request but cannot be decoded / are not accepted by the client:
             errshape  "error" member that is not an error object
             version   a result under another protocol version ("jsonrpc": "1.0")
             badresult a result of the wrong shape for a typed method (a Hover whose range is a number)
  srvreq   number of requests ("c17/slow", ids "srv-0", ...) sent to the client right after start;
           the client's answers to them (messages without a "method") are read but not counted
  pre      list of byte strings (latin-1) written right after start (complete items: bad frames, junk)
  tail     byte string (latin-1) written just before exiting (partial header / partial body / junk / "")
"""
import json, os, signal, sys


def frame(obj):
    body = json.dumps(obj).encode()
    return b"Content-Length: %d\r\n\r\n" % len(body) + body


def read_message(inp):
    n = None
    while True:
        line = inp.readline()
        if not line:
            return None
        if line.lower().startswith(b"content-length:"):
            n = int(line.split(b":")[1])
        elif not line.strip() and n is not None:
            body = inp.read(n)
            if len(body) < n:
                return None
            return json.loads(body)


def main():
    sc = json.loads(sys.argv[1])
    out = sys.stdout.buffer
    inp = sys.stdin.buffer

    def die():
        tail = sc.get("tail", "")
        if tail:
            out.write(tail.encode("latin-1"))
        out.flush()
        kind = sc.get("exit", "0")
        if kind == "kill":
            os.kill(os.getpid(), signal.SIGKILL)
        os._exit(int(kind))

    for j in range(sc.get("srvreq", 0)):
        out.write(frame({"jsonrpc": "2.0", "id": "srv-%d" % j, "method": "c17/slow", "params": {"j": j}}))
    for p in sc.get("pre", []):
        out.write(p.encode("latin-1"))
    out.flush()
    k = sc.get("k", 0)
    if k == 0:
        die()
    n = 0
    while True:
        msg = read_message(inp)
        if msg is None:          # the client went away: never outlive it
            os._exit(3)
        if "method" not in msg:  # an answer to one of our requests
            continue
        n += 1
        a = sc.get("answers", {}).get(str(n))
        if a is not None and "id" in msg:
            if a[0] == "result":
                out.write(frame({"jsonrpc": "2.0", "id": msg["id"], "result": a[1]}))
            elif a[0] == "bad":
                if a[1] == "errshape":
                    out.write(frame({"jsonrpc": "2.0", "id": msg["id"], "error": "boom"}))
                elif a[1] == "version":
                    out.write(frame({"jsonrpc": "1.0", "id": msg["id"], "result": 1}))
                else:
                    out.write(frame({"jsonrpc": "2.0", "id": msg["id"], "result": {"contents": "x", "range": 3}}))
            else:
                out.write(frame({"jsonrpc": "2.0", "id": msg["id"],
                                 "error": {"code": a[1], "message": "scripted"}}))
            out.flush()
        if n == k:
            die()


main()
