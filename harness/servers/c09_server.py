"""A real pygls LanguageServer for the C09 runtime tie (subprocess, PYTHONPATH=$VERIF_REPO).

  c09_server.py stdio        -> server.start_io()            (sys.stdin / sys.stdout)
  c09_server.py stdio-sync   -> the private sync entry point (the wrapper start_io uses under WASM;
                                located by harness/priv.py)
  c09_server.py tcp <port>   -> server.start_tcp("127.0.0.1", port)

Written the way a user writes a server script: the start_* call is the last statement, the process
status is whatever the interpreter makes of how that call ends.  Features (same names as
harness/sched.py): t/sync returns at once; t/async parks on a sleep that only a cancellation or
the teardown of the loop ends; t/thread holds a pool thread for a short, bounded time.
Reports on stderr, one line each, flushed: "START <method>" / "END <method>" / "CANCEL <method>"
per handler, and at interpreter exit "ATEXIT stop=<0|1> pool=<0|1>" (was JsonRPCServer.shutdown()
run: stop event set, thread pool shut down)."""
import asyncio, atexit, logging, os, sys, time
logging.disable(logging.CRITICAL)
from pygls.lsp.server import LanguageServer
sys.path.insert(0, os.path.dirname(os.path.dirname(os.path.abspath(__file__))))
import priv          # private parts of pygls (the parent check has resolved the same names before it starts us)
priv.preflight(["server.stop_event", "server.start_io_sync"])     # now: no probing at interpreter exit


def log(s):
    try:
        sys.stderr.write(s + "\n")
        sys.stderr.flush()
    except Exception:
        pass


server = LanguageServer("c09-server", "1")
pool = server.thread_pool            # created up front, so that shutdown() has a pool to shut down


@server.feature("t/sync")
def h_sync(*args):
    log("START t/sync")
    log("END t/sync")
    return 7


@server.feature("t/async")
async def h_async(*args):
    log("START t/async")
    try:
        await asyncio.sleep(30)
    except asyncio.CancelledError:
        log("CANCEL t/async")
        raise
    log("END t/async")
    return 8


@server.feature("t/thread")
@server.thread()
def h_thread(*args):
    log("START t/thread")
    time.sleep(0.4)
    log("END t/thread")
    return 9


@server.command("c.sync")
def c_sync(*args):
    log("START c.sync")
    log("END c.sync")
    return 1


def state():
    ev = priv.stop_event(server)
    stop = int(ev is not None and ev.is_set())
    # ThreadPoolExecutor.shutdown() was called: the executor's own flag (CPython's concurrent.futures, not
    # pygls; at interpreter exit every executor refuses work, so submit() cannot tell)
    down = int(bool(getattr(pool, "_shutdown", False)))
    return "stop=%d pool=%d" % (stop, down)


atexit.register(lambda: log("ATEXIT " + state()))

if sys.argv[1] == "tcp":
    server.start_tcp("127.0.0.1", int(sys.argv[2]))
elif sys.argv[1] == "stdio-sync":
    priv.start_io_sync(server)()
else:
    server.start_io()
