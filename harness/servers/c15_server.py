"""A real pygls LanguageServer for the C15 runtime tie (run as a subprocess with PYTHONPATH=$VERIF_REPO).
  c15_server.py tcp <port>   -> server.start_tcp("127.0.0.1", port)
  c15_server.py stdio        -> server.start_io()  (sys.stdin / sys.stdout)
Reports on stderr, one line each, flushed:  "H" per message handed to protocol.handle_message,
"T" per completed @thread handler of the notification "t/slow" (30 ms each, ONE pool worker, so frames sent
back to back leave a backlog of queued handlers at the disconnect),
"RETURNED stop=<0|1> pool=<0|1>" when the start_* call returns, "RAISED <type>" when it raises."""
import logging, os, sys, time
from concurrent.futures import ThreadPoolExecutor
logging.disable(logging.CRITICAL)
from pygls.lsp.server import LanguageServer
sys.path.insert(0, os.path.dirname(os.path.dirname(os.path.abspath(__file__))))
import priv          # private parts of pygls (the parent check has resolved the same names before it starts us)
priv.preflight(["server.stop_event", "server.thread_pool"])       # now: no probing after the loop has ended


def log(s):
    sys.stderr.write(s + "\n")
    sys.stderr.flush()


server = LanguageServer("c15-server", "1")
_orig = server.protocol.handle_message


def counting(message):
    log("H")
    return _orig(message)


server.protocol.handle_message = counting


@server.thread()
@server.feature("t/slow")
def slow(params):
    time.sleep(0.03)
    log("T")


# ONE worker (LanguageServer(max_workers=..) does not reach JsonRPCServer on this HEAD), created up front,
# so that shutdown() has a pool to shut down
priv.set_thread_pool(server, ThreadPoolExecutor(max_workers=1))
pool = server.thread_pool


def state():
    ev = priv.stop_event(server)
    stop = int(ev is not None and ev.is_set())
    try:
        pool.submit(lambda: None)
        down = 0
    except RuntimeError:
        down = 1
    return "stop=%d pool=%d" % (stop, down)


try:
    if sys.argv[1] == "tcp":
        server.start_tcp("127.0.0.1", int(sys.argv[2]))
    else:
        server.start_io()
    log("RETURNED " + state())
except BaseException as e:            # noqa
    log("RAISED %s %s" % (type(e).__name__, state()))
    sys.exit(3)
