"""A real pygls LanguageServer over real stdio for the C05 runtime family "requester blocked inside a
thread-pool handler" (subprocess, PYTHONPATH=$VERIF_REPO; public API only).

Written the way a user writes it: a `@server.thread()` handler sends a request to the peer and blocks
on `future.result(timeout)`; it answers with what it got.  The thread pool is the server's default
one (its sizing is what this family decides).  C05_TIMEOUT bounds the wait of a handler."""
import logging, os, sys
logging.disable(logging.CRITICAL)
from pygls.lsp.server import LanguageServer

_timeout = float(os.environ.get("C05_TIMEOUT", "4"))
server = LanguageServer("c05-stdio", "1")


def plain(v):
    """The decoded result as plain JSON (objects of untyped results are namedtuples)."""
    if isinstance(v, tuple) and hasattr(v, "_asdict"):
        return {k: plain(x) for k, x in v._asdict().items()}
    if isinstance(v, dict):
        return {k: plain(x) for k, x in v.items()}
    if isinstance(v, (list, tuple)):
        return [plain(x) for x in v]
    return v


@server.feature("t/ask")
@server.thread()
def ask(params):
    fut = server.protocol.send_request("peer/ask", {"q": params.q})
    try:
        r = fut.result(timeout=_timeout)
        return {"q": params.q, "res": plain(r), "exc": None}
    except BaseException as exc:
        return {"q": params.q, "res": None, "exc": type(exc).__name__,
                "code": getattr(exc, "code", None), "message": getattr(exc, "message", None),
                "data": getattr(exc, "data", None)}


server.start_io()
