"""A scripted 'server' for the C06 client run: writes the frames given as hex on argv[1] to stdout,
then waits for its stdin to close (or 5 s) and exits 0."""
import sys, select
data = bytes.fromhex(sys.argv[1])
sys.stdout.buffer.write(data)
sys.stdout.buffer.flush()
select.select([sys.stdin], [], [], 5)
