"""A real pygls LanguageServer for the C06 end-to-end runs (subprocess, PYTHONPATH=$VERIF_REPO).
  c06_server.py stdio <hook>        -> server.start_io()      (sys.stdin / sys.stdout)
  c06_server.py tcp <port> <hook>   -> server.start_tcp("127.0.0.1", port)
hook = default | quiet | raises.  One line on stderr per call of report_server_error ("E <source>"),
per handled request ("H <id>"), and "RETURNED" / "RAISED <type>" when start_* comes back."""
import logging, sys
logging.disable(logging.CRITICAL)
from pygls.lsp.server import LanguageServer

mode = sys.argv[1]
hook = sys.argv[-1]


def log(s):
    sys.stderr.write(s + "\n")
    sys.stderr.flush()


class Server(LanguageServer):
    def report_server_error(self, error, source):
        log("E " + getattr(source, "__name__", str(source)))
        if hook == "default":
            return super().report_server_error(error, source)
        if hook == "raises":
            raise RuntimeError("scripted hook failure")


server = Server("c06-server", "1")


@server.feature("t/echo")
def echo(params):
    x = params["x"] if isinstance(params, dict) else params.x
    log("H %s" % x)
    return x


SHAPES = {"no-args": lambda: RuntimeError(), "broken-pipe": lambda: BrokenPipeError(32, "Broken pipe"),
          "conn-refused": lambda: ConnectionRefusedError(), "conn-reset": lambda: ConnectionResetError("reset")}


def shape(params):
    x = params["x"] if isinstance(params, dict) else getattr(params, "x", 0)
    return SHAPES.get(x, lambda: RuntimeError("scripted failure"))()


@server.feature("t/boom")
def boom(params):
    raise shape(params)


@server.feature("t/aboom")
async def aboom(params):
    raise shape(params)


try:
    if mode == "tcp":
        server.start_tcp("127.0.0.1", int(sys.argv[2]))
    else:
        server.start_io()
    log("RETURNED")
except BaseException as e:            # noqa
    log("RAISED %s" % type(e).__name__)
    sys.exit(3)
