"""Stands where a language server process stands for JsonRPCClient.start_io: writes the pieces named in
the JSON spec file (argv[1]: {"pause": seconds, "pieces": [hex,...]}) to stdout, one by one, flushing and
pausing after each, then closes stdout and lingers briefly so that the client reads EOF before the exit -
or, with "exit": <status> in the spec, exits with that status IMMEDIATELY after the last flush."""
import json, os, sys, time
spec = json.load(open(sys.argv[1]))
out = sys.stdout.buffer
for h in spec["pieces"]:
    out.write(bytes.fromhex(h))
    out.flush()
    time.sleep(spec["pause"])
if spec.get("exit") is not None:
    # a server that writes its last messages and is gone at once: no close, no lingering
    os._exit(int(spec["exit"]))
out.close()
try:
    os.close(1)
except OSError:
    pass
time.sleep(0.3)
os._exit(0)
