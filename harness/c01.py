"""C01 - every request gets exactly one response; notifications get none.

The real LanguageServer is driven event by event by harness/sched.py; the same event list goes
through the extracted Model/Endpoint.v (bin/c01_driver).  After EVERY event the two observations
are compared (impl = M); the reference Spec/EndpointSpec.v (`expected`, `exact`) judges the frames
the real endpoint wrote (impl |= S)."""
import copy
import json
import os

import core
import sched
import priv

IDS = [0, 1, 2 ** 53, "", "0", "1", "a"]
F18 = "F18-thread-awaitable-writer"


def B(k, o, n=0, early=False, r="prop"):
    b = {"k": k, "o": o, "r": r}
    if k == "async":
        b["n"] = n
    if k == "thread":
        b["early"] = early
    return b


@priv.in_worker
def _run_one(case):
    try:
        return sched.run_case(case)
    except priv.Unresolvable:       # a failure of the harness, not an observation of pygls
        raise
    except BaseException as ex:     # noqa
        return ["raise", type(ex).__name__, str(ex)[:200]]


def query(cmd, cases, drv="C01"):
    """Ask the model driver about the state reached by each case."""
    if not cases:
        return []
    outs = core.run_driver(drv, [sched.encode_case(c, cmd) for c in cases])
    return [sched.parse_evs(o) for o in outs]


class C01(core.Property):
    id = "C01"
    modules = ["Proofs.EndpointInv", "Proofs.EndpointLax", "Proofs.C01Proofs", "Props.C01"]
    obligations = ["inv_init", "inv_step", "inv_step_full", "inv_run", "post_send_response", "post_run_cb",
                   "post_cancel_ref", "handle_request_bal", "recv_inv", "seen_is_expected", "shutdown_is_reference",
                   "balance_run", "at_most_one_reply", "reply_answers_request", "exactly_one_at_quiescence",
                   "exactly_one_distinct", "enabled_decreases", "drain_quiescent", "quiescence_reachable",
                   "lax_step", "lax_run", "at_most_one_reply_all", "reply_names_a_request_all", "C01_safety",
                   "C01_core_partial", "C01_live_partial", "C01_partial", "C01_refuted_thread_awaitable",
                   "C01_refuted", "C01_nonvacuous", "C01_reference_agrees", "C01_model_outside_domain"]
    coq_targets = ["Props/C01.vo", "Extract/ExtractC01.vo"]
    rule = ("a scenario is 1-4 requests over kind x outcome (+ unknown method, undecodable / missing params, "
            "commands, shutdown/exit, cancels, notifications, garbage, responses) under a random enabled "
            "interleaving ended by a drain, on both writer kinds; non-trivial = at least one async/thread request "
            "with at least one other event between its arrival and its reply")
    trusted_base = ["Coq 8.16.1 kernel incl. vm_compute (refutation witness, Examples)",
                    "extraction with ExtrOcamlBasic only + ocaml/c01_driver.ml + conv_io/n/z/nat",
                    "harness/sched.py (ready-queue interposition on a private asyncio loop with _PyTask, duck-typed "
                    "pool and writers, frame decoder) and harness/c01.py (generators, canonicalisation)",
                    "modelled not verified: asyncio task/cancel semantics, concurrent.futures.Future, dict order, "
                    "json.dumps failing on an unserialisable value, cattrs structuring as an oracle (POk/PBad/PFail)",
                    priv.trusted(sched.PRIVATE)]
    private = sched.PRIVATE
    assumptions = ["handler_codes_int32: a request handler that raises a JsonRpcException uses an int32 code; outside, the "
                   "real endpoint sends no reply (C07 finding wide-own-code) and the model is not claimed faithful - the "
                   "generators stay inside (boundary codes 2^31-1 and -2^31 included)",
                   "request ids are JSON ints or strings, pairwise distinct among incoming requests (clause 1)",
                   "disjoint_directions: a peer response never names an in-flight incoming request (row 21)",
                   "one writer.write call is atomic; a pool work item starts and finishes as two atomic events"]

    # ---------------------------------------------------------------- scenarios
    def _behav(self, rng, kind=None, request=True):
        k = kind or rng.choice(["sync", "async", "async", "thread", "thread"])
        o = rng.choice([["ret", rng.choice([0, 1, 7, -3])], ["ret", 5], ["raise"], ["rpc", rng.choice([-32001, -32602, 0, 5, -32601, 2 ** 31 - 1, -2 ** 31])],
                        ["unser"]])
        return B(k, o, n=rng.choice([0, 1, 1, 2, 3]), early=rng.random() < 0.25,
                 r=rng.choice(["prop", "prop", "swallow"]))

    def _scenario(self, rng, small=False):
        cfg = {"writer": rng.choice(["blocking", "awaitable"]),
               "hook": rng.choice(["default", "default", "quiet", "raises"]), "wfail": None}
        if not small and rng.random() < 0.04:
            cfg["wfail"] = rng.randint(0, 3)
        ids = list(IDS)
        rng.shuffle(ids)
        nreq = rng.randint(1, 3 if small else 4)
        msgs = []
        used = []
        chained_kind = {}

        def ub(name):
            # a user feature registered under a built-in's name exists for the whole case
            if name not in chained_kind:
                chained_kind[name] = rng.choice(["sync", "async", "thread"]) if rng.random() < 0.3 else None
            k = chained_kind[name]
            return self._behav(rng, k) if k else None
        has_init = False
        for _ in range(nreq):
            i = ids.pop() if (rng.random() > 0.03 or not used) else rng.choice(used)
            used.append(i)
            x = rng.random()
            ver = rng.random() > 0.04
            mn = None
            if x < 0.55:
                m, ps = ["user", self._behav(rng)], "ok"
            elif x < 0.65:
                m, ps = ["unknown", rng.choice([0, 1, 2])], "ok"
                mn = rng.randrange(10 ** 6) if rng.random() < 0.8 else None
            elif x < 0.75:
                m, ps = ["unknown", 0], rng.choice(["bad", "bad", "fail"])
            elif x < 0.90:
                m, ps = ["command", self._behav(rng) if rng.random() < 0.8 else None, ub("workspace/executeCommand")], "ok"
            else:
                m, ps = ["builtin", False, ub("initialize")], "ok"
                has_init = True
            msgs.append(["recv", {"t": "req", "id": i, "ver": ver, "ps": ps, "m": m, "np": rng.random() < 0.3}])
            if mn is not None:
                msgs[-1][1]["mn"] = mn          # the unknown method's name on the wire (sched.UNKNOWN_NAMES)
        # cancels
        for _ in range(rng.choice([0, 0, 1, 1, 2, 3])):
            x = rng.random()
            if x < 0.6:
                tgt = rng.choice(used)
            elif x < 0.8:
                tgt = rng.choice(used)
                tgt = str(tgt) if isinstance(tgt, int) else (int(tgt) if tgt.isdigit() else 1)
            else:
                tgt = rng.choice(IDS)
            pos = rng.randint(0, len(msgs))
            msgs.insert(pos, ["recv", {"t": "notif", "tag": 100 + len(msgs), "ver": True, "ps": "ok", "m": ["cancel", tgt]}])
        # notifications and noise
        tag = 0
        for _ in range(rng.choice([0, 0, 1, 2])):
            tag += 1
            x = rng.random()
            if x < 0.35:
                m, ps = ["user", self._behav(rng, request=False)], "ok"
            elif x < 0.45:
                m, ps = ["unknown"], "ok"
            elif x < 0.6:
                m, ps = ["builtin", False, ub(sched.BUILTIN_OK)], "ok"
            elif x < 0.7 and not has_init:
                m, ps = ["builtin", True, None], "ok"
            elif x < 0.85:
                m, ps = ["unknown"], rng.choice(["bad", "fail"])
            else:
                msgs.insert(rng.randint(0, len(msgs)), ["recv", {"t": "garbage", "v": rng.randint(0, 7)}])
                continue
            fr = {"t": "notif", "tag": tag, "ver": rng.random() > 0.05, "ps": ps, "m": m, "np": rng.random() < 0.2}
            if m == ["unknown"] and ps == "ok" and rng.random() < 0.8:
                fr["mn"] = rng.randrange(10 ** 6)
            msgs.insert(rng.randint(0, len(msgs)), ["recv", fr])
        # outgoing request + responses (a response is never answered)
        if rng.random() < 0.15:
            oid = rng.choice(["o1", 900])
            pos = rng.randint(0, len(msgs))
            msgs.insert(pos, ["send", oid])
            for _ in range(rng.choice([1, 1, 2])):
                msgs.insert(rng.randint(pos + 1, len(msgs)),
                            ["recv", {"t": "resp", "id": oid, "ver": rng.random() > 0.1, "err": rng.random() < 0.5,
                                      "ps": "ok"}])
        if rng.random() < 0.12:
            msgs.insert(rng.randint(0, len(msgs)),
                        ["recv", {"t": "resp", "id": rng.choice(["zz", 901]), "ver": True, "err": rng.random() < 0.5,
                                  "ps": rng.choice(["ok", "ok", "bad"])}])
        # shutdown / exit
        if rng.random() < 0.3:
            i = ids.pop()
            pos = rng.randint(max(0, len(msgs) - 3), len(msgs))
            msgs.insert(pos, ["recv", {"t": "req", "id": i, "ver": True, "ps": "ok", "m": ["shutdown", ub("shutdown")]}])
        if rng.random() < 0.15:
            msgs.append(["recv", {"t": "notif", "tag": 99, "ver": True, "ps": "ok", "m": ["exit", ub("exit")]}])
            if rng.random() < 0.4 and ids:
                msgs.append(["recv", {"t": "req", "id": ids.pop(), "ver": True, "ps": "ok", "m": ["user", self._behav(rng)]}])
        return cfg, msgs

    def _interleave(self, chk, scens, maxlen=60):
        """Model-guided random interleaving: at each round the model says which internal events are
        enabled; the next arrival or one of them is chosen (sometimes a disabled one: a no-op)."""
        rng = chk.rng
        st = [{"cfg": cfg, "evs": [], "rest": list(msgs), "done": False} for cfg, msgs in scens]
        for _ in range(maxlen):
            live = [s for s in st if not s["done"]]
            if not live:
                break
            en = query("enabled", live, self.id)
            for s, (evs, _q) in zip(live, en):
                x = rng.random()
                if s["rest"] and (not evs or x < 0.45):
                    s["evs"].append(s["rest"].pop(0))
                elif evs and x < 0.97:
                    s["evs"].append(rng.choice(evs))
                elif evs or s["rest"]:
                    s["evs"].append(rng.choice([["task", rng.randint(0, 3)], ["cb", rng.randint(0, 3)],
                                                ["jstart", rng.randint(0, 2)], ["jfin", rng.randint(0, 2)],
                                                ["write"], ["exitcb"]]))
                else:
                    s["done"] = True
        for s in st:
            s["evs"].extend(s["rest"])
        cases = [{"cfg": s["cfg"], "evs": s["evs"]} for s in st]
        dr = query("drain", cases, self.id)
        for c, (evs, _q) in zip(cases, dr):
            c["evs"] = c["evs"] + evs
        return cases

    def _exhaustive(self, chk, scens, cap):
        """Every interleaving (linear extension of the enabledness order) of each small scenario, by
        breadth-first expansion with the model as the enabledness oracle; scenarios with more than
        `cap` interleavings are sampled instead."""
        out, complete = [], True
        for cfg, msgs in scens:
            frontier = [{"cfg": cfg, "evs": [], "rest": list(msgs)}]
            finished = []
            while frontier:
                en = query("enabled", frontier, self.id)
                nxt = []
                for s, (evs, _q) in zip(frontier, en):
                    choices = list(evs) + ([s["rest"][0]] if s["rest"] else [])
                    if not choices:
                        finished.append({"cfg": cfg, "evs": s["evs"]})
                        continue
                    for ch in choices:
                        if s["rest"] and ch is s["rest"][0]:
                            nxt.append({"cfg": cfg, "evs": s["evs"] + [ch], "rest": s["rest"][1:]})
                        else:
                            nxt.append({"cfg": cfg, "evs": s["evs"] + [ch], "rest": s["rest"]})
                if len(nxt) + len(finished) > cap:
                    complete = False
                    chk.rng.shuffle(nxt)
                    nxt = nxt[:max(1, cap - len(finished))]
                frontier = nxt
            out.extend(finished)
        return out, complete

    def generate(self, chk):
        cases = []
        cdir = os.path.join(core.ROOT, "corpus", "C01")
        if os.path.isdir(cdir):
            for f in sorted(os.listdir(cdir)):
                if f.endswith(".json"):
                    cases.extend(json.load(open(os.path.join(cdir, f))))
        n = chk.n(2000, 30000)
        scens = [self._scenario(chk.rng) for _ in range(n)]
        cases.extend(self._interleave(chk, scens))
        if not chk.quick:
            small = []
            for _ in range(60):
                cfg, msgs = self._scenario(chk.rng, small=True)
                msgs = [m for m in msgs if m[0] == "recv"][:5]
                for m in msgs:
                    for b in self._behavs(m):
                        b["n"] = min(b.get("n", 0), 2)
                small.append((cfg, msgs))
            ex, complete = self._exhaustive(chk, small, 4000)
            self.exhaustive = False
            self.extra_coverage = {"exhaustive_small_scenarios": len(small), "exhaustive_interleavings": len(ex),
                                   "every_small_scenario_complete": complete}
            cases.extend(ex)
        return cases

    @staticmethod
    def _behavs(ev):
        if ev[0] != "recv":
            return []
        m = ev[1].get("m") or []
        return [x for x in m[1:] if isinstance(x, dict)]

    # ---------------------------------------------------------------- implementation
    def run_impl(self, chk, cases):
        if len(cases) < 40:
            return priv.collect(_run_one(c) for c in cases)
        import multiprocessing as mp
        with mp.get_context("fork").Pool(4) as pool:
            return priv.collect(pool.map(_run_one, cases, chunksize=16))

    # ---------------------------------------------------------------- model
    def model_input(self, case):
        return sched.encode_case(case)

    def model_output(self, case, toks):
        obs, summ = sched.parse_run(toks, len(case["evs"]))
        for o in obs:
            o.pop("undef")
            o["hlog"] = [h for h in o["hlog"] if h[1] != "builtin"]
        S = {"owed": summ["owed"], "exact": summ["exact"]}
        wfail = case["cfg"].get("wfail") is not None
        return {"M": {"obs": obs}, "S": None if wfail else S, "guard": summ["tie_guard"],
                "klass": F18 if summ["f18"] else None}

    def same(self, case, impl, M):
        return core.canon(impl) == core.canon(M)

    def satisfies(self, case, impl, S):
        """impl |= S: at every event no id has more replies than the reference owes it, every reply is
        a result XOR an error, and at quiescence of an exit-free history every owed reply is there."""
        if not isinstance(impl, dict) or "obs" not in impl:
            return False
        owed, got = {}, {}
        for o, new in zip(impl["obs"], S["owed"]):
            for i in new:
                owed[core.canon(i)] = owed.get(core.canon(i), 0) + 1
            for f in o["out"]:
                if f[0] == "resp":
                    if f[2] not in ("result", "error"):
                        return False
                    k = core.canon(f[1])
                    got[k] = got.get(k, 0) + 1
                    if got[k] > owed.get(k, 0):
                        return False
                elif f[0] not in ("notif", "req"):
                    return False
        last = impl["obs"][-1] if impl["obs"] else None
        if S["exact"] and last is not None and last["quiescent"]:
            return all(got.get(k, 0) == v for k, v in owed.items())
        return True

    def nontrivial(self, case):
        evs = case["evs"]
        for a, e in enumerate(evs):
            if e[0] == "recv" and e[1]["t"] == "req" and e[1].get("ps") == "ok":
                m = e[1]["m"]
                b = m[1] if m[0] in ("user", "command") else None
                if isinstance(b, dict) and b["k"] in ("async", "thread") and not b.get("early"):
                    if any(x[0] == "recv" for x in evs[a + 1:a + 6]):
                        return True
        return False

    def shrink(self, case):
        evs = case["evs"]
        n = len(evs)
        # drop a tail, then single events: every sublist of a schedule is a schedule
        for k in (n // 2, n // 4):
            if 0 < k < n:
                yield {"cfg": case["cfg"], "evs": evs[:n - k]}
        for a in range(n - 1, -1, -1):
            yield {"cfg": case["cfg"], "evs": evs[:a] + evs[a + 1:]}
        if case["cfg"]["hook"] != "quiet":
            yield {"cfg": dict(case["cfg"], hook="quiet"), "evs": evs}

    def search(self, chk):
        """The tie or a proof broke: look for a history on which the property itself fails."""
        scens = [self._scenario(chk.rng) for _ in range(400)]
        res = core.evaluate(self, chk, self._interleave(chk, scens))
        return [r for r in res if r["S"] is not None and not self.satisfies(r["case"], r["impl"], r["S"])
                and r["verdict"] != "known:" + F18][:1]

    def distribution(self, cases):
        d = {}

        def add(k):
            d[k] = d.get(k, 0) + 1
        for c in cases:
            add("writer/" + c["cfg"]["writer"])
            add("hook/" + c["cfg"]["hook"])
            add("len/%d" % (10 * (len(c["evs"]) // 10)))
            for e in c["evs"]:
                if e[0] != "recv":
                    add("ev/" + e[0])
                    continue
                f = e[1]
                if f["t"] in ("req", "notif"):
                    m = f["m"]
                    add("%s/%s/%s" % (f["t"], f["ps"], m[0]))
                    for b in self._behavs(e):
                        add("handler/%s/%s" % (b["k"], b["o"][0]))
                else:
                    add(f["t"])
        return d


PROPERTY = C01
