#!/usr/bin/env python3
"""Fail-closed AST translator: Python source of the pure core of pygls -> PyMini terms (coq/Gen/Ast*.v).

Reads the SOURCE FILES of the modules found on PYTHONPATH ($VERIF_REPO), picks the named
FunctionDef nodes with Python's `ast` and prints each as a term of the deep embedding
coq/Base/PyMini.v.  coq/Proofs/Ast*Equiv.v import the generated files and prove, for all inputs,
`run (translated f) args = Ok (hand_model_f args)`; the kernel re-checks that on every run against
what the source says now.

Fail-closed: every node type, operator, call form, decorator, parameter kind or global name that is
not in the tables below raises TranslateError naming the node and its line; the check then treats
the tie as broken (DESIGN 1.2(c)).  Nothing is normalised except
  * comments, annotations, docstrings and bare constant expression statements (no run-time effect);
  * `a and b and c` -> `a and (b and c)`, `a < b < c` -> `a < b and b < c` (only when b is a name
    or a constant, so evaluating it twice is the same), `elif` -> nested `if` (as `ast` does);
  * a name is EName when the function binds it (parameter / assignment target: Python's own
    scoping rule), EGlobal otherwise - and an EGlobal must be in the per-module table of globals,
    whose values are asserted by reflection on the imported objects;
  * locals that are not parameters are renamed to "$1", "$2", ... in the order of their first
    binding occurrence (an injective renaming onto names no Python identifier can have; PyMini
    looks locals up by name only, so this cannot change the meaning).  Renaming a local variable
    in the source therefore changes only the comment that lists the mapping.
The output carries no line numbers, so that edits which do not change the AST of the translated
functions leave the generated file byte-identical (and nothing is rebuilt).
"""
import ast, copy, importlib, importlib.util, os, sys

ROOT = os.path.dirname(os.path.dirname(os.path.abspath(__file__)))
GEN = os.path.join(ROOT, "coq", "Gen")


class TranslateError(Exception):
    pass


def fail(node, why):
    line = getattr(node, "lineno", "?")
    raise TranslateError(f"line {line}: {type(node).__name__}: {why}")


# ----------------------------------------------------------------------------------------------
# tables (must agree with coq/Base/PyMini.v)

BUILTINS = {"len", "ord", "min", "max", "isinstance"}            # PyMini.builtin
EXNS = {"IndexError": "IndexError", "TypeError": "TypeError", "ValueError": "ValueError",
        "AttributeError": "AttributeError", "KeyError": "KeyError", "Exception": "ExcOther"}
# exception classes of pygls (imported from pygls.exceptions): ExcUser "<name>"
USER_EXNS = {"ValidationError", "FeatureAlreadyRegisteredError", "CommandAlreadyRegisteredError",
             "ThreadDecoratorError", "MethodTypeNotRegisteredError"}
BINOPS = {ast.Add: "Add", ast.Sub: "Sub", ast.Mult: "Mult"}
CMPOPS = {ast.Eq: "Eq", ast.NotEq: "NotEq", ast.Lt: "Lt", ast.LtE: "LtE", ast.Gt: "Gt", ast.GtE: "GtE",
          ast.Is: "Is", ast.IsNot: "IsNot", ast.In: "CmpIn", ast.NotIn: "CmpNotIn"}


def cstr(s):
    """Coq string literal of an identifier-like Python string."""
    if not s.isascii() or any(ord(c) < 32 or ord(c) > 126 for c in s):
        raise TranslateError(f"name {s!r} is not printable ASCII")
    return '"' + s.replace('"', '""') + '"'


def nlist(s):
    return "[" + "; ".join(str(ord(c)) for c in s) + "]%N"


def clist(items):
    return "[" + "; ".join(items) + "]"


# ----------------------------------------------------------------------------------------------

class ClosureMarker(ast.expr):
    """stands for the function object of a lambda-lifted nested def"""
    _fields = ()

    def __init__(self, q, captured, lineno):
        super().__init__()
        self.q, self.captured, self.lineno = q, captured, lineno


def lift_nested(fn, cls):
    """nested `def g(*a, **k)` directly in the body of method fn -> (fn', [(g, lifted FunctionDef)]).
    The lifted function takes the captured variables (parameters of fn that neither function ever
    assigns; `self` first) and then *a, **k as ordinary parameters holding a tuple and a dict."""
    nested = [n for n in fn.body if isinstance(n, (ast.FunctionDef, ast.AsyncFunctionDef))]
    if not nested:
        return fn, []
    if cls is None:
        fail(nested[0], "nested definition outside a method")
    params = [a.arg for a in fn.args.args]
    outer_stores = {n.id for st in fn.body if st not in nested for n in ast.walk(st)
                    if isinstance(n, ast.Name) and isinstance(n.ctx, (ast.Store, ast.Del))}
    fn2 = copy.copy(fn)
    fn2.body = []
    lifted = []
    for st in fn.body:
        if st not in nested:
            fn2.body.append(st)
            continue
        g = st
        if isinstance(g, ast.AsyncFunctionDef) or g.decorator_list:
            fail(g, "nested async / decorated definition")
        a = g.args
        if a.posonlyargs or a.kwonlyargs or a.defaults or a.kw_defaults:
            fail(g, "nested definition with defaults / positional-only / keyword-only parameters")
        own = [x.arg for x in a.args] + [x.arg for x in (a.vararg, a.kwarg) if x is not None]
        inner_stores = {n.id for n in ast.walk(g) if isinstance(n, ast.Name) and isinstance(n.ctx, (ast.Store, ast.Del))}
        for n in ast.walk(g):
            if n is not g and isinstance(n, (ast.FunctionDef, ast.AsyncFunctionDef, ast.Lambda, ast.ClassDef,
                                             ast.Global, ast.Nonlocal)):
                fail(n, "definition / scope declaration inside a nested definition")
        loads = []
        for n in ast.walk(g):
            if isinstance(n, ast.Name) and isinstance(n.ctx, ast.Load) and n.id in params and n.id not in own \
                    and n.id not in loads:
                loads.append(n.id)
        captured = [x for x in params if x in loads]            # in parameter order: self first
        for x in captured:
            if x in outer_stores or x in inner_stores:
                fail(g, f"captured variable {x} is assigned (a closure captures the variable, not its value)")
        if g.name in params or g.name in outer_stores:
            fail(g, "name of the nested definition is bound elsewhere too")
        if "self" not in captured:
            fail(g, "nested definition that does not use self")
        new = ast.FunctionDef(
            name=g.name, body=g.body, decorator_list=[], returns=None, type_comment=None,
            args=ast.arguments(posonlyargs=[], args=[ast.arg(arg=x) for x in captured + own], vararg=None,
                               kwonlyargs=[], kw_defaults=[], kwarg=None, defaults=[]))
        new.lineno = g.lineno
        lifted.append((g.name, new))
        mark = ast.Assign(targets=[ast.Name(id=g.name, ctx=ast.Store())],
                          value=ClosureMarker([cls, fn.name, g.name], captured, g.lineno))
        mark.lineno = g.lineno
        fn2.body.append(mark)
    return fn2, lifted


def split_await(fn):
    """async def with exactly one `x = await <call>` as a top-level statement ->
    (part 1: up to the await, sync; part 2 `$resume`: the rest, taking the parameters, the locals bound
    before the await and x).  None for a plain def."""
    if not isinstance(fn, ast.AsyncFunctionDef):
        return None
    awaits = [n for n in ast.walk(fn) if isinstance(n, (ast.Await, ast.AsyncFor, ast.AsyncWith))]
    tops = [i for i, st in enumerate(fn.body)
            if isinstance(st, ast.Assign) and len(st.targets) == 1 and isinstance(st.targets[0], ast.Name)
            and isinstance(st.value, ast.Await)]
    if len(awaits) != 1 or len(tops) != 1 or fn.body[tops[0]].value is not awaits[0] or fn.decorator_list:
        fail(fn, "async def other than with exactly one top-level `x = await <call>`")
    i = tops[0]
    x = fn.body[i].targets[0].id
    a = fn.args
    if a.posonlyargs or a.vararg or a.kwonlyargs or a.kwarg or a.defaults or a.kw_defaults:
        fail(fn, "async def with parameters other than plain ones")
    params = [p.arg for p in a.args]
    before = []
    for st in fn.body[:i]:
        for n in ast.walk(st):
            if isinstance(n, ast.Name) and isinstance(n.ctx, ast.Store) and n.id not in params + before:
                before.append(n.id)
    if x in params + before:
        fail(fn, "the awaited value is assigned to a name bound earlier")
    mk = lambda name, args, body: ast.FunctionDef(
        name=name, body=body, decorator_list=[], returns=None, type_comment=None,
        args=ast.arguments(posonlyargs=[], args=[ast.arg(arg=v) for v in args], vararg=None, kwonlyargs=[],
                           kw_defaults=[], kwarg=None, defaults=[]))
    p1 = mk(fn.name, params, fn.body[:i + 1])
    p2 = mk("$resume", params + before + [x], fn.body[i + 1:] or [ast.Pass()])
    p1.lineno = p2.lineno = fn.lineno
    return p1, p2


def function_kind(fn, in_class, stateful=False, fluent=False):
    """KFunction / KMethod / KClassMethod / KProperty (printed as KMethod; read as `self.name`) /
    KProcedure (a method other than __init__ none of whose returns carries a value) /
    KFluent (printed as KMethod; only with opts["fluent"]): a method every return of which is `return self`
    and whose last statement is one: it may change self, and the self it leaves IS its value"""
    if not in_class:
        return "KFunction"
    decs = [d.id for d in fn.decorator_list if isinstance(d, ast.Name)]
    if "classmethod" in decs:
        return "KClassMethod"
    if "property" in decs:
        return "KProperty"
    if fn.name == "__init__":
        return "KMethod"
    rets = [n for n in ast.walk(fn) if isinstance(n, ast.Return)]
    if fluent and rets and all(isinstance(r.value, ast.Name) and r.value.id == "self" for r in rets) \
            and isinstance(fn.body[-1], ast.Return) and fn.args.args and fn.args.args[0].arg == "self":
        return "KFluent"
    if all(r.value is None or (isinstance(r.value, ast.Constant) and r.value.value is None) for r in rets):
        return "KProcedure"
    return "KStateful" if stateful else "KMethod"


class FunctionTranslator:
    """Translates one FunctionDef. `globals_ok(name, node)` validates a non-local name."""

    def __init__(self, fn, in_class, globals_ok, cls_node=None, kinds=None, opts=None, kind=None):
        self.opts = opts or {}
        self.effects = set(self.opts.get("effects", ()))      # attributes of self holding objects outside the translation
        self.dicts = set(self.opts.get("dicts", ()))          # attributes of self holding a dict
        self.fn = fn
        self.in_class = in_class
        self.cls_node = cls_node
        self.kinds = kinds or {}            # translated methods of this class: name -> kind
        self.props = set()                  # every @property of the class, translated or not
        if cls_node is not None:
            for n in cls_node.body:
                if isinstance(n, (ast.FunctionDef, ast.AsyncFunctionDef)):
                    for d in n.decorator_list:
                        if isinstance(d, ast.Name) and d.id == "property":
                            self.props.add(n.name)
                        elif isinstance(d, ast.Attribute) and d.attr in ("setter", "deleter", "getter"):
                            raise TranslateError(f"line {n.lineno}: property setter / deleter in the class")
        self.kind = kind or function_kind(fn, in_class, bool(self.effects) or bool(self.opts.get("stateful")),
                                          bool(self.opts.get("fluent")))
        self.owned = dict(self.opts.get("owned", {}))   # attribute of self -> fields of the instance it holds
        self.receiver = fn.args.args[0].arg if (in_class and fn.args.args) else None
        self.stringio = self._stringio_locals(fn)
        self.alias_roots, self.index_dicts, self.alias_elems = self._aliases(fn)
        if self.receiver == "self":
            self._check_self_uses(fn)
        self.globals_ok = globals_ok
        self.locals = self._locals(fn)

    # -- scoping: the names the function binds (CPython's rule: any binding occurrence) --------
    def _locals(self, fn):
        a = fn.args
        params = [p.arg for p in a.args] + [p.arg for p in a.kwonlyargs]
        for node in ast.walk(fn):
            if node is fn:
                continue
            if isinstance(node, (ast.FunctionDef, ast.AsyncFunctionDef, ast.Lambda, ast.ClassDef)):
                fail(node, "nested definition")
            if isinstance(node, (ast.Global, ast.Nonlocal)):
                fail(node, "global / nonlocal declaration")
            if isinstance(node, ast.NamedExpr):
                fail(node, "assignment expression")
            if isinstance(node, (ast.ListComp, ast.SetComp)):
                fail(node, "comprehension")            # (a DictComp is accepted only as an index dict, see _aliases)
        comp_targets = set()
        for node in ast.walk(fn):
            if isinstance(node, (ast.GeneratorExp, ast.DictComp)):
                for g in node.generators:
                    for t in ast.walk(g.target):
                        if isinstance(t, ast.Name):
                            comp_targets.add(id(t))
        names = set(params)
        order = []                      # every bound name that is not a parameter, by first binding

        class V(ast.NodeVisitor):       # generic_visit follows the fields in source order
            def visit_Name(v, node):
                if isinstance(node.ctx, (ast.Store, ast.Del)):
                    if id(node) not in comp_targets:
                        names.add(node.id)
                    if node.id not in params and node.id not in order:
                        order.append(node.id)

            def visit_ExceptHandler(v, node):      # `except K as x` binds x
                if node.name is not None:
                    names.add(node.name)
                    if node.name not in params and node.name not in order:
                        order.append(node.name)
                v.generic_visit(node)
        for st in fn.body:
            V().visit(st)
        self.rename = {n: f"${i + 1}" for i, n in enumerate(order)}
        if len(set(self.rename.values())) != len(self.rename) or any("$" in p for p in params):
            fail(fn, "renaming of locals is not injective")
        return names

    def _stringio_locals(self, fn):
        """locals that only ever hold an io.StringIO(): every assignment to them is `x = io.StringIO()`"""
        def is_new(v):
            return (isinstance(v, ast.Call) and not v.args and not v.keywords and isinstance(v.func, ast.Attribute)
                    and v.func.attr == "StringIO" and isinstance(v.func.value, ast.Name) and v.func.value.id == "io")
        cand, other = set(), set()
        for n in ast.walk(fn):
            if isinstance(n, ast.Assign) and len(n.targets) == 1 and isinstance(n.targets[0], ast.Name):
                (cand if is_new(n.value) else other).add(n.targets[0].id)
            elif isinstance(n, ast.Assign) and any(is_new(x) for x in ast.walk(n.value)):
                fail(n, "io.StringIO() assigned to something other than one local name")
        for n in ast.walk(fn):
            if isinstance(n, ast.Name) and isinstance(n.ctx, ast.Store) and n.id in cand:
                pass
        names = {p.arg for p in fn.args.args}
        bad = cand & (other | names)
        if bad:
            fail(fn, f"local {sorted(bad)} holds an io.StringIO() and something else")
        # every other occurrence must be the receiver of .write(..) / .getvalue()
        ok = set()
        for n in ast.walk(fn):
            if isinstance(n, ast.Call) and isinstance(n.func, ast.Attribute) and isinstance(n.func.value, ast.Name) \
                    and n.func.value.id in cand and n.func.attr in ("write", "getvalue"):
                ok.add(id(n.func.value))
        for n in ast.walk(fn):
            if isinstance(n, ast.Name) and n.id in cand and isinstance(n.ctx, ast.Load) and id(n) not in ok:
                fail(n, "a StringIO local is used other than as the receiver of .write / .getvalue (aliasing)")
        return cand

    def _aliases(self, fn):
        """Locals that alias objects living inside self (PyMini: paths, see Base/PyMini.v):
             x = self.<D>[k]                       root alias of a dict item (D a dict attribute of self)
             d = {c.<K>: c for c in x.<A>}         index of the elements of the list x.A (values: element aliases)
             y = d.get(..)                         element alias (or None)
           Conditions checked here, so that a path keeps denoting the same object while the alias is used:
             * each such local is assigned exactly once, at the top level of the function, and never otherwise bound;
             * an alias is only used as `x.attr` (read), `x.attr = e` (write), and `y is None` / `y is not None`;
               it is never passed, stored, returned or compared otherwise (it does not escape);
             * after `x = self.D[k]` nothing in this function - nor in the methods of self it calls - rebinds,
               pops or deletes an item of D or D itself (self.write_summary), and the names in k are not rebound;
             * an assignment `x.A = ..` (the list is replaced) comes after the last use of the index d of x.A and
               of its element aliases, in the top-level statement order;
             * a plain local that received `x.attr` (a snapshot) is not used after a later write through an
               element alias of x."""
        dicts = self.dicts
        roots, idx, elems = {}, {}, {}
        if not dicts or self.receiver != "self":
            return roots, idx, elems
        top = list(fn.body)
        def top_index(node):
            for i, st in enumerate(top):
                if any(n is node for n in ast.walk(st)):
                    return i
            return None
        assigns = {}
        for n in ast.walk(fn):
            if isinstance(n, ast.Name) and isinstance(n.ctx, (ast.Store, ast.Del)):
                assigns.setdefault(n.id, 0)
                assigns[n.id] += 1
        for i, st in enumerate(top):
            if not (isinstance(st, ast.Assign) and len(st.targets) == 1 and isinstance(st.targets[0], ast.Name)):
                continue
            x, v = st.targets[0].id, st.value
            if (isinstance(v, ast.Subscript) and isinstance(v.value, ast.Attribute) and isinstance(v.value.value, ast.Name)
                    and v.value.value.id == "self" and v.value.attr in dicts and not isinstance(v.slice, (ast.Slice, ast.Tuple))):
                if assigns.get(x) != 1 or x in [p.arg for p in fn.args.args]:
                    fail(st, f"alias {x} of a dictionary item is bound more than once")
                roots[x] = (v.value.attr, v.slice, i)
            elif (isinstance(v, ast.DictComp) and len(v.generators) == 1 and not v.generators[0].ifs
                  and not v.generators[0].is_async and isinstance(v.generators[0].target, ast.Name)
                  and isinstance(v.generators[0].iter, ast.Attribute) and isinstance(v.generators[0].iter.value, ast.Name)
                  and v.generators[0].iter.value.id in roots
                  and isinstance(v.key, ast.Attribute) and isinstance(v.key.value, ast.Name)
                  and v.key.value.id == v.generators[0].target.id
                  and isinstance(v.value, ast.Name) and v.value.id == v.generators[0].target.id):
                if assigns.get(x) != 1:
                    fail(st, f"index dict {x} is bound more than once")
                idx[x] = (v.generators[0].iter.value.id, v.generators[0].iter.attr, v.key.attr, i)
        # element aliases: y = d.get(e) anywhere (a loop body), bound only by such statements
        for n in ast.walk(fn):
            if (isinstance(n, ast.Assign) and len(n.targets) == 1 and isinstance(n.targets[0], ast.Name)
                    and isinstance(n.value, ast.Call) and isinstance(n.value.func, ast.Attribute)
                    and n.value.func.attr == "get" and isinstance(n.value.func.value, ast.Name)
                    and n.value.func.value.id in idx and len(n.value.args) == 1 and not n.value.keywords):
                y = n.targets[0].id
                if assigns.get(y) != 1:
                    fail(n, f"element alias {y} is bound more than once")
                elems[y] = n.value.func.value.id
        if not roots:
            return roots, idx, elems
        # uses
        def parents():
            par = {}
            for n in ast.walk(fn):
                for c in ast.iter_child_nodes(n):
                    par[id(c)] = n
            return par
        par = parents()
        for n in ast.walk(fn):
            if not (isinstance(n, ast.Name) and isinstance(n.ctx, ast.Load)):
                continue
            p = par.get(id(n))
            if n.id in roots or n.id in elems:
                ok = isinstance(p, ast.Attribute) and p.value is n
                if n.id in elems and isinstance(p, ast.Compare) and len(p.ops) == 1 and isinstance(p.ops[0], (ast.Is, ast.IsNot)) \
                        and isinstance(p.comparators[0], ast.Constant) and p.comparators[0].value is None and p.left is n:
                    ok = True
                if not ok:
                    fail(n, f"alias {n.id} is used other than as `{n.id}.attr` / `{n.id} is None` (it would escape)")
            if n.id in idx:
                ok = isinstance(p, ast.Attribute) and p.value is n and p.attr == "get" and isinstance(par.get(id(p)), ast.Call)
                if not ok:
                    fail(n, f"index dict {n.id} is used other than as `{n.id}.get(..)`")
        # the key names of a root alias are not rebound
        for x, (d, key, i) in roots.items():
            for kn in ast.walk(key):
                if isinstance(kn, ast.Name) and assigns.get(kn.id, 0) > (1 if any(
                        isinstance(t, ast.Name) and t.id == kn.id for st in top[:i] for t in ast.walk(st)
                        if isinstance(t, ast.Name) and isinstance(t.ctx, ast.Store)) else 0):
                    fail(key, f"the key of alias {x} is rebound")
            self._alias_root_stmt = getattr(self, "_alias_root_stmt", {})
        # list replaced only after the last use of its index and element aliases
        for dname, (x, a, k, i) in idx.items():
            derived = {dname} | {y for y, d0 in elems.items() if d0 == dname}
            last_use = max([top_index(n) for n in ast.walk(fn)
                            if isinstance(n, ast.Name) and n.id in derived] or [i])
            for n in ast.walk(fn):
                if (isinstance(n, ast.Assign) and len(n.targets) == 1 and isinstance(n.targets[0], ast.Attribute)
                        and isinstance(n.targets[0].value, ast.Name) and n.targets[0].value.id == x
                        and n.targets[0].attr == a):
                    if top_index(n) <= last_use:
                        fail(n, f"{x}.{a} is replaced while its index / element aliases are still in use")
        # snapshots of x.attr in plain locals are not used after a later write through an element alias
        elem_writes = [top_index(n) for n in ast.walk(fn)
                       if isinstance(n, ast.Assign) and len(n.targets) == 1 and isinstance(n.targets[0], ast.Attribute)
                       and isinstance(n.targets[0].value, ast.Name) and n.targets[0].value.id in elems]
        for n in ast.walk(fn):
            if (isinstance(n, ast.Assign) and len(n.targets) == 1 and isinstance(n.targets[0], ast.Name)
                    and isinstance(n.value, ast.Attribute) and isinstance(n.value.value, ast.Name)
                    and n.value.value.id in roots):
                snap, i0 = n.targets[0].id, top_index(n)
                uses = [top_index(m) for m in ast.walk(fn) if isinstance(m, ast.Name) and m.id == snap]
                if any(w is not None and i0 <= w <= max(uses) for w in elem_writes):
                    fail(n, f"{snap} holds {n.value.value.id}.{n.value.attr} while elements are changed through aliases")
        return roots, idx, elems

    def _check_self_uses(self, fn):
        """values are immutable in PyMini: `self` may only be read through attributes (no aliasing)"""
        ok = set()
        for n in ast.walk(fn):
            if isinstance(n, ast.Attribute) and isinstance(n.value, ast.Name) and n.value.id == "self":
                ok.add(id(n.value))
            if self.kind == "KFluent" and isinstance(n, ast.Return) and isinstance(n.value, ast.Name):
                ok.add(id(n.value))                   # `return self`: the value of a fluent method
        for n in ast.walk(fn):
            if isinstance(n, ast.Name) and n.id == "self" and id(n) not in ok:
                fail(n, "`self` used other than as `self.<attribute>` (aliasing of the instance)")

    def local(self, name):
        """the PyMini name of a bound Python name"""
        return cstr(self.rename.get(name, name))

    # -- header --------------------------------------------------------------------------------
    def header(self):
        fn = self.fn
        a = fn.args
        if isinstance(fn, ast.AsyncFunctionDef):
            fail(fn, "async def")
        if a.posonlyargs or a.vararg or a.kwarg:
            fail(fn, "parameter kinds other than positional-or-keyword and keyword-only")
        kind = self.kind
        if len(fn.decorator_list) > 1:
            fail(fn, "more than one decorator")
        for d in fn.decorator_list:
            if not (isinstance(d, ast.Name) and d.id in ("classmethod", "property") and self.in_class):
                fail(d, "decorator outside the table (classmethod, property)")
        if kind == "KProperty":
            if len(a.args) != 1:
                fail(fn, "property with parameters")
            kind = "KMethod"
        if kind == "KFluent":
            kind = "KMethod"
        if self.in_class and not a.args:
            fail(fn, "method without a receiver parameter")
        want = {"KMethod": "self", "KClassMethod": "cls"}.get(kind)
        if want and a.args[0].arg != want:
            fail(fn, f"receiver parameter is named {a.args[0].arg!r}, expected {want!r}")
        nd = len(a.defaults)
        params = []
        for i, p in enumerate(a.args):
            j = i - (len(a.args) - nd)
            if j >= 0:
                d = a.defaults[j]
                if isinstance(d, ast.Name) and d.id not in self.locals:
                    self.globals_ok(d.id, d)          # a module-level object (evaluated at definition time)
                    params.append(f"({cstr(p.arg)}, Some (EGlobal {cstr(d.id)}))")
                    continue
                if isinstance(d, ast.Attribute) and isinstance(d.value, ast.Name) and d.value.id not in self.locals:
                    self.globals_ok(d.value.id, d.value)     # Module.NAME, evaluated at definition time
                    params.append(f"({cstr(p.arg)}, Some (EAttr (EGlobal {cstr(d.value.id)}) {cstr(d.attr)}))")
                    continue
                if not isinstance(d, ast.Constant):
                    fail(d, "default value that is not a constant or a module-level name")
                params.append(f"({cstr(p.arg)}, Some {self.expr(d)})")
            else:
                params.append(f"({cstr(p.arg)}, None)")
        # keyword-only parameters: bound by keyword like the others (a positional argument for one of them
        # is a TypeError in Python and is not rejected here: the theorems pass them by keyword)
        for p, d in zip(a.kwonlyargs, a.kw_defaults):
            if d is None:
                params.append(f"({cstr(p.arg)}, None)")
            elif isinstance(d, ast.Constant):
                params.append(f"({cstr(p.arg)}, Some {self.expr(d)})")
            else:
                fail(d, "default of a keyword-only parameter that is not a constant")
        if want and "Some" in params[0]:
            fail(fn, "receiver with a default")
        return kind, params

    # -- expressions ---------------------------------------------------------------------------
    def expr(self, e, scope=frozenset()):
        E = lambda x: self.expr(x, scope)
        if isinstance(e, ast.Constant):
            v = e.value
            if v is None:
                return "ENone"
            if isinstance(v, bool):
                return f"(EBool {'true' if v else 'false'})"
            if isinstance(v, int):
                if v < 0:
                    fail(e, "negative literal")
                return f"(EInt {v})"
            if isinstance(v, str):
                return f"(EStr {nlist(v)})"
            fail(e, f"constant of type {type(v).__name__}")
        if isinstance(e, ast.Name):
            if not isinstance(e.ctx, ast.Load):
                fail(e, "name in a non-load context")
            if e.id in self.locals or e.id in scope:
                return f"(EName {self.local(e.id)})"
            self.globals_ok(e.id, e)
            return f"(EGlobal {cstr(e.id)})"
        if isinstance(e, ast.Attribute):
            if not isinstance(e.ctx, ast.Load):
                fail(e, "attribute in a non-load context")
            if isinstance(e.value, ast.Name) and (e.value.id in self.alias_roots or e.value.id in self.alias_elems):
                return f"(EPathAttr {self.local(e.value.id)} {cstr(e.attr)})"
            if isinstance(e.value, ast.Name) and e.value.id == "self" and self.receiver == "self" \
                    and e.attr in self.effects:
                fail(e, f"self.{e.attr} (an object outside the translation) is used other than for a recorded call")
            if isinstance(e.value, ast.Name) and e.value.id == "self" and self.receiver == "self" \
                    and e.attr in self.props:
                if self.kinds.get(e.attr) != "KProperty":
                    fail(e, f"self.{e.attr} is a property that is not among the translated functions")
                return f"(EProp {E(e.value)} {cstr(e.attr)})"
            return f"(EAttr {E(e.value)} {cstr(e.attr)})"
        if isinstance(e, ast.BinOp):
            op = BINOPS.get(type(e.op))
            if op is None:
                fail(e, f"binary operator {type(e.op).__name__}")
            return f"(EBinOp {op} {E(e.left)} {E(e.right)})"
        if isinstance(e, ast.UnaryOp):
            if isinstance(e.op, ast.USub):
                return f"(ENeg {E(e.operand)})"
            if isinstance(e.op, ast.Not):
                return f"(ENot {E(e.operand)})"
            fail(e, f"unary operator {type(e.op).__name__}")
        if isinstance(e, ast.BoolOp):
            c = "EAnd" if isinstance(e.op, ast.And) else "EOr" if isinstance(e.op, ast.Or) else None
            if c is None or len(e.values) < 2:
                fail(e, "boolean operator")
            out = E(e.values[-1])
            for v in reversed(e.values[:-1]):
                out = f"({c} {E(v)} {out})"
            return out
        if isinstance(e, ast.Compare):
            operands = [e.left] + list(e.comparators)
            parts = []
            def EO(x, other, op):
                # `self.<F> is None` / `is not None` with F an object outside the translation: only its presence is read
                if (isinstance(op, (ast.Is, ast.IsNot)) and isinstance(other, ast.Constant) and other.value is None
                        and isinstance(x, ast.Attribute) and isinstance(x.value, ast.Name) and x.value.id == "self"
                        and self.receiver == "self" and x.attr in self.effects and isinstance(x.ctx, ast.Load)):
                    return f"(EAttr (EName {cstr('self')}) {cstr(x.attr)})"
                return E(x)
            for i, op in enumerate(e.ops):
                o = CMPOPS.get(type(op))
                if o is None:
                    fail(e, f"comparison operator {type(op).__name__}")
                parts.append(f"(ECompare {o} {EO(operands[i], operands[i + 1], op)} "
                             f"{EO(operands[i + 1], operands[i], op)})")
            for mid in operands[1:-1]:
                if not isinstance(mid, (ast.Name, ast.Constant)) and not (
                        isinstance(mid, ast.UnaryOp) and isinstance(mid.operand, ast.Constant)):
                    fail(e, "chained comparison whose middle operand is not a name or a constant")
            out = parts[-1]
            for p in reversed(parts[:-1]):
                out = f"(EAnd {p} {out})"
            return out
        if isinstance(e, ast.IfExp):
            return f"(EIfExp {E(e.test)} {E(e.body)} {E(e.orelse)})"
        if isinstance(e, ast.Call):
            return self.call(e, scope)
        if isinstance(e, ast.Subscript):
            if not isinstance(e.ctx, ast.Load):
                fail(e, "subscript in a non-load context")
            s = e.slice
            if isinstance(s, ast.Slice):
                if s.step is not None:
                    fail(e, "slice with a step")
                lo = f"(Some {E(s.lower)})" if s.lower is not None else "None"
                hi = f"(Some {E(s.upper)})" if s.upper is not None else "None"
                return f"(ESlice {E(e.value)} {lo} {hi})"
            if isinstance(s, ast.Tuple):
                fail(e, "multi-dimensional subscript")
            return f"(ESubscript {E(e.value)} {E(s)})"
        if isinstance(e, ast.Tuple):
            if not isinstance(e.ctx, ast.Load):
                fail(e, "tuple in a non-load context")
            return f"(ETuple {clist([E(x) for x in e.elts])})"
        if isinstance(e, ast.List):
            if not isinstance(e.ctx, ast.Load):
                fail(e, "list in a non-load context")
            items = []
            for x in e.elts:
                if isinstance(x, ast.Starred):
                    items.append(f"(true, {E(x.value)})")
                else:
                    items.append(f"(false, {E(x)})")
            return f"(EList {clist(items)})"
        if isinstance(e, ast.Dict):
            if any(k is None for k in e.keys):
                fail(e, "** in a dict display")
            return f"(EDict {clist([f'({E(k)}, {E(v)})' for k, v in zip(e.keys, e.values)])})"
        if isinstance(e, ClosureMarker):
            return f"(EClosure {clist([cstr(x) for x in e.q])} {clist([cstr(x) for x in e.captured])})"
        if isinstance(e, ast.JoinedStr):
            parts = []
            for v in e.values:
                if isinstance(v, ast.Constant) and isinstance(v.value, str):
                    parts.append(f"(EStr {nlist(v.value)})")
                elif isinstance(v, ast.FormattedValue) and v.conversion == -1 and v.format_spec is None:
                    parts.append(E(v.value))
                else:
                    fail(e, "f-string with a conversion or a format specification")
            return f"(EFString {clist(parts)})"
        fail(e, "expression outside the supported subset")

    def call(self, e, scope):
        E = lambda x: self.expr(x, scope)
        for a in e.args:
            if isinstance(a, ast.Starred):
                fail(e, "*args in a call")
        for k in e.keywords:
            if k.arg is None:
                fail(e, "**kwargs in a call")
        f = e.func
        # sum(<elt> for x in <iter>)
        if isinstance(f, ast.Name) and f.id == "sum" and f.id not in self.locals and f.id not in scope:
            self.globals_ok("sum", f)
            if len(e.args) != 1 or e.keywords or not isinstance(e.args[0], ast.GeneratorExp):
                fail(e, "sum() is supported only over one generator expression")
            g = e.args[0]
            if len(g.generators) != 1:
                fail(g, "generator with more than one `for`")
            c = g.generators[0]
            if c.ifs or c.is_async or not isinstance(c.target, ast.Name):
                fail(g, "generator with a filter / async / a non-name target")
            x = c.target.id
            it = E(c.iter)                       # the outermost iterable is evaluated in the enclosing scope
            elt = self.expr(g.elt, scope | {x})
            return f"(ESumGen {elt} {self.local(x)} {it})"
        for a in e.args:
            if isinstance(a, ast.GeneratorExp):
                fail(a, "generator expression outside sum()")
        # getattr(obj, "name") / getattr(obj, "name", default)
        if isinstance(f, ast.Name) and f.id == "getattr" and f.id not in self.locals and f.id not in scope:
            self.globals_ok("getattr", f)
            consts = self.opts.get("constants", {})
            a1 = e.args[1] if len(e.args) >= 2 else None
            if isinstance(a1, ast.Name) and a1.id in consts and a1.id not in self.locals and a1.id not in scope:
                self.globals_ok(a1.id, a1)        # a str constant of pygls.constants, value asserted by reflection
                name = consts[a1.id]
            elif isinstance(a1, ast.Constant) and isinstance(a1.value, str):
                name = a1.value
            else:
                name = None
            if e.keywords or len(e.args) not in (2, 3) or name is None:
                fail(e, "getattr() is supported only with a constant attribute name")
            d = f"(Some {E(e.args[2])})" if len(e.args) == 3 else "None"
            return f"(EGetattr {E(e.args[0])} {cstr(name)} {d})"
        if isinstance(f, ast.Attribute) and isinstance(f.value, ast.Name):
            if f.value.id == "self" and self.receiver == "self" and self.kinds.get(f.attr) == "KProcedure":
                fail(e, f"self.{f.attr}(..) never returns a value: supported only as a statement")
            if f.value.id == "self" and self.receiver == "self" and f.attr in self.props:
                fail(e, "call of a property")
            if f.value.id == "self" and self.receiver == "self" and self.kinds.get(f.attr) == "KFluent":
                fail(e, f"self.{f.attr}(..) changes self and returns it: a call from translated code is not supported")
            if f.value.id in self.stringio and f.attr != "getvalue":
                fail(e, "StringIO.write(..) is supported only as a statement")
        if isinstance(f, ast.Name) and f.id in self.opts.get("effect_functions", ()) and f.id not in self.locals:
            fail(e, f"{f.id}(..) changes its arguments: supported only as a statement / `x = {f.id}(..)`")
        if isinstance(f, ast.Name):
            if f.id in self.locals or f.id in scope:
                fail(e, "call of a local name")
            self.globals_ok(f.id, f)
            fe = f"(EGlobal {cstr(f.id)})"
        elif isinstance(f, ast.Attribute):
            fe = f"(EAttr {E(f.value)} {cstr(f.attr)})"
        else:
            fail(e, "callee that is neither a name nor an attribute")
        args = clist([E(a) for a in e.args])
        def KW(k):
            # json.dumps(.., default=self.<method>): the bound method is an opaque token (json.dumps is an oracle;
            # what it does with the hook is part of what the oracle stands for)
            v = k.value
            if (k.arg == "default" and isinstance(f, ast.Attribute) and isinstance(f.value, ast.Name)
                    and f.value.id == "json" and f.attr == "dumps" and "json" not in self.locals
                    and isinstance(v, ast.Attribute) and isinstance(v.value, ast.Name) and v.value.id == "self"
                    and self.receiver == "self" and self.cls_node is not None
                    and any(isinstance(n, ast.FunctionDef) and n.name == v.attr for n in self.cls_node.body)):
                return f"(EGlobal {cstr('$bound.' + v.attr)})"
            return E(v)
        kws = clist([f"({cstr(k.arg)}, {KW(k)})" for k in e.keywords])
        return f"(ECall {fe} {args} {kws})"

    # -- statements ----------------------------------------------------------------------------
    def block(self, stmts, ind):
        out = []
        for s in stmts:
            t = self.stmt(s, ind)
            if isinstance(t, list):
                out.extend(t)
            elif t is not None:
                out.append(t)
        pad = " " * ind
        if not out:
            return "[]"
        return "[\n" + ";\n".join(pad + "  " + t for t in out) + "\n" + pad + "]"

    def _alias_written_check(self, s, d):
        """after `x = self.d[k]` (statement s of the body) nothing rebinds / pops / deletes items of self.d"""
        summ = self.opts.get("write_summary", {})
        i = self.fn.body.index(s)
        for st in self.fn.body[i + 1:]:
            for n in ast.walk(st):
                tgt = None
                if isinstance(n, ast.Assign):
                    tgt = n.targets
                elif isinstance(n, (ast.AugAssign, ast.AnnAssign)):
                    tgt = [n.target]
                elif isinstance(n, ast.Delete):
                    tgt = n.targets
                for t in tgt or []:
                    for m in ast.walk(t):
                        if isinstance(m, ast.Attribute) and isinstance(m.value, ast.Name) and m.value.id == "self" \
                                and m.attr == d and not (isinstance(t, ast.Attribute) and isinstance(t.value, ast.Subscript)):
                            fail(n, f"self.{d} is written while an alias of one of its items is in use")
                if isinstance(n, ast.Call) and isinstance(n.func, ast.Attribute):
                    f = n.func
                    if isinstance(f.value, ast.Attribute) and isinstance(f.value.value, ast.Name) \
                            and f.value.value.id == "self" and f.value.attr == d and f.attr not in ("get",):
                        fail(n, f"self.{d}.{f.attr}(..) while an alias of one of its items is in use")
                    if isinstance(f.value, ast.Name) and f.value.id == "self":
                        if f.attr not in summ:
                            fail(n, f"self.{f.attr}(..) is not a translated method: what it writes is unknown")
                        if d in summ[f.attr]:
                            fail(n, f"self.{f.attr}(..) writes self.{d} while an alias of one of its items is in use")

    def effect_call(self, v):
        """self.<F>.<m>(args, kw=..) with F an attribute holding an object outside the translation"""
        if not (isinstance(v, ast.Call) and isinstance(v.func, ast.Attribute) and isinstance(v.func.value, ast.Attribute)
                and isinstance(v.func.value.value, ast.Name) and v.func.value.value.id == "self"
                and self.receiver == "self" and v.func.value.attr in self.effects):
            return None
        if any(isinstance(a, ast.Starred) for a in v.args) or any(k.arg is None for k in v.keywords):
            fail(v, "*args / **kwargs in a recorded call")
        if self.kind not in ("KProcedure", "KStateful"):
            fail(v, "recorded call in a function whose run does not yield self")
        args = clist([self.expr(a) for a in v.args])
        kws = clist([f"({cstr(k.arg)}, {self.expr(k.value)})" for k in v.keywords])
        return f"{cstr(v.func.value.attr)} {cstr(v.func.attr)} {args} {kws}"

    def stmt(self, s, ind):
        E = self.expr
        # ---- recorded calls on self.<effect attribute> and on callables from outside
        if isinstance(s, ast.Expr) and self.effect_call(s.value):
            return f"SSelfEffect None {self.effect_call(s.value)} false"
        if isinstance(s, ast.Return) and s.value is not None and self.effect_call(s.value):
            if self.kind != "KStateful":
                fail(s, "return of a recorded call outside a stateful method")
            return [f"SSelfEffect (Some {cstr('$ret')}) {self.effect_call(s.value)} false",
                    f"SReturnState (Some (EName {cstr('$ret')}))"]
        if isinstance(s, ast.Assign) and len(s.targets) == 1 and isinstance(s.targets[0], ast.Name):
            x = s.targets[0].id
            if self.effect_call(s.value):
                return f"SSelfEffect (Some {self.local(x)}) {self.effect_call(s.value)} false"
            if isinstance(s.value, ast.Await):
                ec = self.effect_call(s.value.value)
                if not ec or self.kind != "KStateful" or s is not self.fn.body[-1]:
                    fail(s, "await of something other than a recorded call / not at the split point")
                return [f"SSelfEffect (Some {self.local(x)}) {ec} true", f"SSuspend {self.local(x)}"]
        if isinstance(s, ast.Expr) and isinstance(s.value, ast.Call) and isinstance(s.value.func, ast.Name):
            v = s.value
            if (v.func.id in self.locals and len(v.args) == 1 and isinstance(v.args[0], ast.Starred)
                    and isinstance(v.args[0].value, ast.Name) and len(v.keywords) == 1 and v.keywords[0].arg is None
                    and isinstance(v.keywords[0].value, ast.Name)):
                if self.kind not in ("KProcedure", "KStateful"):
                    fail(s, "recorded call in a function whose run does not yield self")
                return f"SCallbackEffect {E(v.func)} {E(v.args[0].value)} {E(v.keywords[0].value)}"
        # ---- aliases of objects inside self (paths)
        if isinstance(s, ast.Assign) and len(s.targets) == 1 and isinstance(s.targets[0], ast.Name):
            x = s.targets[0].id
            if x in self.alias_roots and self.alias_roots[x][2] is not None and s in self.fn.body \
                    and isinstance(s.value, ast.Subscript):
                d, key, _ = self.alias_roots[x]
                if self.kind not in ("KProcedure", "KStateful"):
                    fail(s, "alias of a dictionary item in a function whose run does not yield self")
                self._alias_written_check(s, d)
                return f"SAlias {self.local(x)} {cstr(d)} {E(key)}"
            if x in self.index_dicts and isinstance(s.value, ast.DictComp):
                ax, a, k, _ = self.index_dicts[x]
                return f"SAssign {self.local(x)} (EIndexDict {self.local(ax)} {cstr(a)} {cstr(k)})"
        if isinstance(s, ast.Assign) and len(s.targets) == 1 and isinstance(s.targets[0], ast.Attribute) \
                and isinstance(s.targets[0].value, ast.Name) \
                and (s.targets[0].value.id in self.alias_roots or s.targets[0].value.id in self.alias_elems):
            t = s.targets[0]
            return f"SPathSet {self.local(t.value.id)} {cstr(t.attr)} {E(s.value)}"
        # ---- self.<A>.<F> = e, self.<A> an instance this object created and owns
        if isinstance(s, ast.Assign) and len(s.targets) == 1 and isinstance(s.targets[0], ast.Attribute) \
                and isinstance(s.targets[0].value, ast.Attribute) and isinstance(s.targets[0].value.value, ast.Name) \
                and s.targets[0].value.value.id == "self" and self.receiver == "self" \
                and s.targets[0].value.attr in self.owned:
            t = s.targets[0]
            if self.kind not in ("KFluent", "KProcedure", "KStateful"):
                fail(s, "attribute assignment inside self in a function whose run does not yield self")
            if t.attr not in self.owned[t.value.attr]:
                fail(s, f"self.{t.value.attr} has no attribute {t.attr!r} (slots: the assignment raises)")
            return f"SSelfSubSet {cstr(t.value.attr)} {cstr(t.attr)} {E(s.value)}"
        # ---- functions outside the translation that change their arguments (objects with identity): recorded
        gfx = self.opts.get("effect_functions", ())
        def gcall(v):
            if (isinstance(v, ast.Call) and isinstance(v.func, ast.Attribute) and isinstance(v.func.value, ast.Name)
                    and f"{v.func.value.id}.{v.func.attr}" in gfx and v.func.value.id not in self.locals):
                # <module>.<function>(..), e.g. asyncio.ensure_future(x)
                if v.keywords or any(isinstance(a, ast.Starred) for a in v.args):
                    fail(v, "keywords / *args in a recorded call")
                if self.kind not in ("KProcedure", "KStateful"):
                    fail(v, "recorded call in a function whose run does not yield self")
                self.globals_ok(v.func.value.id, v.func.value)
                return f"{cstr(v.func.value.id + '.' + v.func.attr)} {clist([E(a) for a in v.args])}"
            if (isinstance(v, ast.Call) and isinstance(v.func, ast.Name) and v.func.id in gfx
                    and v.func.id not in self.locals):
                if v.keywords or any(isinstance(a, ast.Starred) for a in v.args):
                    fail(v, "keywords / *args in a recorded call")
                if self.kind not in ("KProcedure", "KStateful"):
                    fail(v, "recorded call in a function whose run does not yield self")
                self.globals_ok(v.func.id, v.func)
                return f"{cstr(v.func.id)} {clist([E(a) for a in v.args])}"
            return None
        if isinstance(s, ast.Expr) and gcall(s.value):
            return f"SGlobalEffect None {gcall(s.value)}"
        if isinstance(s, ast.Assign) and len(s.targets) == 1 and isinstance(s.targets[0], ast.Name) and gcall(s.value):
            return f"SGlobalEffect (Some {self.local(s.targets[0].id)}) {gcall(s.value)}"
        # ---- dict attributes of self
        if isinstance(s, ast.Assign) and len(s.targets) == 1 and isinstance(s.targets[0], ast.Subscript):
            t = s.targets[0]
            if (isinstance(t.value, ast.Attribute) and isinstance(t.value.value, ast.Name) and t.value.value.id == "self"
                    and self.receiver == "self" and t.value.attr in self.dicts and not isinstance(t.slice, ast.Slice)
                    and self.kind in ("KProcedure", "KStateful")):
                return f"SSelfItemSet {cstr(t.value.attr)} {E(t.slice)} {E(s.value)}"
        def self_item(t):
            """self.<D>[key] with D a dict attribute -> (D, key expr)"""
            if (isinstance(t, ast.Subscript) and isinstance(t.value, ast.Attribute) and isinstance(t.value.value, ast.Name)
                    and t.value.value.id == "self" and self.receiver == "self" and t.value.attr in self.dicts
                    and not isinstance(t.slice, (ast.Slice, ast.Tuple)) and self.kind in ("KProcedure", "KStateful")):
                return t.value.attr, t.slice
            return None
        if isinstance(s, ast.Delete) and len(s.targets) == 1 and self_item(s.targets[0]):
            d, k = self_item(s.targets[0])
            return f"SSelfItemDel {cstr(d)} {E(k)}"
        if isinstance(s, ast.Expr) and isinstance(s.value, ast.Call) and isinstance(s.value.func, ast.Attribute) \
                and self_item(s.value.func.value):
            v = s.value
            if v.keywords or any(isinstance(a, ast.Starred) for a in v.args):
                fail(s, "keywords / *args in a call on a dict item")
            d, k = self_item(v.func.value)
            return f"SSelfItemCall {cstr(d)} {E(k)} {cstr(v.func.attr)} {clist([E(a) for a in v.args])}"
        if isinstance(s, ast.Assign) and len(s.targets) == 1 and isinstance(s.targets[0], ast.Attribute) \
                and self_item(s.targets[0].value):
            d, k = self_item(s.targets[0].value)
            return f"SSelfItemSetAttr {cstr(d)} {E(k)} {cstr(s.targets[0].attr)} {E(s.value)}"
        if isinstance(s, ast.AnnAssign) and s.value is not None and isinstance(s.target, ast.Attribute):
            # `self.x: T = v`: the annotation of an attribute target is not evaluated into anything observable
            s2 = ast.Assign(targets=[s.target], value=s.value)
            s2.lineno = s.lineno
            return self.stmt(s2, ind)
        if isinstance(s, ast.For) and isinstance(s.target, ast.Name):
            if s.orelse:
                fail(s, "for ... else")
            return f"SFor {self.local(s.target.id)} {E(s.iter)} {self.block(s.body, ind + 2)}"
        if isinstance(s, ast.Expr) and isinstance(s.value, ast.Call) and isinstance(s.value.func, ast.Attribute):
            f = s.value.func
            if (isinstance(f.value, ast.Attribute) and isinstance(f.value.value, ast.Name) and f.value.value.id == "self"
                    and self.receiver == "self" and f.value.attr in self.dicts and f.attr in ("setdefault", "pop")
                    and not s.value.keywords and not any(isinstance(a, ast.Starred) for a in s.value.args)
                    and self.kind in ("KProcedure", "KStateful")):
                return f"SSelfFieldCall {cstr(f.value.attr)} {cstr(f.attr)} {clist([E(a) for a in s.value.args])}"
        if isinstance(s, ast.Expr):
            if isinstance(s.value, ast.Constant):
                return None                       # docstring / bare constant: no effect
            v = s.value
            if (isinstance(v, ast.Call) and isinstance(v.func, ast.Attribute)
                    and isinstance(v.func.value, ast.Call) and isinstance(v.func.value.func, ast.Name)
                    and v.func.value.func.id == "super"):
                return self.super_init(s, v)
            if isinstance(v, ast.Call) and isinstance(v.func, ast.Attribute) and isinstance(v.func.value, ast.Name):
                recv, m = v.func.value.id, v.func.attr
                plain = not any(isinstance(a, ast.Starred) for a in v.args) and all(k.arg for k in v.keywords)
                if recv == "self" and self.receiver == "self" and self.kinds.get(m) == "KProcedure":
                    if not plain:
                        fail(s, "*args / **kwargs in a call")
                    if self.kind not in ("KProcedure", "KStateful") and self.fn.name != "__init__":
                        fail(s, "a method that returns a value calls a procedure on self (the change would be lost)")
                    args = clist([E(a) for a in v.args])
                    kws = clist([f"({cstr(k.arg)}, {E(k.value)})" for k in v.keywords])
                    return f"SSelfCall {cstr(m)} {args} {kws}"
                if recv in self.stringio and m == "write":
                    if not plain or v.keywords:
                        fail(s, "StringIO.write with other than positional arguments")
                    return f"SMutCall {self.local(recv)} {cstr(m)} {clist([E(a) for a in v.args])}"
            return f"SExpr {E(s.value)}"
        if isinstance(s, ast.Assign):
            if len(s.targets) != 1:
                fail(s, "chained assignment")
            t = s.targets[0]
            if isinstance(t, ast.Name):
                return f"SAssign {self.local(t.id)} {E(s.value)}"
            if isinstance(t, ast.Tuple) and all(isinstance(x, ast.Name) for x in t.elts):
                return f"SUnpack {clist([self.local(x.id) for x in t.elts])} {E(s.value)}"
            if isinstance(t, ast.Attribute) and isinstance(t.value, ast.Name) and t.value.id == "self" \
                    and (self.fn.name == "__init__" or self.kind == "KProcedure") and self.in_class:
                if t.attr in self.props:
                    fail(s, "assignment to a property")
                return f"SSetAttr {cstr('self')} {cstr(t.attr)} {E(s.value)}"
            fail(s, "assignment target outside the supported subset (mutation of an argument?)")
        if isinstance(s, ast.AugAssign):
            op = BINOPS.get(type(s.op))
            if op is None or not isinstance(s.target, ast.Name):
                fail(s, "augmented assignment outside the supported subset")
            return f"SAugAssign {self.local(s.target.id)} {op} {E(s.value)}"
        if isinstance(s, ast.If):
            return (f"SIf {E(s.test)} {self.block(s.body, ind + 2)} {self.block(s.orelse, ind + 2)}")
        if isinstance(s, ast.While):
            if s.orelse:
                fail(s, "while ... else")
            return f"SWhile {E(s.test)} {self.block(s.body, ind + 2)}"
        if isinstance(s, ast.Return):
            if self.kind == "KProcedure":
                return "SReturnSelf"              # function_kind: every return of a procedure is bare / None
            if self.kind == "KStateful":
                return "SReturnState None" if s.value is None else f"SReturnState (Some {E(s.value)})"
            if self.kind == "KFluent":
                return f"SReturn (Some (EName {cstr('self')}))"   # function_kind: every return is `return self`
            return "SReturn None" if s.value is None else f"SReturn (Some {E(s.value)})"
        if isinstance(s, ast.For):
            it = s.iter
            if s.orelse or not (isinstance(s.target, ast.Tuple) and len(s.target.elts) == 2
                                and all(isinstance(x, ast.Name) for x in s.target.elts)
                                and isinstance(it, ast.Call) and isinstance(it.func, ast.Name)
                                and it.func.id == "enumerate" and it.func.id not in self.locals
                                and len(it.args) == 1 and not it.keywords
                                and not isinstance(it.args[0], ast.Starred)):
                fail(s, "for loop other than `for i, x in enumerate(<list>)` without else")
            self.globals_ok("enumerate", it.func)
            xi, xv = (self.local(x.id) for x in s.target.elts)
            return f"SForEnum {xi} {xv} {E(it.args[0])} {self.block(s.body, ind + 2)}"
        if isinstance(s, ast.Break):
            return "SBreak"
        if isinstance(s, ast.Continue):
            return "SContinue"
        if isinstance(s, ast.Pass):
            return "SPass"
        if isinstance(s, ast.Raise):
            if s.cause is not None or s.exc is None:
                fail(s, "raise ... from / bare raise")
            x = s.exc
            if isinstance(x, ast.Call) and isinstance(x.func, ast.Name) and x.func.id in EXNS \
                    and x.func.id not in self.locals and not x.keywords:
                self.globals_ok(x.func.id, x.func)
                return f"SRaise {EXNS[x.func.id]} {clist([E(a) for a in x.args])}"
            if isinstance(x, ast.Call) and isinstance(x.func, ast.Name) and x.func.id in USER_EXNS \
                    and x.func.id not in self.locals and not x.keywords:
                self.globals_ok(x.func.id, x.func)
                return f"SRaise (ExcUser {cstr(x.func.id)}) {clist([E(a) for a in x.args])}"
            fail(s, "raise of something other than a builtin exception class call")
        if isinstance(s, ast.Try):
            if s.orelse or s.finalbody:
                fail(s, "try ... else / finally")
            hs = []
            named = any(h.name is not None for h in s.handlers)
            for h in s.handlers:
                if h.type is None:
                    fail(h, "bare except")
                if named:
                    # `except K as x`: x is bound in the handler only (Python deletes it at the end of the handler)
                    if h.name is None:
                        fail(h, "named and unnamed handlers in one try")
                    inside = {id(n) for n in ast.walk(h)}
                    inside_any = {id(n) for g in ast.walk(self.fn)
                                  if isinstance(g, ast.ExceptHandler) and g.name == h.name for n in ast.walk(g)}
                    for n in ast.walk(self.fn):
                        if isinstance(n, ast.Name) and n.id == h.name and id(n) not in inside_any:
                            fail(n, f"the name of `except .. as {h.name}` is used outside its handler")
                        if isinstance(n, ast.arg) and n.arg == h.name:
                            fail(n, f"the name of `except .. as {h.name}` is a parameter")
                        if isinstance(n, ast.ExceptHandler) and n is not h and n.name == h.name \
                                and (id(n) in inside or any(h is m for m in ast.walk(n))):
                            fail(n, "nested handlers with the same name")
                    for n in ast.walk(h):
                        if isinstance(n, ast.Name) and n.id == h.name and not isinstance(n.ctx, ast.Load):
                            fail(n, "the exception name is rebound in its handler")
                ts = h.type.elts if isinstance(h.type, ast.Tuple) else [h.type]
                ks = []
                for t in ts:
                    if not (isinstance(t, ast.Name) and t.id in EXNS and t.id not in self.locals):
                        fail(h, "exception class outside the table")
                    self.globals_ok(t.id, t)
                    # `except Exception` catches every exception the embedding has
                    ks.append("ExcAny" if t.id == "Exception" else EXNS[t.id])
                if named:
                    hs.append(f"({clist(ks)}, {self.local(h.name)}, {self.block(h.body, ind + 4)})")
                else:
                    hs.append(f"({clist(ks)}, {self.block(h.body, ind + 4)})")
            return f"{'STryAs' if named else 'STry'} {self.block(s.body, ind + 2)} {clist(hs)}"
        fail(s, "statement outside the supported subset")

    def super_init(self, s, v):
        """`super().__init__(...)` as a statement of __init__ in a class with exactly one base"""
        if "super" in self.locals:
            fail(s, "super is a local name")
        self.globals_ok("super", v.func.value.func)
        if v.func.value.args or v.func.value.keywords or v.func.attr != "__init__":
            fail(s, "super(...) with arguments / a method other than __init__")
        if not (self.in_class and self.fn.name == "__init__") or self.cls_node is None:
            fail(s, "super().__init__ outside an __init__ method")
        if self.fn not in self.cls_node.body:
            fail(s, "__init__ is not a direct member of its class")
        for st in ast.walk(self.fn):
            if isinstance(st, (ast.If, ast.While, ast.Try, ast.For)) and any(s is x for x in ast.walk(st)):
                fail(s, "conditional super().__init__")
        c = self.cls_node
        if len(c.bases) != 1 or c.keywords or not isinstance(c.bases[0], ast.Name):
            fail(c, "class with other than exactly one named base")
        base = c.bases[0].id
        self.globals_ok("<base>" + base, c.bases[0])
        for a in v.args:
            if isinstance(a, ast.Starred):
                fail(s, "*args in a call")
        for k in v.keywords:
            if k.arg is None:
                fail(s, "**kwargs in a call")
        args = clist([self.expr(a) for a in v.args])
        kws = clist([f"({cstr(k.arg)}, {self.expr(k.value)})" for k in v.keywords])
        return f"SSuperInit {cstr(base)} {args} {kws}"

    def translate(self, qual, ident):
        kind, params = self.header()
        body = self.block(self.fn.body, 2)
        q = clist([cstr(x) for x in qual])
        names = "".join(f" {v} = {k};" for k, v in self.rename.items()).rstrip(";")
        note = f"(* locals:{names} *)\n" if names else ""
        return (f"{note}Definition {ident} : fundef :=\n  mkFun {q} {kind}\n  {clist(params)}\n  {body}.\n")


# ----------------------------------------------------------------------------------------------
# modules

def module_bindings(tree):
    """name -> description of the module-level binding (imports, defs, classes, assignments)."""
    b = {}
    for n in tree.body:
        if isinstance(n, ast.Import):
            for a in n.names:
                b[(a.asname or a.name).split(".")[0]] = ("import", a.name, a.asname)
        elif isinstance(n, ast.ImportFrom):
            for a in n.names:
                b[a.asname or a.name] = ("from", n.module, a.name, n.level)
        elif isinstance(n, (ast.FunctionDef, ast.AsyncFunctionDef)):
            b[n.name] = ("def",)
        elif isinstance(n, ast.ClassDef):
            b[n.name] = ("class",)
        elif isinstance(n, (ast.Assign, ast.AnnAssign, ast.AugAssign)):
            ts = n.targets if isinstance(n, ast.Assign) else [n.target]
            for t in ts:
                for x in ast.walk(t):
                    if isinstance(x, ast.Name):
                        b[x.id] = ("assign", n)
        elif isinstance(n, ast.Expr) and isinstance(n.value, ast.Constant):
            pass
        else:
            # if/try/with/for at module level could rebind anything: refuse
            for x in ast.walk(n):
                if isinstance(x, ast.Name) and isinstance(x.ctx, ast.Store):
                    b[x.id] = ("conditional",)
    return b


def find_source(modname):
    spec = importlib.util.find_spec(modname)
    if spec is None or not spec.origin or not spec.origin.endswith(".py"):
        raise TranslateError(f"no source file for {modname}")
    return spec.origin


def find_function(tree, cls, name):
    body = tree.body
    if cls is not None:
        cs = [n for n in tree.body if isinstance(n, ast.ClassDef) and n.name == cls]
        if len(cs) != 1:
            raise TranslateError(f"class {cls}: {len(cs)} definitions")
        body = cs[0].body
    fs = [n for n in body if isinstance(n, (ast.FunctionDef, ast.AsyncFunctionDef)) and n.name == name]
    if len(fs) != 1:
        raise TranslateError(f"{cls + '.' if cls else ''}{name}: {len(fs)} definitions")
    # a later assignment in the same body could rebind the name
    for n in body:
        if isinstance(n, (ast.Assign, ast.AnnAssign)):
            ts = n.targets if isinstance(n, ast.Assign) else [n.target]
            for t in ts:
                if any(isinstance(x, ast.Name) and x.id == name for x in ast.walk(t)):
                    raise TranslateError(f"{name} is rebound by an assignment at line {n.lineno}")
    return fs[0]


def translate_module(modname, functions, global_table, out_name, reflect_checks, opts=None, source_names=None):
    """functions: [(class-or-None, name)].  global_table: name -> predicate(binding) saying that the
    module-level binding of `name` is the one PyMini gives a meaning to.
    source_names: {(class-or-None, name): name in the source} for a PRIVATE module-level function that the
    tree under test spells differently (found by a structural rule, see gen_uris): its body is translated
    under the name the proofs know.  Only for functions no other translated function calls."""
    path = find_source(modname)
    src = open(path, encoding="utf-8").read()
    tree = ast.parse(src, filename=path)
    if source_names:
        tree = _rename_defs(tree, source_names)
    binds = module_bindings(tree)
    translated = {(c, f) for c, f in functions}
    classes = {c for c, _ in functions if c}

    def globals_ok(name, node):
        if name.startswith("<base>"):
            # the single base class of a class whose __init__ calls super().__init__
            base = name[len("<base>"):]
            if base == "Exception":
                if binds.get(base) is not None:
                    fail(node, "Exception is rebound at module level")
                return
            if (base, "__init__") not in translated or binds.get(base) != ("class",):
                fail(node, f"base class {base}: its __init__ is not among the translated functions")
            return
        b = binds.get(name)
        if name in BUILTINS or name in ("sum", "getattr", "super", "enumerate", "next", "type") or name in EXNS:
            if b is not None:
                fail(node, f"builtin {name} is rebound at module level")
            return
        if name in classes:
            if b != ("class",):
                fail(node, f"{name} is not (only) a class of this module")
            return
        if (None, name) in translated:
            if b != ("def",):
                fail(node, f"{name} is not (only) a function of this module")
            return
        ok = global_table.get(name)
        if ok is None:
            fail(node, f"global name {name!r} outside the table")
        if not ok(b):
            fail(node, f"global name {name!r} is bound to {b!r}, not to what the table expects")

    opts = dict(opts or {})
    # which dict attributes of self each translated method may rebind / pop / delete items of (transitively)
    if opts.get("dicts"):
        direct, calls = {}, {}
        for cls, name in functions:
            if cls is None:
                continue
            fn0 = find_function(tree, cls, name)
            w, c = set(), set()
            for n in ast.walk(fn0):
                tg = n.targets if isinstance(n, (ast.Assign, ast.Delete)) else \
                    [n.target] if isinstance(n, (ast.AugAssign, ast.AnnAssign)) else []
                for t in tg:
                    if isinstance(t, ast.Attribute) and isinstance(t.value, ast.Subscript):
                        continue                      # self.D[k].a = v: the item object itself is changed, not D
                    for m in ast.walk(t):
                        if isinstance(m, ast.Attribute) and isinstance(m.value, ast.Name) and m.value.id == "self":
                            w.add(m.attr)
                if isinstance(n, ast.Call) and isinstance(n.func, ast.Attribute):
                    f0 = n.func
                    if isinstance(f0.value, ast.Attribute) and isinstance(f0.value.value, ast.Name) \
                            and f0.value.value.id == "self" and f0.attr != "get":
                        w.add(f0.value.attr)
                    if isinstance(f0.value, ast.Name) and f0.value.id == "self":
                        c.add(f0.attr)
            direct[name], calls[name] = w, c
        changed = True
        while changed:
            changed = False
            for name in direct:
                for c in calls[name]:
                    if c in direct and not direct[c] <= direct[name]:
                        direct[name] |= direct[c]
                        changed = True
        opts["write_summary"] = direct
    stateful = bool((opts or {}).get("effects")) or bool((opts or {}).get("stateful"))
    kinds = {}
    for cls, name in functions:
        fn = find_function(tree, cls, name)
        k = "KStateful" if isinstance(fn, ast.AsyncFunctionDef) else \
            function_kind(fn, cls is not None, stateful, bool(opts.get("fluent")))
        kinds.setdefault(cls, {})[name] = k
    defs, idents = [], []
    for cls, name in functions:
        fn = find_function(tree, cls, name)
        base = "f_" + (cls + "_" if cls and len(classes) > 1 else "") + name.strip("_")
        cnode = None
        if cls is not None:
            cnode = [n for n in tree.body if isinstance(n, ast.ClassDef) and n.name == cls][0]
            if cnode.decorator_list:
                raise TranslateError(f"class {cls} is decorated")
        # work items: the function itself; the continuation after its single await; its nested definitions
        items = []
        parts = split_await(fn)
        if parts is not None:
            if cls is None:
                raise TranslateError(f"async function {name} outside a class")
            items.append(([cls, name], base, parts[0], "KStateful"))
            items.append(([cls, name, "$resume"], base + "_resume", parts[1], None))
        else:
            fn2, lifted = lift_nested(fn, cls)
            items.append((([cls] if cls else []) + [name], base, fn2, None))
            for gname, g in lifted:
                items.append(([cls, name, gname], base + "_" + gname.strip("_"), g, None))
        for qual, ident, node, kind in items:
            tr = FunctionTranslator(node, cls is not None, globals_ok, cnode, kinds.get(cls), opts, kind)
            defs.append(tr.translate(qual, ident))
            idents.append(ident)
    if len(set(idents)) != len(idents):
        raise TranslateError("identifier clash in the generated file")
    reflect_checks()
    rel = modname.replace(".", "/") + ".py"
    head = (f"(* GENERATED by harness/gen_ast.py from the source text of {rel} - do not edit.\n"
            f"   One PyMini term per translated function (Base/PyMini.v); re-generated on every run. *)\n"
            "From Coq Require Import ZArith NArith List String.\n"
            "From Pygls Require Import Base.PyMini.\n"
            "Import ListNotations.\nOpen Scope string_scope.\nOpen Scope Z_scope.\n\n")
    text = head + "\n".join(defs) + f"\nDefinition prog : list fundef := {clist(idents)}.\n"
    out = os.path.join(GEN, out_name)
    os.makedirs(GEN, exist_ok=True)
    if not os.path.exists(out) or open(out).read() != text:       # keep the mtime when unchanged
        tmp = out + ".tmp%d" % os.getpid()
        open(tmp, "w").write(text)
        os.replace(tmp, out)
    return out


def _rename_defs(tree, source_names):
    """The module-level `def <source name>` of each entry renamed to the name the proofs know (in the parsed
    tree only).  Fail-closed: the new spelling must be defined exactly once, the known one not at all, and no
    translated text may mention the new spelling (a caller would then look up a name PyMini's program lacks)."""
    for (cls, name), src_name in source_names.items():
        if cls is not None or src_name == name:
            continue
        defs = [n for n in tree.body if isinstance(n, (ast.FunctionDef, ast.AsyncFunctionDef)) and n.name == src_name]
        clash = [n for n in ast.walk(tree) if (isinstance(n, (ast.FunctionDef, ast.AsyncFunctionDef, ast.ClassDef))
                                               and n.name == name) or (isinstance(n, ast.Name) and n.id == name)]
        if len(defs) != 1 or clash:
            raise TranslateError(f"{name}: cannot take {src_name} for it ({len(defs)} definitions, {len(clash)} clashes)")
        defs[0].name = name
        for n in ast.walk(tree):       # its callers (not translated themselves) keep working on the renamed tree
            if isinstance(n, ast.Name) and n.id == src_name:
                n.id = name
    return tree


def poison(out_name, why):
    """The translator stopped: leave a file that cannot compile and remove the compiled copies of
    it and of its equivalence proof, so that no stale translation is taken for the current one."""
    out = os.path.join(GEN, out_name)
    stem = out_name[:-2]
    for d, b in ((GEN, stem), (os.path.join(ROOT, "coq", "Proofs"), stem + "Equiv")):
        for ext in (".vo", ".vos", ".vok", ".glob"):
            try:
                os.remove(os.path.join(d, b + ext))
            except OSError:
                pass
    text = ("(* GENERATED by harness/gen_ast.py: the translation FAILED (fail-closed):\n   "
            + why.replace("*)", "* )").replace("(*", "( *") + " *)\n"
            "Definition translation_failed : True := I I.\n")
    if not os.path.exists(out) or open(out).read() != text:
        open(out, "w").write(text)


# ----------------------------------------------------------------------------------------------
# (A) position_codec.py

def _is_from(module, name):
    return lambda b: b is not None and b[0] == "from" and b[1] == module and b[2] == name and b[3] == 0


def _reflect_codec():
    t = importlib.import_module("lsprotocol.types")
    want = {"Utf8": "utf-8", "Utf16": "utf-16", "Utf32": "utf-32"}
    for k, v in want.items():
        m = getattr(t.PositionEncodingKind, k)
        if not (isinstance(m, str) and m == v and m.value == v and str.__eq__(m, v) is True):
            raise TranslateError(f"types.PositionEncodingKind.{k} is not the str {v!r}")
    if t.PositionEncodingKind.__eq__ is not str.__eq__:
        raise TranslateError("PositionEncodingKind overrides __eq__")
    import attr
    fields = [a.name for a in attr.fields(t.Position)]
    if fields != ["line", "character"]:
        raise TranslateError(f"types.Position fields are {fields}")
    p = t.Position(1, 2)
    if (p.line, p.character) != (1, 2) or t.Position(line=3, character=4) != t.Position(3, 4):
        raise TranslateError("types.Position constructor")
    fields = [a.name for a in attr.fields(t.Range)]
    if fields != ["start", "end"]:
        raise TranslateError(f"types.Range fields are {fields}")
    r = t.Range(start=t.Position(1, 2), end=t.Position(3, 4))
    if (r.start, r.end) != (t.Position(1, 2), t.Position(3, 4)) or t.Range(t.Position(1, 2), t.Position(3, 4)) != r:
        raise TranslateError("types.Range constructor")


CODEC_FUNCTIONS = [("PositionCodec", n) for n in (
    "is_char_beyond_multilingual_plane", "utf16_unit_offset", "client_num_units",
    "position_from_client_units", "position_to_client_units",
    "range_from_client_units", "range_to_client_units")]


def gen_codec():
    try:
        return translate_module("pygls.workspace.position_codec", CODEC_FUNCTIONS,
                                {"types": _is_from("lsprotocol", "types")}, "AstCodec.v", _reflect_codec)
    except Exception as e:
        poison("AstCodec.v", repr(e))
        raise


# ----------------------------------------------------------------------------------------------
# (B) exceptions.py

def _reflect_exceptions():
    t = importlib.import_module("lsprotocol.types")
    import attr
    fields = [a.name for a in attr.fields(t.ResponseError)]
    if fields != ["code", "message", "data"]:
        raise TranslateError(f"ResponseError fields are {fields}")
    r = t.ResponseError(code=5, message="m", data=[1])
    if (r.code, r.message, r.data) != (5, "m", [1]) or t.ResponseError(6, "n").data is not None:
        raise TranslateError("ResponseError constructor")
    for c, ok in ((2 ** 31 - 1, True), (-2 ** 31, True), (2 ** 31, False), (-2 ** 31 - 1, False), (0, True),
                  (2 ** 40, False), (-2 ** 40, False)):
        try:
            t.ResponseError(code=c, message="")
            got = True
        except ValueError:
            got = False
        if got != ok:
            raise TranslateError(f"ResponseError(code={c}) accepted={got}: not the int32 validator PyMini.ctor_check models")


EXC_FUNCTIONS = [("JsonRpcException", "__init__"), ("JsonRpcException", "supports_code"),
                 ("JsonRpcException", "to_response_error"),
                 ("JsonRpcServerError", "__init__"), ("JsonRpcServerError", "supports_code"),
                 (None, "_is_server_error_code")]


def gen_exceptions():
    try:
        return translate_module("pygls.exceptions", EXC_FUNCTIONS,
                                {"ResponseError": _is_from("lsprotocol.types", "ResponseError")},
                                "AstExceptions.v", _reflect_exceptions)
    except Exception as e:
        poison("AstExceptions.v", repr(e))
        raise


# ----------------------------------------------------------------------------------------------
# (C) uris.py

DRIVE_RE = r"^\/[a-zA-Z]:"


def _is_drive_re(b):
    r"""RE_DRIVE_LETTER_PATH = re.compile(r"^\/[a-zA-Z]:")  - the pattern PyMini.re_drive_letter_match models"""
    if b is None or b[0] != "assign" or not isinstance(b[1], ast.Assign) or len(b[1].targets) != 1:
        return False
    v = b[1].value
    return (isinstance(v, ast.Call) and isinstance(v.func, ast.Attribute) and v.func.attr == "compile"
            and isinstance(v.func.value, ast.Name) and v.func.value.id == "re" and not v.keywords
            and len(v.args) == 1 and isinstance(v.args[0], ast.Constant) and v.args[0].value == DRIVE_RE)


def _reflect_uris():
    import re
    u = importlib.import_module("pygls.uris")
    if importlib.import_module("pygls").IS_WIN is not False or u.IS_WIN is not False:
        raise TranslateError("IS_WIN is not False: PyMini gives a meaning to the POSIX branch only")
    if u.re is not re or u.RE_DRIVE_LETTER_PATH.pattern != DRIVE_RE or u.RE_DRIVE_LETTER_PATH.flags != re.compile("x").flags:
        raise TranslateError("RE_DRIVE_LETTER_PATH is not the pattern PyMini models")
    if u.parse is not importlib.import_module("urllib.parse"):
        raise TranslateError("pygls.uris.parse is not urllib.parse")


URIS_FUNCTIONS = [(None, "_normalize_win_path"), (None, "to_fs_path"), (None, "uri_scheme"),
                  (None, "from_fs_path"), (None, "urlunparse"), (None, "uri_with")]


def _uris_helper_name():
    """`_normalize_win_path` is private: should the tree spell it differently, it is the ONE private
    module-level function that both from_fs_path and uri_with call (the same rule as harness/priv.py, on the
    source text).  None when the known name is there or the rule does not single out one function; the
    translation is compared with the hand model by the kernel either way."""
    tree = ast.parse(open(find_source("pygls.uris"), encoding="utf-8").read())
    defs = {n.name: n for n in tree.body if isinstance(n, ast.FunctionDef)}
    if "_normalize_win_path" in defs or "from_fs_path" not in defs or "uri_with" not in defs:
        return None
    def called(fn):
        return {c.func.id for c in ast.walk(fn) if isinstance(c, ast.Call) and isinstance(c.func, ast.Name)}
    both = [n for n in called(defs["from_fs_path"]) & called(defs["uri_with"]) if n.startswith("_") and n in defs]
    return both[0] if len(both) == 1 else None


def gen_uris():
    def re_import(b):
        return b == ("import", "re", None)
    try:
        alias = _uris_helper_name()
        return translate_module(
            "pygls.uris", URIS_FUNCTIONS,
            {"IS_WIN": _is_from("pygls", "IS_WIN"),
             "RE_DRIVE_LETTER_PATH": _is_drive_re,
             # pygls.uris.urlparse wraps urllib: not translated, an oracle of the equivalence theorems
             "urlparse": lambda b: b == ("def",),
             # urllib.parse (quote, urlunparse): oracles of the equivalence theorems as well
             "parse": _is_from("urllib", "parse")},
            "AstUris.v", _reflect_uris,
            source_names={(None, "_normalize_win_path"): alias} if alias else None)
    except Exception as e:
        poison("AstUris.v", repr(e))
        raise


# ----------------------------------------------------------------------------------------------
# (D) workspace/text_document.py

DOC_RES = {"RE_LINE": r"[^\r\n]*(?:\r\n|\r|\n)|[^\r\n]+", "RE_START_WORD": "[A-Za-z_0-9]*$",
           "RE_END_WORD": "^[A-Za-z_0-9]*"}


def _is_re(name):
    """NAME = re.compile(<the literal PyMini.global_method gives a meaning to>), no flags"""
    def ok(b):
        if b is None or b[0] != "assign" or not isinstance(b[1], ast.Assign) or len(b[1].targets) != 1:
            return False
        v = b[1].value
        return (isinstance(v, ast.Call) and isinstance(v.func, ast.Attribute) and v.func.attr == "compile"
                and isinstance(v.func.value, ast.Name) and v.func.value.id == "re" and not v.keywords
                and len(v.args) == 1 and isinstance(v.args[0], ast.Constant) and v.args[0].value == DOC_RES[name])
    return ok


def _is_logger(b):
    """logger = logging.getLogger(...)"""
    if b is None or b[0] != "assign" or not isinstance(b[1], ast.Assign) or len(b[1].targets) != 1:
        return False
    v = b[1].value
    return (isinstance(v, ast.Call) and isinstance(v.func, ast.Attribute) and v.func.attr == "getLogger"
            and isinstance(v.func.value, ast.Name) and v.func.value.id == "logging")


def _reflect_doc():
    import re, io, logging
    m = importlib.import_module("pygls.workspace.text_document")
    t = importlib.import_module("lsprotocol.types")
    noflags = re.compile("x").flags
    for name, lit in DOC_RES.items():
        r = getattr(m, name)
        if not isinstance(r, re.Pattern) or r.pattern != lit or r.flags != noflags:
            raise TranslateError(f"{name} is not the pattern PyMini models")
    if m.re is not re or m.io is not io or m.logging is not logging or not isinstance(m.logger, logging.Logger):
        raise TranslateError("re / io / logging / logger are not the standard ones")
    P, W = t.TextDocumentContentChangePartial, t.TextDocumentContentChangeWholeDocument
    if issubclass(P, W) or issubclass(W, P) or P.__subclasses__() or W.__subclasses__():
        raise TranslateError("the two content-change classes are related by subclassing")
    import attr
    if [a.name for a in attr.fields(P)][:1] != ["range"] or "text" not in [a.name for a in attr.fields(P)] \
            or "text" not in [a.name for a in attr.fields(W)]:
        raise TranslateError("fields of the content-change classes")
    if m.types is not t:
        raise TranslateError("types is not lsprotocol.types")
    _reflect_codec()


DOC_FUNCTIONS = [("TextDocument", n) for n in (
    "source", "lines", "_apply_incremental_change", "_apply_full_change", "_apply_none_change", "apply_change",
    "offset_at_position", "word_at_position")]


def gen_doc():
    imp = lambda mod: (lambda b: b == ("import", mod, None))
    try:
        return translate_module(
            "pygls.workspace.text_document", DOC_FUNCTIONS,
            {"types": _is_from("lsprotocol", "types"), "io": imp("io"), "pathlib": imp("pathlib"),
             "logger": _is_logger, "RE_LINE": _is_re("RE_LINE"), "RE_START_WORD": _is_re("RE_START_WORD"),
             "RE_END_WORD": _is_re("RE_END_WORD")},
            "AstDoc.v", _reflect_doc)
    except Exception as e:
        poison("AstDoc.v", repr(e))
        raise


# ----------------------------------------------------------------------------------------------
# (E) progress.py

def _reflect_progress():
    t = importlib.import_module("lsprotocol.types")
    m = importlib.import_module("pygls.progress")
    import attr, concurrent.futures
    if t.PROGRESS != "$/progress" or t.WINDOW_WORK_DONE_PROGRESS_CREATE != "window/workDoneProgress/create":
        raise TranslateError("PROGRESS / WINDOW_WORK_DONE_PROGRESS_CREATE are not the strings PyMini.global_const gives")
    if [a.name for a in attr.fields(t.ProgressParams)] != ["token", "value"]:
        raise TranslateError("fields of ProgressParams")
    if [a.name for a in attr.fields(t.WorkDoneProgressCreateParams)] != ["token"]:
        raise TranslateError("fields of WorkDoneProgressCreateParams")
    if m.Future is not concurrent.futures.Future or m.ProgressParams is not t.ProgressParams \
            or m.PROGRESS is not t.PROGRESS:
        raise TranslateError("names imported by pygls.progress")


PROGRESS_FUNCTIONS = [("Progress", n) for n in (
    "_check_token_registered", "_register_token", "create", "create_async", "begin", "report", "end")]


def gen_progress():
    ty = lambda n: _is_from("lsprotocol.types", n)
    try:
        return translate_module(
            "pygls.progress", PROGRESS_FUNCTIONS,
            {"Future": _is_from("concurrent.futures", "Future"), "PROGRESS": ty("PROGRESS"),
             "WINDOW_WORK_DONE_PROGRESS_CREATE": ty("WINDOW_WORK_DONE_PROGRESS_CREATE"),
             "ProgressParams": ty("ProgressParams"),
             "WorkDoneProgressCreateParams": ty("WorkDoneProgressCreateParams")},
            "AstProgress.v", _reflect_progress, opts={"effects": {"_lsp"}, "dicts": {"tokens"}})
    except Exception as e:
        poison("AstProgress.v", repr(e))
        raise


# ----------------------------------------------------------------------------------------------
# (F) workspace/workspace.py   (update_notebook_document mutates objects through aliases -
#     `notebook = self._notebook_documents[uri]; notebook.version = ..`, the index dict nb_cells: those locals
#     are translated as PATHS into self, see _aliases)

def _reflect_workspace():
    import copy, inspect
    m = importlib.import_module("pygls.workspace.workspace")
    td = importlib.import_module("pygls.workspace.text_document").TextDocument
    pc = importlib.import_module("pygls.workspace.position_codec").PositionCodec
    t = importlib.import_module("lsprotocol.types")
    if m.copy is not copy or m.TextDocument is not td or m.PositionCodec is not pc:
        raise TranslateError("copy / TextDocument / PositionCodec are not the expected objects")
    sig = inspect.signature(td.__init__)
    names = list(sig.parameters)[1:]
    if names != ["uri", "source", "version", "language_id", "local", "sync_kind", "position_codec"]:
        raise TranslateError(f"TextDocument.__init__ parameters are {names}")
    d = {k: p.default for k, p in sig.parameters.items()}
    if not (d["source"] is None and d["version"] is None and d["language_id"] is None and d["local"] is True
            and d["sync_kind"] is t.TextDocumentSyncKind.Incremental and d["position_codec"] is None
            and d["uri"] is inspect.Parameter.empty):
        raise TranslateError("defaults of TextDocument.__init__ are not those of PyMini.ctor_default")
    if list(inspect.signature(pc.__init__).parameters)[1:] != ["encoding"]:
        raise TranslateError("PositionCodec.__init__ parameters")
    x = td("file:///x", source="s", version=3)
    if x.uri != "file:///x" or x.version != 3 or x.source != "s" or x.language_id is not None:
        raise TranslateError("TextDocument does not keep its constructor arguments")


WORKSPACE_FUNCTIONS = [("Workspace", n) for n in (
    "__init__", "_create_text_document", "add_folder", "remove_folder", "get_text_document",
    "get_notebook_document", "put_text_document", "remove_text_document", "put_notebook_document",
    "remove_notebook_document", "update_text_document", "update_notebook_document")]


def gen_workspace():
    imp = lambda mod: (lambda b: b == ("import", mod, None))
    try:
        return translate_module(
            "pygls.workspace.workspace", WORKSPACE_FUNCTIONS,
            {"copy": imp("copy"), "types": _is_from("lsprotocol", "types"),
             "TextDocument": _is_from("pygls.workspace.text_document", "TextDocument"),
             "PositionCodec": _is_from("pygls.workspace.position_codec", "PositionCodec"),
             "TextDocumentSyncKind": _is_from("lsprotocol.types", "TextDocumentSyncKind"),
             "PositionEncodingKind": _is_from("lsprotocol.types", "PositionEncodingKind"),
             # pygls.uris functions: not linked here, oracles of the __init__ theorem
             "uri_scheme": _is_from("pygls.uris", "uri_scheme"), "to_fs_path": _is_from("pygls.uris", "to_fs_path"),
             "logger": _is_logger},
            "AstWorkspace.v", _reflect_workspace,
            opts={"dicts": {"_text_documents", "_notebook_documents", "_cell_in_notebook", "_folders", "_docs"}})
    except Exception as e:
        poison("AstWorkspace.v", repr(e))
        raise


# ----------------------------------------------------------------------------------------------
# (G) feature_manager.py   (NOT translated: the thread() decorator, wrap_with_server, assign_help_attrs,
#     assign_thread_attr - they change attributes of function objects, which have identity; the calls of the
#     last three from the decorators are RECORDED)

FEATURE_CONSTANTS = {"ATTR_EXECUTE_IN_THREAD": "execute_in_thread", "ATTR_COMMAND_TYPE": "command",
                     "ATTR_FEATURE_TYPE": "feature", "ATTR_REGISTERED_NAME": "reg_name",
                     "ATTR_REGISTERED_TYPE": "reg_type", "PARAM_LS": "ls"}


def _reflect_features():
    import inspect, itertools, typing, logging
    c = importlib.import_module("pygls.constants")
    m = importlib.import_module("pygls.feature_manager")
    x = importlib.import_module("pygls.exceptions")
    lsp = importlib.import_module("pygls.lsp")
    for k, v in FEATURE_CONSTANTS.items():
        if getattr(c, k) != v or getattr(m, k) is not getattr(c, k):
            raise TranslateError(f"pygls.constants.{k} is not {v!r}")
    if m.inspect is not inspect or m.itertools is not itertools or m.get_type_hints is not typing.get_type_hints \
            or not isinstance(m.logger, logging.Logger):
        raise TranslateError("inspect / itertools / get_type_hints / logger are not the standard ones")
    for n in ("ValidationError", "FeatureAlreadyRegisteredError", "CommandAlreadyRegisteredError"):
        if getattr(m, n) is not getattr(x, n) or not issubclass(getattr(x, n), Exception):
            raise TranslateError(f"{n} is not pygls.exceptions.{n}")
    if m.is_instance is not lsp.is_instance or m.get_method_options_type is not lsp.get_method_options_type:
        raise TranslateError("is_instance / get_method_options_type are not those of pygls.lsp")


FEATURE_FUNCTIONS = [(None, "get_help_attrs"), (None, "has_ls_param_or_annotation"), (None, "is_thread_function"),
                     ("FeatureManager", "command"), ("FeatureManager", "feature")]


def gen_features():
    imp = lambda mod: (lambda b: b == ("import", mod, None))
    co = lambda n: _is_from("pygls.constants", n)
    ex = lambda n: _is_from("pygls.exceptions", n)
    isdef = lambda b: b == ("def",)
    table = {"inspect": imp("inspect"), "itertools": imp("itertools"),
             "get_type_hints": _is_from("typing", "get_type_hints"), "logger": _is_logger,
             "get_method_options_type": _is_from("pygls.lsp", "get_method_options_type"),
             "is_instance": _is_from("pygls.lsp", "is_instance"),
             # module-level functions that change attributes of function objects: their calls are recorded
             "assign_help_attrs": isdef, "wrap_with_server": isdef}
    table.update({k: co(k) for k in FEATURE_CONSTANTS})
    table.update({k: ex(k) for k in ("ValidationError", "FeatureAlreadyRegisteredError", "CommandAlreadyRegisteredError")})
    try:
        return translate_module(
            "pygls.feature_manager", FEATURE_FUNCTIONS, table, "AstFeatures.v", _reflect_features,
            opts={"stateful": True, "dicts": {"_features", "_commands", "_feature_options"},
                  "constants": FEATURE_CONSTANTS, "effect_functions": {"assign_help_attrs", "wrap_with_server"}})
    except Exception as e:
        poison("AstFeatures.v", repr(e))
        raise


# ----------------------------------------------------------------------------------------------
# (H) capabilities.py: ServerCapabilitiesBuilder._provider_options, _build and the _with_* methods that do not
#     write through a reference to a registered option object.
#     NOT translated (coq/Proofs/AstCapsEquiv.v says the same):
#       _with_completion, _with_inlay_hints, _with_code_action, _with_code_lens, _with_document_link,
#       _with_workspace_symbol, _with_diagnostic_provider - `value.resolve_provider = ..` /
#         `value.workspace_diagnostics = ..` where `value` is what a method call returned: either the option
#         object the user registered (shared, written in place - Model/Caps.v's heap) or a fresh default; PyMini
#         has no identity for values that come out of a call;
#       _with_semantic_tokens, _with_position_encodings - loops with break / return that PyMini has, but also
#         isinstance against an lsprotocol class and membership in a module-level frozenset;
#       _with_workspace_capabilities - setattr with a computed name, an f-string key into get_capability;
#       build - chains the methods above;  __init__ - types.ServerCapabilities() (checked structurally below);
#       get_capability - reduce(getattr, field.split(".")): an ORACLE of the theorems, sampled by reflection.

CAPS_PLAIN = ["hover", "signature_help", "declaration", "definition", "type_definition", "implementation",
              "references", "document_highlight", "document_symbol", "color", "document_formatting",
              "document_range_formatting", "document_on_type_formatting", "folding_range", "selection_range",
              "call_hierarchy", "type_hierarchy", "linked_editing_range", "moniker", "inline_value_provider"]
CAPS_OTHER = ["text_document_sync", "notebook_document_sync", "rename", "execute_command"]
CAPS_FUNCTIONS = [("ServerCapabilitiesBuilder", n) for n in
                  ["_provider_options", "_build"] + ["_with_" + n for n in CAPS_OTHER + CAPS_PLAIN]]
CAPS_CTORS = {"SignatureHelpOptions": [], "RenameOptions": ["prepare_provider"],
              "ExecuteCommandOptions": ["commands"],
              "TextDocumentSyncOptions": ["open_close", "change", "will_save", "will_save_wait_until", "save"]}


def _caps_tree():
    path = find_source("pygls.capabilities")
    return ast.parse(open(path, encoding="utf-8").read(), filename=path)


def _caps_constants(tree):
    """the `types.NAME` method constants the translated functions mention"""
    out = set()
    for cls, name in CAPS_FUNCTIONS:
        for n in ast.walk(find_function(tree, cls, name)):
            if isinstance(n, ast.Attribute) and isinstance(n.value, ast.Name) and n.value.id == "types" \
                    and n.attr.isupper():
                out.add(n.attr)
    return sorted(out)


def _reflect_caps():
    import attrs
    t = importlib.import_module("lsprotocol.types")
    m = importlib.import_module("pygls.capabilities")
    if m.types is not t:
        raise TranslateError("capabilities.types is not lsprotocol.types")
    tree = _caps_tree()
    # method constants are opaque, pairwise different values in PyMini (VGlobal [types; NAME]): they must be
    # pairwise different strs
    names = _caps_constants(tree)
    vals = [getattr(t, n) for n in names]
    if not all(type(v) is str for v in vals) or len(set(vals)) != len(vals):
        raise TranslateError("lsprotocol method constants are not pairwise different strs")
    # record constructors: the listed fields lead the attrs fields; defaults as in PyMini.ctor_default
    for cls, fs in CAPS_CTORS.items():
        af = attrs.fields(getattr(t, cls))
        if [a.name for a in af][:len(fs)] != fs:
            raise TranslateError(f"fields of {cls}")
        for a in af:
            if a.name in fs and cls == "ExecuteCommandOptions":
                if a.default is not attrs.NOTHING:
                    raise TranslateError("ExecuteCommandOptions.commands has a default")
            elif a.default is not None:
                raise TranslateError(f"{cls}.{a.name} does not default to None")
        if getattr(t, cls).__attrs_attrs__ is not af and False:
            pass
    # ServerCapabilities: slots (an unknown attribute cannot be assigned)
    sc = t.ServerCapabilities()
    try:
        sc.no_such_attribute_ = 1
        raise TranslateError("ServerCapabilities accepts unknown attributes")
    except AttributeError:
        pass
    if any(getattr(sc, a.name) is not None for a in attrs.fields(t.ServerCapabilities)):
        raise TranslateError("ServerCapabilities() has a field that is not None")
    # get_capability, the oracle: option chaining with a default
    cc = t.ClientCapabilities(text_document=t.TextDocumentClientCapabilities(
        synchronization=t.TextDocumentSyncClientCapabilities(will_save=True)))
    g = m.get_capability
    if not (g(cc, "text_document.synchronization.will_save") is True
            and g(cc, "text_document.synchronization.will_save_wait_until") is None
            and g(cc, "text_document.rename.prepare_support", False) is False
            and g(t.ClientCapabilities(), "text_document.synchronization.will_save") is None
            and g(cc, "no.such", 7) == 7):
        raise TranslateError("get_capability is not option chaining with a default")


def _caps_owned(tree):
    """self.server_cap is assigned exactly once in the class, in __init__, as `types.ServerCapabilities()`, and
    is never read other than as `self.server_cap.<field> = ..` / `return self.server_cap` in _build: the
    builder owns it (nothing else can see a write to it before _build hands it out)"""
    import attrs
    t = importlib.import_module("lsprotocol.types")
    cls = [n for n in tree.body if isinstance(n, ast.ClassDef) and n.name == "ServerCapabilitiesBuilder"]
    if len(cls) != 1:
        raise TranslateError("class ServerCapabilitiesBuilder")
    assigns = []
    for fn in cls[0].body:
        if not isinstance(fn, (ast.FunctionDef, ast.AsyncFunctionDef)):
            continue
        for n in ast.walk(fn):
            tg = n.targets if isinstance(n, ast.Assign) else [n.target] if isinstance(n, (ast.AugAssign, ast.AnnAssign)) else []
            for x in tg:
                if isinstance(x, ast.Attribute) and x.attr == "server_cap":
                    assigns.append((fn.name, n))
    ok = (len(assigns) == 1 and assigns[0][0] == "__init__" and isinstance(assigns[0][1], ast.Assign)
          and ast.dump(assigns[0][1].value) == ast.dump(ast.parse("types.ServerCapabilities()").body[0].value)
          and assigns[0][1] in find_function(tree, "ServerCapabilitiesBuilder", "__init__").body)
    if not ok:
        raise TranslateError("self.server_cap is not assigned exactly once, in __init__, as types.ServerCapabilities()")
    return {"server_cap": {a.name for a in attrs.fields(t.ServerCapabilities)}}


def gen_caps():
    isdef = lambda b: b == ("def",)
    try:
        owned = _caps_owned(_caps_tree())
        return translate_module(
            "pygls.capabilities", CAPS_FUNCTIONS,
            {"types": _is_from("lsprotocol", "types"), "get_capability": isdef},
            "AstCaps.v", _reflect_caps, opts={"fluent": True, "owned": owned})
    except Exception as e:
        poison("AstCaps.v", repr(e))
        raise


# ----------------------------------------------------------------------------------------------
# (I) protocol/json_rpc.py JsonRPCProtocol._send_data and io_.py StdoutWriter.write: what reaches the writer
#     (header, body, ONE write call; write + flush).  json.dumps (with the default= hook), inspect.isawaitable and
#     format(int) are oracles; self.writer.write / self._server._report_server_error / asyncio.ensure_future are
#     RECORDED calls (a recorded call returns normally).

def _reflect_send():
    import asyncio, inspect, json, logging
    m = importlib.import_module("pygls.protocol.json_rpc")
    x = importlib.import_module("pygls.exceptions")
    if m.json is not json or m.inspect is not inspect or m.asyncio is not asyncio \
            or not isinstance(m.logger, logging.Logger):
        raise TranslateError("json / inspect / asyncio / logger are not the standard ones")
    if m.JsonRpcInternalError is not x.JsonRpcInternalError:
        raise TranslateError("JsonRpcInternalError is not pygls.exceptions.JsonRpcInternalError")
    P = m.JsonRPCProtocol
    if P.CHARSET != "utf-8" or P.CONTENT_TYPE != "application/vscode-jsonrpc":
        raise TranslateError("CHARSET / CONTENT_TYPE are not the constants of the theorem")
    lp = importlib.import_module("pygls.protocol.language_server").LanguageServerProtocol
    if lp.CHARSET != P.CHARSET or lp.CONTENT_TYPE != P.CONTENT_TYPE or "_send_data" in vars(lp):
        raise TranslateError("LanguageServerProtocol overrides CHARSET / CONTENT_TYPE / _send_data")
    # format(int) inside an f-string is str(int): decimal digits (the oracle `format` of the theorem)
    if f"{1234567890}" != "1234567890" or f"{0}" != "0":
        raise TranslateError("f-string of an int")
    if "a\ud800".encode.__self__ is None:
        pass
    try:
        "\ud800".encode("utf-8")
        raise TranslateError("utf-8 encodes a surrogate")
    except UnicodeEncodeError as e:
        if not isinstance(e, Exception):
            raise TranslateError("UnicodeEncodeError is not an Exception")


def gen_send():
    imp = lambda mod: (lambda b: b == ("import", mod, None))
    try:
        return translate_module(
            "pygls.protocol.json_rpc", [("JsonRPCProtocol", "_send_data")],
            {"json": imp("json"), "inspect": imp("inspect"), "asyncio": imp("asyncio"), "logger": _is_logger,
             "JsonRpcInternalError": _is_from("pygls.exceptions", "JsonRpcInternalError")},
            "AstSend.v", _reflect_send,
            opts={"effects": {"writer", "_server"}, "effect_functions": {"asyncio.ensure_future"}})
    except Exception as e:
        poison("AstSend.v", repr(e))
        raise


def _reflect_writer():
    m = importlib.import_module("pygls.io_")
    import inspect
    if list(inspect.signature(m.StdoutWriter.write).parameters) != ["self", "data"]:
        raise TranslateError("StdoutWriter.write parameters")


def gen_writer():
    try:
        return translate_module("pygls.io_", [("StdoutWriter", "write")], {}, "AstWriter.v", _reflect_writer,
                                opts={"effects": {"_stdout"}})
    except Exception as e:
        poison("AstWriter.v", repr(e))
        raise


GENERATORS = {"codec": gen_codec, "exceptions": gen_exceptions, "uris": gen_uris, "doc": gen_doc,
              "progress": gen_progress, "workspace": gen_workspace, "features": gen_features,
              "caps": gen_caps, "send": gen_send, "writer": gen_writer}

if __name__ == "__main__":
    which = sys.argv[1:] or ["codec"]
    for w in which:
        out = GENERATORS[w]()
        print(f"gen_ast: {w} -> {os.path.relpath(out, ROOT)}")
