"""C16 - answered requests leave nothing behind.

ONE real endpoint (harness/sched.py) serves a long history: n incoming requests over
{sync, async, thread} x {return, raise, raise rpc, unserialisable, cancelled} and m outgoing requests
answered by {result, error, duplicate}, n + m up to 10^3 (quick) / 10^4 (thorough).  The history is a
concatenation of independently generated blocks (model-guided random interleaving, each ended by a
drain); the end of every block is a checkpoint where everything is answered.  The extracted
Model/Endpoint.v is compared after EVERY event (key lists of both tables included); the oracle
requires at every checkpoint that both in-flight tables (harness/priv.py) are empty, and - observed only,
Python's heap is not modelled - that after gc.collect() no sentinel object created inside a
finished handler is still alive."""
import gc
import json
import os
import sys
import weakref

import core
import sched
import priv
import c01
from c01 import B

IDS = [0, 1, 2 ** 53, "", "0", "1", "a"]


def _shift(ev, t0, j0, o0):
    if ev[0] in ("task", "cb"):
        return [ev[0], ev[1] + t0]
    if ev[0] in ("jstart", "jfin"):
        return [ev[0], ev[1] + j0]
    if ev[0] == "ocancel":
        return [ev[0], ev[1] + o0]
    return ev


def _rename(ev, k):
    """Outgoing ids are unique over the whole history (uuid4 in production)."""
    gen = lambda i: isinstance(i, str) and i.startswith("out-")
    if ev[0] == "send" and gen(ev[1]):
        if len(ev) > 2:
            return ["send", "%s#%d" % (ev[1], k), ev[2], dict(ev[3], id="%s#%d" % (ev[3]["id"], k))]
        return ["send", "%s#%d" % (ev[1], k)]
    if ev[0] == "recv" and ev[1]["t"] == "resp" and gen(ev[1]["id"]):
        f = dict(ev[1])
        f["id"] = "%s#%d" % (f["id"], k)
        return ["recv", f]
    return ev


# ---------------------------------------------------------------- memory probes (observed only)
class _NullWriter:
    def write(self, data):
        pass

    def close(self):
        pass


def _feed(proto, obj):
    """What the read loop does with one frame."""
    try:
        proto.handle_message(json.loads(json.dumps(obj), object_hook=proto.structure_message))
    except Exception:      # noqa
        pass


def probe_methods(n):
    """n answered requests with pairwise distinct (unknown) method names on one endpoint; allocated
    blocks after gc.collect() at the four quarters of the history."""
    import logging
    logging.disable(logging.CRITICAL)
    from pygls.lsp.server import LanguageServer
    srv = LanguageServer("probe", "v")
    proto = srv.protocol
    proto.set_writer(_NullWriter())
    samples = []
    for k in range(n):
        _feed(proto, {"jsonrpc": "2.0", "id": k, "method": "x/m%d" % k, "params": {}})
        if (k + 1) % (n // 4) == 0:
            gc.collect()
            samples.append(sys.getallocatedblocks())
    return {"blocks": samples, "second_half_growth": samples[3] - samples[1],
            "tables": len(priv.request_futures(proto)) + len(priv.result_types(proto))}


def probe_servers(ks):
    """K short-lived servers, each handles a request and a notification and is dropped; how many
    protocol objects are still alive after gc.collect()."""
    import logging
    logging.disable(logging.CRITICAL)
    from pygls.lsp.server import LanguageServer
    alive = []
    for K in ks:
        refs = []
        for _ in range(K):
            srv = LanguageServer("probe", "v")
            proto = srv.protocol
            proto.set_writer(_NullWriter())
            _feed(proto, {"jsonrpc": "2.0", "id": 1, "method": "x/none"})
            _feed(proto, {"jsonrpc": "2.0", "method": "initialized", "params": {}})
            refs.append(weakref.ref(proto))
            del srv, proto
        gc.collect()
        alive.append(sum(1 for r in refs if r() is not None))
        del refs
    return {"ks": list(ks), "alive": alive}


@priv.in_worker
def probe_census(n):
    """harness/c16_census.py in a fresh interpreter (default warning filters): census of what pygls owns after
    serving the same history shape at length n and 2n, per history class."""
    import subprocess
    r = subprocess.run([core.PY, os.path.join(core.ROOT, "harness", "c16_census.py"), str(n)],
                       capture_output=True, text=True, timeout=600,
                       env=dict(os.environ, PYTHONWARNINGS=""))
    lines = [l for l in r.stdout.splitlines() if l.startswith("{")]
    if r.returncode != 0 or not lines:
        return ["raise", "census", (r.stderr or "")[-300:]]
    return json.loads(lines[-1])


def _run_any(case):
    try:
        if case.get("probe") == "census":
            return probe_census(case["n"])
        if case.get("probe") == "methods":
            return probe_methods(case["n"])
        if case.get("probe") == "servers":
            return probe_servers(case["ks"])
    except priv.Unresolvable:       # a failure of the harness, not an observation of pygls
        raise
    except BaseException as ex:     # noqa
        return ["raise", type(ex).__name__, str(ex)[:200]]
    return c01._run_one(case)


# thresholds, calibrated on /repo HEAD (5 runs each): second-half growth of allocated blocks is within
# +-60 for n = 2 000 and n = 20 000 (an unbounded per-method cache costs about 1 block per request: ~2 000 /
# ~20 000); the default-sized lru_cache of get_message_type pins 64 of these protocol objects whatever K
# (at most 128 cache rows, two lookups per server) - a bounded leak, not growth
GROWTH_FLOOR, GROWTH_PER_REQUEST = 300, 0.05
PINNED_MAX, PINNED_SLACK = 128, 8


class C16(c01.C01):
    id = "C16"
    modules = ["Proofs.EndpointFuts", "Proofs.EndpointXProofs", "Proofs.C16Proofs", "Proofs.OutgoingProofs", "Props.C16", "Proofs.LinkEndpointOutgoing"]
    obligations = ["fw_step", "fw_run", "fw_quiescent", "futs_subset_inflight", "table_bounded",
                   "tables_empty_at_quiescence", "osub_step", "outgoing_only_from_sends", "incoming_quiescent_empty",
                   "table_size_bounded", "runx_base", "fw_stepx", "fw_runx", "lax_runx", "at_most_one_reply_x", "inv_stepx",
                   "tables_empty_st", "table_bounded_st", "outgoing_only_from_sends_x", "incoming_quiescent_empty_x",
                   "C16_incoming", "C16_nonvacuous_x", "OutgoingProofs.rtypes_sub", "OutgoingProofs.K_run",
                   "OutgoingProofs.C16_outgoing", "C16", "C16_nonvacuous",
                   "LinkEndpointOutgoing.sim_stepx", "LinkEndpointOutgoing.link_run", "LinkEndpointOutgoing.link_observables",
                   "LinkEndpointOutgoing.C16_composed", "LinkEndpointOutgoing.composed_needs_disjoint",
                   "LinkEndpointOutgoing.composed_nonvacuous"]
    coq_targets = ["Props/C16.vo", "Extract/ExtractC16.vo", "Proofs/LinkEndpointOutgoing.vo"]
    rule = ("one endpoint, one history of n incoming requests over {sync, async, thread} x {return, raise, raise rpc, "
            "unserialisable, cancelled} and m outgoing requests answered by {result, error, duplicate}; a checkpoint "
            "after every block; non-trivial = the history contains a raising handler, a cancelled request or an "
            "error reply")
    private = sched.PRIVATE
    trusted_base = ["Coq 8.16.1 kernel incl. vm_compute (Examples)",
                    "extraction with ExtrOcamlBasic only + ocaml/c16_driver.ml + conv_io/n/z/nat",
                    "harness/sched.py (ready-queue interposition on a private asyncio loop with _PyTask, duck-typed "
                    "pool and writers, frame decoder) and harness/c16.py (generators, canonicalisation)",
                    priv.trusted(sched.PRIVATE)]
    assumptions = ["request ids are JSON ints or strings; an incoming request never reuses the id of an outstanding "
                   "outgoing request (disjoint_directions); outgoing ids are unique (uuid4)",
                   "every outgoing request of a block is answered by a well-formed JSON-RPC 2.0 response"]

    # ---------------------------------------------------------------- blocks
    def _behav16(self, rng):
        k = rng.choice(["sync", "async", "async", "thread", "thread"])
        o = rng.choice([["ret", rng.choice([0, 1, 7])], ["raise"], ["raise"], ["rpc", rng.choice([-32001, 5])], ["unser"]])
        return B(k, o, n=rng.choice([0, 1, 2]), early=rng.random() < 0.2, r=rng.choice(["prop", "prop", "swallow"]))

    def _block(self, rng, cfg, final=False):
        """One block: a few requests, cancels by the client ($/cancelRequest), by the server (ServerCancel:
        cancel() without pop) and - in a final block - by `shutdown` with requests still pending; outgoing
        requests answered by result / error / duplicate, before or after the caller gave up on them."""
        ids = list(IDS)
        rng.shuffle(ids)
        msgs, used = [], []
        for _ in range(rng.choice([1, 1, 2, 3]) + (1 if final else 0)):
            i = ids.pop()
            used.append(i)
            x = rng.random()
            if x < 0.75 or final:
                b = self._behav16(rng)
                if final and rng.random() < 0.7:
                    b = B(rng.choice(["async", "thread"]), b["o"], n=rng.choice([0, 1, 2]), r=b["r"])
                m, ps = ["user", b], "ok"
            elif x < 0.85:
                m, ps = ["command", self._behav16(rng) if rng.random() < 0.8 else None, None], "ok"
            elif x < 0.93:
                m, ps = ["unknown", rng.choice([0, 1])], "ok"
            else:
                m, ps = ["unknown", 0], rng.choice(["bad", "fail"])
            msgs.append(["recv", {"t": "req", "id": i, "ver": True, "ps": ps, "m": m, "np": False}])
            if m[0] == "unknown" and ps == "ok":
                msgs[-1][1]["mn"] = rng.randrange(10 ** 6)
        for a in range(rng.choice([0, 0, 1, 1, 2])):
            tgt = rng.choice(used) if rng.random() < 0.8 else rng.choice(IDS)
            pos = rng.randint(1, len(msgs))
            if rng.random() < 0.5:
                msgs.insert(pos, ["recv", {"t": "notif", "tag": 100 + a, "ver": True, "ps": "ok", "m": ["cancel", tgt]}])
            else:
                msgs.insert(pos, ["scancel", tgt])
        if rng.random() < 0.25:
            msgs.insert(rng.randint(0, len(msgs)),
                        ["recv", {"t": "notif", "tag": 1, "ver": True, "ps": "ok", "m": ["user", self._behav16(rng)]}])
        for a in range(0 if final else rng.choice([0, 0, 1, 1, 2])):
            # the id of an outgoing request: generated (uuid4 in production) or chosen by the caller
            # (send_request(msg_id=...)): both JSON types, the falsy 0 and "" included
            oid = ids.pop() if (ids and rng.random() < 0.5) else "out-%d" % a
            pos = rng.randint(0, len(msgs))
            msgs.insert(pos, ["send", oid])
            kind = rng.choice(["result", "error", "dup", "dup-error"])
            follow = [["recv", {"t": "resp", "id": oid, "ver": True, "err": kind in ("error", "dup-error"), "ps": "ok"}]]
            if kind.startswith("dup"):
                follow.append(["recv", {"t": "resp", "id": oid, "ver": True, "err": rng.random() < 0.5, "ps": "ok"}])
            if cfg["writer"] == "blocking" and rng.random() < 0.3:
                # reactive transport: the first answer is dispatched while send_request is inside write()
                msgs[pos] = ["send", oid, "react", follow.pop(0)[1]]
            x = rng.random()
            if x < 0.4:
                follow.insert(0, ["ocancel", oid])           # the caller gives up, THEN the peer answers
            elif x < 0.6:
                follow.append(["ocancel", oid])              # answered, then cancelled
            for r in follow:
                pos = rng.randint(pos + 1, len(msgs))
                msgs.insert(pos, r)
        if final:
            # shutdown while requests are pending: it cancels every entry WITHOUT popping it
            msgs.insert(rng.randint(max(1, len(msgs) - 2), len(msgs)),
                        ["recv", {"t": "req", "id": ids.pop(), "ver": True, "ps": "ok", "m": ["shutdown", None]}])
        # the o-th future returned by send_request, in the order of the sends of this block
        order = [e[1] for e in msgs if e[0] == "send"]
        msgs = [["ocancel", order.index(e[1])] if e[0] == "ocancel" else e for e in msgs]
        return cfg, msgs

    @staticmethod
    def _size(block_evs):
        return sum(1 for e in block_evs if e[0] == "send" or (e[0] == "recv" and e[1]["t"] == "req"))

    def _history(self, chk, cfg, target, gc_every, shutdown=True):
        """Concatenate drained blocks until n + m reaches `target`; the last block ends with a `shutdown`
        that finds requests pending."""
        rng = chk.rng
        nblocks = max(1, int(target / 2.2) + 6)
        scens = [self._block(rng, cfg) for _ in range(nblocks)] + [self._block(rng, cfg, final=True)]
        blocks = self._interleave(chk, scens, maxlen=50)
        counts = core.run_driver(self.id, [sched.encode_case(b, "counts") for b in blocks])
        evs, cps, gcs, t0, j0, o0, total = [], [], [], 0, 0, 0, 0

        def add(k, b, cnt):
            nonlocal t0, j0, o0, total
            nt, nj, q, nf, nr, no = map(int, cnt)
            if not q or nf or nr:
                return False                  # the model itself says this block does not end clean: not a checkpoint block
            evs.extend(_shift(_rename(e, k), t0, j0, o0) for e in b["evs"])
            t0, j0, o0 = t0 + nt, j0 + nj, o0 + no
            total += self._size(b["evs"])
            cps.append(len(evs) - 1)
            return True
        for k, (b, cnt) in enumerate(zip(blocks[:-1], counts[:-1])):
            if total >= target:
                break
            if add(k, b, cnt) and len(cps) % gc_every == 0:
                gcs.append(len(evs) - 1)
        if shutdown:
            add(len(blocks) - 1, blocks[-1], counts[-1])
        if cps and cps[-1] not in gcs:
            gcs.append(cps[-1])
        return {"cfg": cfg, "evs": evs, "checkpoints": cps, "gc": gcs, "n_plus_m": total}

    def generate(self, chk):
        cases = []
        cdir = os.path.join(core.ROOT, "corpus", "C16")
        if os.path.isdir(cdir):
            for f in sorted(os.listdir(cdir)):
                if f.endswith(".json"):
                    cases.extend(json.load(open(os.path.join(cdir, f))))
        cases.append({"probe": "census", "n": chk.n(50, 100)})
        cases.append({"probe": "methods", "n": chk.n(2000, 20000)})
        cases.append({"probe": "servers", "ks": chk.n([150, 300], [150, 300, 450])})
        rng = chk.rng
        sizes = chk.n([10, 10, 30, 100, 100, 300, 1000, 1000], [10, 100, 100, 1000, 1000, 3000, 10000])
        for a, n in enumerate(sizes):
            cfg = {"writer": "awaitable" if a % 2 else "blocking", "hook": ["quiet", "default", "raises"][a % 3], "wfail": None}
            cases.append(self._history(chk, cfg, n, gc_every=1 if n <= 100 else 10))
        # many short histories as well (every block its own endpoint)
        for _ in range(chk.n(110, 800)):
            cfg = {"writer": rng.choice(["blocking", "awaitable"]), "hook": rng.choice(["quiet", "default", "raises"]), "wfail": None}
            cases.append(self._history(chk, cfg, rng.choice([1, 2, 3, 5]), gc_every=1, shutdown=rng.random() < 0.6))
        return cases

    # ---------------------------------------------------------------- implementation
    def run_impl(self, chk, cases):
        # the long ones first keeps the 4 workers busy; the memory probes run in the workers as well
        weight = lambda c: 10 ** 9 if "probe" in c else len(c["evs"])
        order = sorted(range(len(cases)), key=lambda k: -weight(cases[k]))
        ordered = [cases[k] for k in order]
        if len(cases) < 8:
            res = [_run_any(c) for c in ordered]
        else:
            import multiprocessing as mp
            with mp.get_context("fork").Pool(4) as pool:
                res = pool.map(_run_any, ordered, chunksize=1)
        priv.collect(res)
        out = [None] * len(cases)
        for k, r in zip(order, res):
            out[k] = r
        growth = []
        probes = []
        for c, r in zip(cases, out):
            if "probe" in c:
                m = r
                if c["probe"] == "census" and isinstance(r, dict):
                    m = {k: v for k, v in r.items() if k != "classes"}
                    m["grown"] = {cl: v["grown"] for cl, v in r["classes"].items() if v["grown"]}
                    m["classes"] = sorted(r["classes"])
                    m["census_entries"] = max(v["census_entries"] for v in r["classes"].values())
                probes.append({"probe": c["probe"], "measured": m})
        for c, r in zip(cases, out):
            if isinstance(r, dict) and "obs" in r and c.get("n_plus_m", 0) >= 100:
                sz = [len(o["futs"]) + len(o["rtypes"]) for o in r["obs"]]
                growth.append({"n_plus_m": c["n_plus_m"], "events": len(c["evs"]), "checkpoints": len(c.get("checkpoints", [])),
                               "max_table_size": max(sz) if sz else 0,
                               "table_size_at_checkpoints": sorted({sz[k] for k in c.get("checkpoints", [])}),
                               "sentinels_alive_at_gc_points": sorted({a for _, a in r.get("gc", [])}),
                               "first_half_max": max(sz[:len(sz) // 2] or [0]), "second_half_max": max(sz[len(sz) // 2:] or [0])})
        self.extra_coverage = {"growth": growth, "memory_probes": probes,
                               "memory_thresholds": {"second_half_growth_blocks": "max(%d, %.2f * n)" % (GROWTH_FLOOR, GROWTH_PER_REQUEST),
                                                     "pinned_protocols": "<= %d + %d, not growing with K" % (PINNED_MAX, PINNED_SLACK)},
                               "note": "table size and live sentinels as a function of history length: constant (0 at every "
                                       "checkpoint, maximum = requests in flight), independent of n + m"}
        return out

    # ---------------------------------------------------------------- model / reference
    @staticmethod
    def _expand(case):
        """A reactive send is, for the model, the send followed by the arrival of the answer."""
        evs, pairs = [], []
        for e in case["evs"]:
            if e[0] == "send" and len(e) > 2:
                pairs.append(len(evs))
                evs.append(["send", e[1]])
                evs.append(["recv", e[3]])
            else:
                evs.append(e)
        return {"cfg": case["cfg"], "evs": evs}, pairs

    @staticmethod
    def _merge(obs, pairs):
        """One observation per case event: the two model observations of a reactive send are merged."""
        out, k, first = [], 0, set(pairs)
        while k < len(obs):
            if k in first:
                a, b = obs[k], obs[k + 1]
                m = dict(b)
                for f in ("out", "hlog", "errs"):
                    m[f] = a[f] + b[f]
                out.append(m)
                k += 2
            else:
                out.append(obs[k])
                k += 1
        return out

    def model_input(self, case):
        if "probe" in case:
            return sched.encode_case({"cfg": {"writer": "blocking", "hook": "quiet", "wfail": None}, "evs": []})
        return sched.encode_case(case)

    def model_output(self, case, toks):
        if "probe" in case:
            return {"M": None, "S": {"probe": case["probe"]}, "guard": True, "klass": None}
        mcase, pairs = self._expand(case)
        obs, summ = sched.parse_run(toks, len(mcase["evs"]))
        obs = self._merge(obs, pairs)
        for o in obs:
            o.pop("undef")
            o["hlog"] = [h for h in o["hlog"] if h[1] != "builtin"]
        S = {"checkpoints": case.get("checkpoints", []), "gc": case.get("gc", [])}
        return {"M": {"obs": obs}, "S": S, "guard": True, "klass": None}

    def same(self, case, impl, M):
        if "probe" in case:
            return isinstance(impl, dict)            # no model of Python's heap: judged by S alone
        if not isinstance(impl, dict) or "anomalies" in impl:
            return False
        return core.canon(impl.get("obs")) == core.canon(M["obs"])

    def satisfies(self, case, impl, S):
        if "probe" in case:
            if not isinstance(impl, dict):
                return False
            if case["probe"] == "census":
                # nothing pygls owns may differ between serving n and 2n requests of any class
                return (impl.get("warmup_stable") is True and
                        all(not v["grown"] and v["tables"] == [0, 0] for v in impl["classes"].values()))
            if case["probe"] == "methods":
                return (impl["tables"] == 0 and
                        impl["second_half_growth"] <= max(GROWTH_FLOOR, GROWTH_PER_REQUEST * case["n"]))
            alive = impl["alive"]
            return (all(a <= PINNED_MAX + PINNED_SLACK for a in alive) and
                    all(b <= a + PINNED_SLACK for a, b in zip(alive, alive[1:])))
        if not isinstance(impl, dict) or "obs" not in impl:
            return False
        obs = impl["obs"]
        for k in S["checkpoints"]:
            o = obs[k]
            if not o["quiescent"]:
                return False                  # the block was generated to end with everything answered
            if o["futs"] or o["rtypes"]:
                return False
        alive = dict((k, a) for k, a in impl.get("gc", []))
        for k in S["gc"]:
            if alive.get(k, 0) != 0:
                return False
        return True

    def nontrivial(self, case):
        if "probe" in case:
            return True
        for e in case["evs"]:
            if e[0] == "recv":
                f = e[1]
                if f["t"] == "resp" and f["err"]:
                    return True
                if f["t"] == "notif" and f["m"][0] == "cancel":
                    return True
                for b in self._behavs(e):
                    if b["o"][0] in ("raise", "rpc"):
                        return True
        return False

    def shrink(self, case):
        if "probe" in case:
            return
        evs = case["evs"]
        cps = case.get("checkpoints", [])
        # drop whole blocks from the end, then from the start (indices shift: only suffix removal is safe)
        for k in range(len(cps) - 1, 0, -1):
            cut = cps[k - 1] + 1
            yield {"cfg": case["cfg"], "evs": evs[:cut], "checkpoints": cps[:k], "gc": [g for g in case.get("gc", []) if g < cut] + [cut - 1]}
        if case["cfg"]["hook"] != "quiet":
            yield dict(case, cfg=dict(case["cfg"], hook="quiet"))

    def search(self, chk):
        cases = []
        for _ in range(200):
            cfg = {"writer": chk.rng.choice(["blocking", "awaitable"]), "hook": "quiet", "wfail": None}
            cases.append(self._history(chk, cfg, 3, gc_every=1))
        res = core.evaluate(self, chk, cases)
        return [r for r in res if not self.satisfies(r["case"], r["impl"], r["S"])][:1]

    def distribution(self, cases):
        d = super().distribution([c for c in cases if "probe" not in c])
        for c in cases:
            if "probe" in c:
                d["probe/" + c["probe"]] = d.get("probe/" + c["probe"], 0) + 1
                continue
            k = "n+m/%d" % (10 ** len(str(max(1, c.get("n_plus_m", 1)) - 1)) if c.get("n_plus_m", 1) > 1 else 1)
            d[k] = d.get(k, 0) + 1
        return d


PROPERTY = C16
