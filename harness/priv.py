"""The ONE place where the harness reaches PRIVATE parts of pygls.

Everything a harness can learn through the public API it asks the public API (set_writer(...,
include_headers=), server.thread_pool, workspace.text_documents, fm.features / commands /
feature_options / builtin_features, fm.converter, protocol.progress.tokens, client.stopped,
handle_message(JsonRPCRequestMessage / JsonRPCNotification), ...).  What has no public route - the two
in-flight tables the properties themselves anchor on, the shutdown flag, the stop event, the slot
of the thread pool, the error handler the call sites pass to the read loops, a few private entry
points - is reached through the accessors below and NOWHERE ELSE in harness/.

Every accessor works on a NAME that is resolved once per process:
  1. the current name, if an object of the stock class still has it (no cost on an unchanged tree; only the
     presence of the name is asked, what it holds is judged by the checks);
  2. otherwise the name is DISCOVERED from behaviour on a throw-away object of the stock class
     (LanguageServer / its protocol / JsonRPCClient), e.g. "the two dicts that gain the probe id when
     send_request is called: the one holding the returned Future is the futures table";
  3. if discovery finds nothing, or more than one candidate, `Unresolvable` is raised.
`Unresolvable` derives from BaseException on purpose: the `except Exception` clauses with which the
harnesses turn failures of the LIBRARY into observations do not swallow it.  core.run_check resolves
the names a property declares (`Property.private`) before it generates a case and reports a failure
fail-closed (`VIOLATION ... no-failing-input-found`): never a crash, never a replay whose "failing
input" is an artefact of the harness.  `python harness/priv.py --selftest` runs every discovery rule
on the current tree and compares the result with the current names.
"""
import io
import logging
import threading

# ------------------------------------------------------------------------------------------------
class Unresolvable(BaseException):
    """A private part of pygls that the harness needs cannot be located in this tree."""

    def __init__(self, what, why=""):
        super().__init__(what, why)          # (args only: survives pickling across worker processes)
        self.what, self.why = what, why

    def __str__(self):
        return "private state of pygls not resolvable: %s (%s)" % (self.what, self.why)


# the names at the pinned commit (rule 1); key = "<role>.<what>"
CURRENT = {
    "protocol.request_futures": "_request_futures",
    "protocol.result_types": "_result_types",
    "protocol.shutdown_flag": "_shutdown",
    "protocol.send_response": "_send_response",
    "protocol.send_data": "_send_data",
    "protocol.get_handler": "_get_handler",
    "server.stop_event": "_stop_event",
    "server.thread_pool": "_thread_pool",
    "server.error_handler": "_report_server_error",
    "server.start_io_sync": "_start_io_sync",
    "server.start_io_async": "_start_io_async",
    "client.stop_event": "_stop_event",
    "client.async_tasks": "_async_tasks",
    "client.process": "_server",
    "client.error_handler": "_report_server_error",
    "exceptions.registered": "_EXCEPTIONS",
    "capabilities.supported_encodings": "_SUPPORTED_ENCODINGS",
    "uris.normalize_win_path": "_normalize_win_path",
    "protocol_module.dict_to_object": "_dict_to_object",
}

_NAMES = {}                  # key -> resolved name | Unresolvable
_LOCK = threading.RLock()
PROBE_ID = "priv-probe-id"
PROBE_METHOD = "priv/probe"
DISCOVER_ONLY = False        # selftest: skip rule 1


class _quiet:
    """Probes make pygls log (no transport, shutting down, ...): keep that off the console."""
    def __enter__(self):
        self.level = logging.root.manager.disable
        logging.disable(logging.CRITICAL)

    def __exit__(self, *a):
        logging.disable(self.level)


def _in_thread(fn):
    """Run a probe that calls asyncio.run() on a thread of its own (the caller may be inside a loop)."""
    box = {}

    def go():
        try:
            box["r"] = fn()
        except BaseException as e:      # noqa
            box["e"] = e
    t = threading.Thread(target=go, daemon=True)
    t.start()
    t.join(30)
    if t.is_alive():
        raise Unresolvable("probe", "a discovery probe did not return within 30 s")
    if "e" in box:
        raise box["e"]
    return box.get("r")


def _unique(key, cands, why):
    cands = sorted(set(cands))
    if len(cands) != 1:
        raise Unresolvable(key, "%s: %d candidates %r" % (why, len(cands), cands))
    return cands[0]


# ------------------------------------------------------------------------------------------------
# throw-away objects of the stock classes
def _probe_server():
    from pygls.lsp.server import LanguageServer
    return LanguageServer("priv-probe", "0")


def _probe_client():
    from pygls.client import JsonRPCClient
    return JsonRPCClient()


def _role(obj):
    from pygls.client import JsonRPCClient
    from pygls.server import JsonRPCServer
    from pygls.protocol import JsonRPCProtocol
    if isinstance(obj, JsonRPCClient):
        return "client"
    if isinstance(obj, JsonRPCServer):
        return "server"
    if isinstance(obj, JsonRPCProtocol):
        return "protocol"
    raise Unresolvable(type(obj).__name__, "neither a pygls server, client nor protocol")


# ------------------------------------------------------------------------------------------------
# rule 1: is the current name still there?  Presence (and callability for methods) on a throw-away object of
# the stock class is all that is asked: WHAT the attribute holds is the business of the checks - a change that
# turns the table into a WeakValueDictionary or initialises the flag wrongly must be judged on the cases,
# with a replay, not stop here.  (A behaviour-preserving rename removes the name: that is what rule 2 is for.)
def _current_ok(key):
    role, what = key.split(".")
    name = CURRENT[key]
    state = {"protocol": ("request_futures", "result_types", "shutdown_flag"),
             "server": ("stop_event", "thread_pool"),
             "client": ("stop_event", "async_tasks", "process")}
    if role in state:
        probe = _probe_client() if role == "client" else _probe_server()
        if role == "protocol":
            probe = probe.protocol
        if what in state[role]:
            return name in vars(probe)
        return callable(getattr(probe, name, None))
    mod = _module(role)
    if what in ("registered", "supported_encodings"):
        return hasattr(mod, name)
    return callable(getattr(mod, name, None))


def _module(role):
    import importlib
    return importlib.import_module({"exceptions": "pygls.exceptions", "capabilities": "pygls.capabilities",
                                    "uris": "pygls.uris", "protocol_module": "pygls.protocol"}[role])


# ------------------------------------------------------------------------------------------------
# rule 2: discovery.  Each function returns {key: name} for the keys it settles.
def _discover_tables():
    """The two dict attributes of a protocol that gain an entry under the probe id when send_request is
    called (no writer is set: nothing is sent).  The one that holds the returned Future is the futures
    table, the other one the result-type table."""
    from collections.abc import Mapping
    p = _probe_server().protocol
    fut = p.send_request(PROBE_METHOD, None, msg_id=PROBE_ID)
    hits = [n for n, v in vars(p).items() if isinstance(v, Mapping) and PROBE_ID in v]
    futs = [n for n in hits if vars(p)[n][PROBE_ID] is fut]
    rest = [n for n in hits if n not in futs]
    fut.cancel()
    return {"protocol.request_futures": _unique("protocol.request_futures", futs, "dict holding the Future of send_request"),
            "protocol.result_types": _unique("protocol.result_types", rest, "other dict keyed by the id of send_request")}


def _discover_shutdown_flag():
    """The attribute of a protocol that is False and becomes True when a `shutdown` request is handled."""
    from pygls.protocol import JsonRPCRequestMessage
    p = _probe_server().protocol
    before = [n for n, v in vars(p).items() if v is False]
    p.handle_message(JsonRPCRequestMessage(id=PROBE_ID, method="shutdown", jsonrpc="2.0", params=None))
    return {"protocol.shutdown_flag": _unique("protocol.shutdown_flag", [n for n in before if vars(p).get(n) is True],
                                              "False -> True when shutdown is handled")}


def _discover_protocol_methods():
    """The private methods the protocol itself calls while it handles one request whose (synchronous)
    handler returns a marker: get_handler = the one called with the method name that returns the
    registered handler; send_response = the one called with (id, marker); send_data = the one called
    with one message object carrying that id and that marker."""
    import inspect
    from pygls.protocol import JsonRPCRequestMessage
    srv = _probe_server()
    marker = "priv-probe-result"
    srv.feature(PROBE_METHOD)(lambda *a: marker)
    p = srv.protocol
    handler = p.fm.features[PROBE_METHOD]
    cls = type(p)
    calls = []                                   # (name, args, kwargs, result)

    class Traced(cls):
        def __getattribute__(self, name):
            v = super().__getattribute__(name)
            if name.startswith("_") and not name.startswith("__") and inspect.ismethod(v):
                def rec(*a, **kw):
                    entry = [name, a, kw, None]
                    calls.append(entry)
                    entry[3] = v(*a, **kw)
                    return entry[3]
                return rec
            return v
    p.__class__ = Traced
    try:
        p.handle_message(JsonRPCRequestMessage(id=PROBE_ID, method=PROBE_METHOD, jsonrpc="2.0", params=None))
    finally:
        p.__class__ = cls
    gh = [n for n, a, kw, r in calls if a == (PROBE_METHOD,) and not kw and r is handler]
    sr = [n for n, a, kw, r in calls if a[:1] == (PROBE_ID,) and (a[1:2] == (marker,) or kw.get("result") == marker)]
    sd = [n for n, a, kw, r in calls if len(a) == 1 and not kw and getattr(a[0], "id", None) == PROBE_ID
          and getattr(a[0], "result", None) == marker]
    why = "private method the protocol calls while handling a request"
    return {"protocol.get_handler": _unique("protocol.get_handler", gh, why + " (name -> handler)"),
            "protocol.send_response": _unique("protocol.send_response", sr, why + " (id, result)"),
            "protocol.send_data": _unique("protocol.send_data", sd, why + " (response message)")}


def _discover_server_state():
    """After the real start_io has served an empty input: the stop event is the threading.Event among the
    server's attributes that the public shutdown() sets (each candidate is replaced by a fresh event,
    shutdown() is called once more); the pool slot is the attribute holding the executor that the public
    `thread_pool` property returns - and returns again when a stand-in is stored there."""
    from concurrent.futures import ThreadPoolExecutor
    s = _probe_server()
    _in_thread(lambda: s.start_io(io.BytesIO(b""), io.BytesIO()))
    fresh = {n: threading.Event() for n, v in vars(s).items() if isinstance(v, threading.Event)}
    for n, e in fresh.items():
        setattr(s, n, e)
    s.shutdown()
    evs = [n for n, e in fresh.items() if e.is_set()]
    pools = []
    for n, v in list(vars(s).items()):
        if isinstance(v, ThreadPoolExecutor) and s.thread_pool is v:
            stand_in = object()
            setattr(s, n, stand_in)
            try:
                if s.thread_pool is stand_in:
                    pools.append(n)
            finally:
                setattr(s, n, v)
    return {"server.stop_event": _unique("server.stop_event", evs, "threading.Event of a server that shutdown() sets"),
            "server.thread_pool": _unique("server.thread_pool", pools, "attribute behind the thread_pool property")}


def _discover_error_handler():
    """The protocol reports a message with an unsupported JSON-RPC version to its endpoint: the attribute
    it asks the endpoint for is the error handler (the same name on servers and clients - the protocol
    does not know which of the two it serves)."""
    import types
    from pygls.protocol import JsonRPCProtocol, default_converter
    asked = []

    class Endpoint:
        def __getattr__(self, name):
            asked.append(name)
            return lambda *a, **kw: None
    p = JsonRPCProtocol(Endpoint(), default_converter())
    del asked[:]
    p.handle_message(types.SimpleNamespace(jsonrpc="1.0"))
    name = _unique("error_handler", asked, "what the protocol calls on its endpoint to report an error")
    for role, probe in (("server", _probe_server()), ("client", _probe_client())):
        if not callable(getattr(probe, name, None)) or name == "report_server_error":
            raise Unresolvable(role + ".error_handler", "%r is not a private callable of the %s" % (name, role))
    return {"server.error_handler": name, "client.error_handler": name}


def _discover_start_io():
    """start_io dispatches on IS_WASM to two private entry points: which of the names its code mentions
    does it call under each value (stand-ins on a throw-away server: nothing is started)."""
    import pygls.server as ps
    if not hasattr(ps, "IS_WASM"):
        raise Unresolvable("server.start_io_sync", "pygls.server has no IS_WASM")
    cls = ps.JsonRPCServer
    cands = [n for n in cls.start_io.__code__.co_names if n.startswith("_") and callable(getattr(cls, n, None))]
    found = {}
    saved = ps.IS_WASM
    try:
        for wasm, key in ((True, "server.start_io_sync"), (False, "server.start_io_async")):
            s = _probe_server()
            hit = []
            for n in cands:
                setattr(s, n, lambda *a, _n=n, **kw: hit.append(_n))
            ps.IS_WASM = wasm
            s.start_io(io.BytesIO(b""), io.BytesIO())
            found[key] = _unique(key, hit, "entry point start_io calls when IS_WASM is %r" % wasm)
    finally:
        ps.IS_WASM = saved
    if found["server.start_io_sync"] == found["server.start_io_async"]:
        raise Unresolvable("server.start_io_sync", "start_io does not distinguish the two entry points")
    return found


def _discover_client_state():
    """A fresh client: the stop event is its one threading.Event (and the public `stopped` follows it),
    the task list its one list."""
    c = _probe_client()
    ev = _unique("client.stop_event", [n for n, v in vars(c).items() if isinstance(v, threading.Event)],
                 "threading.Event of a client")
    was = c.stopped
    getattr(c, ev).set()
    if was is not False or c.stopped is not True:
        raise Unresolvable("client.stop_event", "the public `stopped` does not follow %r" % ev)
    tasks = _unique("client.async_tasks", [n for n, v in vars(c).items() if isinstance(v, list) and not v],
                    "empty list of a fresh client")
    return {"client.stop_event": ev, "client.async_tasks": tasks}


def _discover_client_process():
    """client.start_io stores the process it spawned (a stand-in here): the attribute that holds it."""
    import asyncio
    import pygls.client as pc
    c = _probe_client()

    class Proc:
        stdout, stdin, stderr = object(), object(), object()
        pid, returncode = 0, 0

        async def wait(self):
            return 0
    proc = Proc()

    async def no_loop(*a, **kw):
        return None

    async def fake_exec(*a, **kw):
        return proc

    def go():
        saved = (pc.run_async, asyncio.create_subprocess_exec)
        loop = asyncio.new_event_loop()
        try:
            pc.run_async, asyncio.create_subprocess_exec = no_loop, fake_exec

            async def main():
                await c.start_io("priv-probe")
                await asyncio.sleep(0)
                await c.stop()
            loop.run_until_complete(asyncio.wait_for(main(), 20))
        finally:
            pc.run_async, asyncio.create_subprocess_exec = saved
            loop.close()
    _in_thread(go)
    return {"client.process": _unique("client.process", [n for n, v in vars(c).items() if v is proc],
                                      "attribute holding the spawned process")}


def _class_collections(mod, pred):
    out = []
    for n, v in vars(mod).items():
        if isinstance(v, (set, frozenset, list, tuple)) and len(v) > 0 and all(pred(x) for x in v):
            out.append(n)
    return out


def _discover_registered_exceptions():
    """The one module-level collection of JsonRpcException subclasses in pygls.exceptions; every class
    `from_error` returns for the exported classes' own codes must be in it."""
    import inspect
    import types
    X = _module("exceptions")
    base = X.JsonRpcException
    name = _unique("exceptions.registered",
                   _class_collections(X, lambda c: inspect.isclass(c) and issubclass(c, base)),
                   "module-level collection of JsonRpcException subclasses")
    reg = set(getattr(X, name))
    for c in [v for v in vars(X).values() if inspect.isclass(v) and issubclass(v, base)]:
        code = getattr(c, "CODE", None)
        if isinstance(code, int):
            got = type(base.from_error(types.SimpleNamespace(code=code, message="m", data=None)))
            if got is not base and got not in reg:
                raise Unresolvable("exceptions.registered", "from_error returns %s, which is not in %s"
                                   % (got.__name__, name))
    return {"exceptions.registered": name}


def _discover_supported_encodings():
    from lsprotocol import types
    cap = _module("capabilities")
    return {"capabilities.supported_encodings":
            _unique("capabilities.supported_encodings",
                    _class_collections(cap, lambda e: isinstance(e, types.PositionEncodingKind)),
                    "module-level collection of PositionEncodingKind members")}


def _discover_normalize_win_path():
    """The one private module-level function that both from_fs_path and uri_with call."""
    import inspect
    u = _module("uris")
    a, b = set(u.from_fs_path.__code__.co_names), set(u.uri_with.__code__.co_names)
    cands = [n for n in a & b if n.startswith("_") and inspect.isfunction(getattr(u, n, None))
             and getattr(u, n).__module__ == u.__name__]
    return {"uris.normalize_win_path": _unique("uris.normalize_win_path", cands,
                                               "private helper called by from_fs_path and uri_with")}


_DISCOVER = {
    "protocol.request_futures": _discover_tables, "protocol.result_types": _discover_tables,
    "protocol.shutdown_flag": _discover_shutdown_flag,
    "protocol.send_response": _discover_protocol_methods, "protocol.send_data": _discover_protocol_methods,
    "protocol.get_handler": _discover_protocol_methods,
    "server.stop_event": _discover_server_state, "server.thread_pool": _discover_server_state,
    "server.error_handler": _discover_error_handler, "client.error_handler": _discover_error_handler,
    "server.start_io_sync": _discover_start_io, "server.start_io_async": _discover_start_io,
    "client.stop_event": _discover_client_state, "client.async_tasks": _discover_client_state,
    "client.process": _discover_client_process,
    "exceptions.registered": _discover_registered_exceptions,
    "capabilities.supported_encodings": _discover_supported_encodings,
    "uris.normalize_win_path": _discover_normalize_win_path,
    # protocol_module.dict_to_object: no discovery, see dict_to_object()
}


def name_of(key):
    """The attribute name behind `key` in the tree under test (cached; raises Unresolvable)."""
    with _LOCK:
        if key not in _NAMES:
            try:
                with _quiet():
                    if not DISCOVER_ONLY and _current_ok(key):
                        _NAMES[key] = CURRENT[key]
                    elif key in _DISCOVER:
                        try:
                            found = _DISCOVER[key]()
                        except Unresolvable:
                            raise
                        except Exception as e:       # a probe that fails is a failed discovery
                            raise Unresolvable(key, "discovery probe failed: %r" % (e,))
                        for k, v in found.items():
                            _NAMES.setdefault(k, v)
                    else:
                        raise Unresolvable(key, "no discovery rule")
            except Unresolvable as e:
                _NAMES[key] = e
        v = _NAMES[key]
    if isinstance(v, Unresolvable):
        raise Unresolvable(v.what, v.why)
    return v


def in_worker(fn):
    """For a function that runs in a multiprocessing.Pool worker: a BaseException kills the worker and
    Pool.map then waits for ever.  Unresolvable travels back as a value; `collect` raises it again."""
    import functools

    @functools.wraps(fn)
    def guarded(*a, **kw):
        try:
            return fn(*a, **kw)
        except Unresolvable as e:
            return {"__unresolvable__": [e.what, e.why]}
    return guarded


def collect(results):
    """The results of in_worker functions (a list, possibly of lists): raises what a worker could not resolve."""
    results = list(results)
    for r in results:
        for x in (r if isinstance(r, list) else [r]):
            if isinstance(x, dict) and "__unresolvable__" in x:
                raise Unresolvable(*x["__unresolvable__"])
    return results


def trusted(keys):
    """The sentence a property adds to its trusted base for the keys it lists in `Property.private`."""
    return ("private parts of pygls are reached only through harness/priv.py (" + ", ".join(keys) + "): by the "
            "current name, else by a name discovered from behaviour on a throw-away object of the stock class, "
            "else the check fails closed (no-failing-input-found)")


def preflight(keys):
    """Resolve every key now (core.run_check, before any case runs).  -> {key: name}"""
    return {k: name_of(k) for k in keys}


def _get(obj, key):
    name = name_of(key)
    try:
        return getattr(obj, name)
    except AttributeError:
        raise Unresolvable(key, "%s object has no attribute %r" % (type(obj).__name__, name))


# ------------------------------------------------------------------------------------------------
# accessors: protocol
def request_futures(protocol):
    """dict id -> Future of the in-flight requests (both directions share it)."""
    return _get(protocol, "protocol.request_futures")


def result_types(protocol):
    """dict id -> result type of the requests pygls has sent."""
    return _get(protocol, "protocol.result_types")


def shutdown_flag(protocol):
    return bool(_get(protocol, "protocol.shutdown_flag"))


def send_response(protocol):
    """bound method (msg_id, result=None, error=None)"""
    return _get(protocol, "protocol.send_response")


def send_data(protocol):
    """bound method (data)"""
    return _get(protocol, "protocol.send_data")


def get_handler(protocol):
    """bound method (feature_name) -> handler, raises JsonRpcMethodNotFound"""
    return _get(protocol, "protocol.get_handler")


# accessors: server / client
def stop_event(endpoint):
    """The endpoint's own stop event (None on a server that has not been started)."""
    return _get(endpoint, _role(endpoint) + ".stop_event")


def set_stop_event(endpoint, event):
    """What start_io / start_tcp do first: the read loop and shutdown() share this event."""
    setattr(endpoint, name_of(_role(endpoint) + ".stop_event"), event)


def error_handler(endpoint):
    """The callable the real call sites hand to the read loops as `error_handler`."""
    return _get(endpoint, _role(endpoint) + ".error_handler")


def thread_pool_slot(server):
    """What the server holds as its pool right now (None = not created yet; the public `thread_pool`
    property would create one)."""
    return _get(server, "server.thread_pool")


def set_thread_pool(server, pool):
    """Install a (duck-typed) executor, or None to have the next `thread_pool` create a fresh one."""
    setattr(server, name_of("server.thread_pool"), pool)


def start_io_sync(server):
    """bound method (stdin=None, stdout=None): the entry point start_io uses under WASM."""
    return _get(server, "server.start_io_sync")


def start_io_async(server):
    """bound method (stdin=None, stdout=None): the entry point start_io uses otherwise."""
    return _get(server, "server.start_io_async")


def async_tasks(client):
    """list of the tasks the client has started."""
    return _get(client, "client.async_tasks")


def process(client):
    """The server process client.start_io spawned (None before)."""
    return _get(client, "client.process")


# accessors: modules
def registered_exceptions():
    """The classes JsonRpcException.from_error chooses from."""
    X = _module("exceptions")
    return set(getattr(X, name_of("exceptions.registered")))


def supported_encodings():
    cap = _module("capabilities")
    return list(getattr(cap, name_of("capabilities.supported_encodings")))


def normalize_win_path():
    """the function pygls.uris._normalize_win_path"""
    return getattr(_module("uris"), name_of("uris.normalize_win_path"))


def dict_to_object():
    """pygls.protocol._dict_to_object (listed in the package's __all__).  Should the name go away:
    what the default converter does with the params of a generic notification is the same function
    (the structure hook of JsonRPCNotification applies it to "params")."""
    P = _module("protocol_module")
    try:
        return getattr(P, name_of("protocol_module.dict_to_object"))
    except Unresolvable:
        conv = P.default_converter()
        return lambda d: conv.structure({"jsonrpc": "2.0", "method": "x", "params": d}, P.JsonRPCNotification).params


# ------------------------------------------------------------------------------------------------
def selftest():
    """Every discovery rule, on the current tree: must find the names rule 1 accepts."""
    global DISCOVER_ONLY
    bad = []
    rule1 = {}
    for k in sorted(CURRENT):
        try:
            rule1[k] = name_of(k)
        except Unresolvable as e:
            rule1[k] = "UNRESOLVABLE: %s" % (e,)
    _NAMES.clear()
    DISCOVER_ONLY = True
    try:
        for k in sorted(_DISCOVER):
            try:
                got = name_of(k)
            except Unresolvable as e:
                got = "UNRESOLVABLE: %s" % (e,)
            flag = "ok" if got == rule1[k] else "DIFFERS from rule 1 (%s)" % rule1[k]
            if got != rule1[k] or got.startswith("UNRESOLVABLE"):
                bad.append(k)
            print("%-36s %-28s %s" % (k, got, flag))
    finally:
        DISCOVER_ONLY = False
        _NAMES.clear()
    return bad


if __name__ == "__main__":
    import sys
    if "--selftest" in sys.argv:
        b = selftest()
        print("selftest:", "FAILED " + repr(b) if b else "all discovery rules agree with the current names")
        sys.exit(1 if b else 0)
    for k in sorted(CURRENT):
        try:
            print("%-36s %s" % (k, name_of(k)))
        except Unresolvable as e:
            print("%-36s %s" % (k, e))
