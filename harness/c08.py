"""C08 - cancellation hits only its target and never loses or doubles a reply.

Same machinery as C01 (harness/sched.py drives the real LanguageServer event by event; the extracted
Model/Endpoint.v is compared after EVERY event), with cancel-heavy scenarios and a stronger oracle:
  * C01's reference (never more replies than owed, all owed ones at quiescence);
  * Spec/CancelSpec.v (`natural`, `cancellable`, `named`, extracted): every reply is the natural reply
    of a request with that id, or -32800 for a coroutine/thread request that some cancel names with
    the same id and JSON type (or after a shutdown);
  * trace clauses judged directly on what the real endpoint did (observed, no model involved): a
    request whose handler had not started when an effective cancel / shutdown found it in the table
    never logs a start afterwards and is answered -32800; a suspended propagating coroutine logs
    `cancel`, never `end`, and is answered -32800; a running thread handler is answered naturally;
  * NO-OP ERASURE (clause "cancelling an unknown, finished or already-cancelled id does nothing", judged
    on the implementation): for a `$/cancelRequest` that the model proves to be the identity on the whole
    state (cancel_noop / cancel_twice: id not in the table - unknown, answered, already cancelled, other
    JSON type), the real endpoint is run a second time WITHOUT that frame and its whole observable trace
    (frames with content, handler log incl. cancel entries, table keys, flags, after every event) must
    be the same."""
import itertools
import json
import os
import random

import core
import sched
import priv
import c01
from c01 import B

IDS = [0, 1, 2 ** 53, "", "0", "1", "a"]
F32 = "F32-cancel-id-float-or-bool"
ODD_NOOP = ["null", "frac"]                         # pass structuring, equal no key
ODD_BAD = ["array", "object", "noid", "noparams"]   # reported once, loop alive


def twin(i):
    """The same digits with the other JSON type (1 <-> "1"), or another id."""
    if isinstance(i, int):
        return str(i)
    return int(i) if i.isdigit() else 1


class C08(c01.C01):
    id = "C08"
    modules = ["Proofs.EndpointFuts", "Proofs.C08Proofs", "Props.C08"]
    obligations = ["fw_step", "fw_run", "fw_quiescent", "j_step", "j_run", "allowedb_spec", "reply_is_allowed",
                   "result_is_own_value", "cancelled_only_if_named", "cancel_frame", "cancel_noop", "cancel_twice",
                   "callback_clears_entry", "json_type_matters", "ev_step", "ev_steps", "evolves_doomed",
                   "cancel_before_start_never_runs", "cancelled_callback_reply", "cancel_queued_job",
                   "job_start_cancelled", "cancel_suspended", "cancel_after_completion", "doomed_task_step",
                   "C08", "C08_reference_agrees", "C08_nonvacuous"]
    coq_targets = ["Props/C08.vo", "Extract/ExtractC08.vo"]
    rule = ("a scenario is 1-4 concurrent requests over {async with 0-2 suspension points, thread queued/early, sync} "
            "with 0-3 cancels (right id, wrong id, same digits with the other JSON type, duplicate), optional shutdown, "
            "under a model-guided random interleaving ended by a drain (thorough: every interleaving of the small "
            "scenarios up to a cap, sampled beyond); non-trivial = a cancel names a request that is in flight when "
            "it arrives")
    private = sched.PRIVATE
    trusted_base = ["Coq 8.16.1 kernel incl. vm_compute (Examples)",
                    "extraction with ExtrOcamlBasic only + ocaml/c08_driver.ml + conv_io/n/z/nat",
                    "harness/sched.py (ready-queue interposition on a private asyncio loop with _PyTask, duck-typed "
                    "pool and writers, frame decoder) and harness/c08.py (generators, canonicalisation)",
                    priv.trusted(sched.PRIVATE)]
    assumptions = ["request ids are JSON ints or strings; the trace clauses are judged for histories with pairwise "
                   "distinct request ids and no outgoing request reusing one of them",
                   "one writer.write call is atomic; a pool work item starts and finishes as two atomic events; "
                   "a pool job cancelled in the instant it is dequeued is decided inside concurrent.futures"]

    # ---------------------------------------------------------------- scenarios
    def _req_behav(self, rng):
        x = rng.random()
        o = rng.choice([["ret", rng.choice([0, 1, 7, -3])], ["ret", 5], ["ret", 9], ["raise"], ["rpc", -32001], ["unser"]])
        r = rng.choice(["prop", "prop", "prop", "swallow"])
        if x < 0.55:
            return B("async", o, n=rng.choice([0, 1, 1, 2, 2]), r=r)
        if x < 0.9:
            return B("thread", o, early=rng.random() < 0.15, r=r)
        return B("sync", o, r=r)

    def _scenario(self, rng, small=False):
        cfg = {"writer": rng.choice(["blocking", "blocking", "awaitable"]),
               "hook": rng.choice(["default", "quiet", "raises"]), "wfail": None}
        ids = list(IDS)
        rng.shuffle(ids)
        msgs, used = [], []
        for _ in range(rng.randint(1, 3 if small else 4)):
            i = ids.pop()
            used.append(i)
            b = self._req_behav(rng)
            m = ["user", b] if rng.random() < 0.8 else ["command", b, None]
            msgs.append(["recv", {"t": "req", "id": i, "ver": True, "ps": "ok", "m": m, "np": False}])
        tag = 100
        for _ in range(rng.choice([0, 1, 1, 2, 2, 3])):
            x = rng.random()
            k = rng.randrange(len(used))
            if x < 0.6:
                tgt, lo = used[k], k + 1
            elif x < 0.8:
                tgt, lo = twin(used[k]), 0
                if tgt in used:
                    lo = used.index(tgt) + 1 if rng.random() < 0.5 else 0
            else:
                tgt, lo = rng.choice([x for x in IDS + [77, "zz"] if x not in used] or [77]), 0
            tag += 1
            odd = None
            if rng.random() < 0.3:
                # every other JSON type of the id member
                kind = rng.choice(["float", "bool", "null", "frac", "array", "object", "noid", "noparams"])
                ints = [u for u in used if isinstance(u, int) and (kind == "float" or u in (0, 1))]
                if kind in ("float", "bool"):
                    tgt = rng.choice(ints) if ints and rng.random() < 0.8 else rng.choice([0, 1])
                    odd = {"t": "notif", "tag": tag, "ver": True, "ps": "ok", "m": ["cancel", tgt], "cv": kind}
                    lo = used.index(tgt) + 1 if tgt in used else 0
                else:
                    odd = {"t": "notif", "tag": tag, "ver": True, "ps": "ok" if kind in ODD_NOOP else "bad",
                           "m": ["unknown"], "cv": kind}
                    lo = 0
            # arrival position: after its target request (mostly), anywhere among the later frames
            positions = [p for p in range(len(msgs) + 1)
                         if sum(1 for e in msgs[:p] if e[1]["t"] == "req") >= lo]
            msgs.insert(rng.choice(positions),
                        ["recv", odd or {"t": "notif", "tag": tag, "ver": rng.random() > 0.03,
                                         "ps": "ok" if rng.random() > 0.03 else "bad", "m": ["cancel", tgt]}])
        if rng.random() < 0.2:
            msgs.insert(rng.randint(max(0, len(msgs) - 2), len(msgs)),
                        ["recv", {"t": "req", "id": ids.pop(), "ver": True, "ps": "ok", "m": ["shutdown", None]}])
        if not small and rng.random() < 0.15:
            msgs.insert(rng.randint(0, len(msgs)),
                        ["recv", {"t": "notif", "tag": 1, "ver": True, "ps": "ok", "m": ["user", self._req_behav(rng)]}])
        return cfg, msgs

    def _small_scenarios(self, rng, count):
        """Deterministic family for the exhaustive tier: requests over {async 0/1/2 suspension points
        (propagating or swallowing), thread}, then 1-3 cancels over {right id, other JSON type, unknown}."""
        kinds = [B("async", ["ret", 5], n=0), B("async", ["ret", 5], n=1), B("async", ["ret", 5], n=2),
                 B("async", ["ret", 5], n=1, r="swallow"), B("thread", ["ret", 5]), B("async", ["raise"], n=1)]
        out = []
        for nreq in (1, 2, 3):
            for combo in itertools.product(range(len(kinds)), repeat=nreq):
                ids = [1, "1", 0][:nreq]
                reqs = [["recv", {"t": "req", "id": i, "ver": True, "ps": "ok", "np": False,
                                  "m": ["user", json.loads(json.dumps(kinds[k]))]}] for i, k in zip(ids, combo)]
                targets = ids + [t for t in (twin(ids[0]), 77) if t not in ids][:1]
                for ncan in (1, 2, 3):
                    for cs in itertools.product(targets, repeat=ncan):
                        cans = [["recv", {"t": "notif", "tag": 100 + a, "ver": True, "ps": "ok", "m": ["cancel", t]}]
                                for a, t in enumerate(cs)]
                        out.append(({"writer": "blocking", "hook": "quiet", "wfail": None}, reqs + cans))
                        out.append(({"writer": "awaitable", "hook": "quiet", "wfail": None},
                                    reqs[:1] + cans[:1] + reqs[1:] + cans[1:]))
        rng.shuffle(out)
        # all one- and two-request scenarios would be too many to enumerate with their interleavings:
        # a seeded sample of the family, every interleaving of each sampled scenario (up to the cap)
        return out[:count]

    def _resolve_unhashable(self, cases):
        """A cancel whose id is an array or an object is unhashable: `_request_futures.pop(id, None)` raises
        TypeError - reported once by the read loop - unless the table is EMPTY, in which case CPython's
        dict.pop returns the default without hashing and nothing happens at all.  The model's vocabulary
        has the two outcomes (PBad notification / unknown notification) but not the dependence on the
        table, so the frame's class is fixed here from the model's own table just before the event.
        (Removing a report never changes the table, so one pass is enough.)"""
        todo = [c for c in cases if any(e[0] == "recv" and e[1].get("cv") in ("array", "object") for e in c["evs"])]
        if not todo:
            return
        outs = core.run_driver(self.id, [sched.encode_case(c) for c in todo])
        for c, toks in zip(todo, outs):
            obs, _ = sched.parse_run(toks, len(c["evs"]))
            evs = []
            for k, e in enumerate(c["evs"]):
                if e[0] == "recv" and e[1].get("cv") in ("array", "object") and e[1].get("ver", True):
                    empty = (k == 0) or not obs[k - 1]["futs"]
                    gated = k > 0 and (obs[k - 1]["shutdown"] or obs[k - 1]["exit"] is not None)
                    e = ["recv", dict(e[1], ps="bad" if (not empty and not gated) else "ok")]
                evs.append(e)
            c["evs"] = evs

    def generate(self, chk):
        cases = self._generate(chk)
        self._resolve_unhashable(cases)
        return cases

    def _generate(self, chk):
        cases = []
        cdir = os.path.join(core.ROOT, "corpus", "C08")
        if os.path.isdir(cdir):
            for f in sorted(os.listdir(cdir)):
                if f.endswith(".json"):
                    cases.extend(json.load(open(os.path.join(cdir, f))))
        scens = [self._scenario(chk.rng) for _ in range(chk.n(850, 20000))]
        cases.extend(self._interleave(chk, scens))
        cases.extend(self._dup_cases(chk, chk.n(80, 1500), chk.n(4, 8)))
        small = self._small_scenarios(chk.rng, chk.n(12, 60))
        cap = chk.n(150, 1500)
        ex, complete = [], 0
        for sc in small:
            e, c = self._exhaustive(chk, [sc], cap)
            ex.extend(e)
            complete += 1 if c else 0
        self.exhaustive = False
        self.extra_coverage = {"small_scenarios": len(small), "small_scenarios_fully_enumerated": complete,
                               "small_scenarios_sampled": len(small) - complete, "interleaving_cap": cap,
                               "enumerated_interleavings": len(ex)}
        cases.extend(ex)
        return cases

    # ---------------------------------------------------------------- no-op erasure
    FLAGS = ("futs", "rtypes", "shutdown", "exit", "closed", "storm", "quiescent", "alive")

    @classmethod
    def _unchanged(cls, obs, k):
        """Event k changed nothing that is observed."""
        o = obs[k]
        if o["out"] or o["hlog"] or o["errs"]:
            return False
        if k == 0:
            return (not o["futs"] and not o["rtypes"] and not o["shutdown"] and o["exit"] is None
                    and not o["closed"] and not o["storm"])
        return all(core.canon(o.get(f)) == core.canon(obs[k - 1].get(f)) for f in cls.FLAGS)

    @staticmethod
    def _is_cancel(e):
        return e[0] == "recv" and e[1]["t"] == "notif" and e[1].get("m", [None])[0] == "cancel"

    def _dup_cases(self, chk, count, per_base):
        """Systematic pairs for the erasure oracle: a request, a cancel that names it, and a SECOND cancel
        (same id / same digits other JSON type / unknown id) at every later position of the schedule.
        Handlers: swallowing and propagating coroutines with 2-3 suspension points (a second injection
        would be visible), thread queued / running, requests that have already been answered."""
        rng = chk.rng
        scens = []
        for _ in range(count):
            cfg = {"writer": rng.choice(["blocking", "blocking", "awaitable"]), "hook": "quiet", "wfail": None}
            kind = rng.choice(["swallow", "swallow", "swallow", "prop", "thread", "done"])
            o = rng.choice([["ret", 5], ["ret", 7], ["raise"]])
            if kind == "thread":
                b = B("thread", o)
            elif kind == "done":
                b = B("async", o, n=0)
            else:
                b = B("async", o, n=rng.choice([2, 3, 3]), r="swallow" if kind == "swallow" else "prop")
            i, other = rng.sample(IDS, 2)
            msgs = [["recv", {"t": "req", "id": i, "ver": True, "ps": "ok", "m": ["user", b], "np": False}]]
            if rng.random() < 0.4:
                msgs.append(["recv", {"t": "req", "id": other, "ver": True, "ps": "ok", "np": False,
                                      "m": ["user", B("async", ["ret", 1], n=2, r="swallow")]}])
            msgs.append(["recv", {"t": "notif", "tag": 100, "ver": True, "ps": "ok", "m": ["cancel", i]}])
            scens.append((cfg, msgs))
        out = []
        for base in self._interleave(chk, scens, maxlen=40):
            evs = base["evs"]
            first = next((k for k, e in enumerate(evs) if self._is_cancel(e)), None)
            if first is None:
                continue
            tgt = evs[first][1]["m"][1]
            positions = list(range(first + 1, len(evs) + 1))
            rng.shuffle(positions)
            for p in sorted(positions[:per_base]):
                x = rng.random()
                j = tgt if x < 0.7 else twin(tgt) if x < 0.85 else "zz"
                dup = ["recv", {"t": "notif", "tag": 200 + p, "ver": True, "ps": "ok", "m": ["cancel", j]}]
                out.append({"cfg": base["cfg"], "evs": evs[:p] + [dup] + evs[p:]})
        return out

    def run_impl(self, chk, cases):
        base = super().run_impl(chk, cases)
        # which cancels are the identity by the model
        outs = core.run_driver(self.id, [sched.encode_case(c) for c in cases])
        derived, where = [], []
        for ci, (c, toks) in enumerate(zip(cases, outs)):
            obs, _ = sched.parse_run(toks, len(c["evs"]))
            ks = [k for k, e in enumerate(c["evs"]) if self._is_cancel(e) and self._unchanged(obs, k)]
            random.Random(len(c["evs"]) * 7919 + len(ks)).shuffle(ks)
            # an id spelled as a JSON float or boolean is a wrong id type: the statement says it does nothing
            forced = [k for k, e in enumerate(c["evs"]) if self._is_cancel(e) and e[1].get("cv") in ("float", "bool")]
            for k in forced + [k for k in ks if k not in forced][:2]:
                derived.append({"cfg": c["cfg"], "evs": c["evs"][:k] + c["evs"][k + 1:], "reg": sched.case_reg(c)})
                where.append((ci, k))
        dres = super().run_impl(chk, derived) if derived else []
        for (ci, k), d in zip(where, dres):
            a = base[ci]
            if not isinstance(a, dict) or "obs" not in a:
                continue
            ok = (isinstance(d, dict) and "obs" in d and "anomalies" not in d and "anomalies" not in a
                  and core.canon(a["obs"][:k]) == core.canon(d["obs"][:k])
                  and core.canon(a["obs"][k + 1:]) == core.canon(d["obs"][k:])
                  and self._unchanged(a["obs"], k))
            a.setdefault("erasure", []).append([k, bool(ok)])
        self.extra_coverage = dict(getattr(self, "extra_coverage", {}) or {},
                                   noop_cancels_erased_and_rerun=len(derived))
        return base

    def same(self, case, impl, M):
        if not isinstance(impl, dict) or "anomalies" in impl:
            return False
        return core.canon(impl.get("obs")) == core.canon(M["obs"])

    # ---------------------------------------------------------------- model / reference
    def model_output(self, case, toks):
        obs, summ = sched.parse_run(toks, len(case["evs"]))
        for o in obs:
            o.pop("undef")
            o["hlog"] = [h for h in o["hlog"] if h[1] != "builtin"]
        S = {"owed": summ["owed"], "exact": summ["exact"], "reqs": summ["reqs"]}
        # a reply lost to F18 (thread handler + awaitable writer) is C01's recorded finding: C08's
        # "never lost" clause carries C01's guard, so in that class only "at most" is required here
        S["exact"] = S["exact"] and not summ["f18"]
        wfail = case["cfg"].get("wfail") is not None
        f32 = any(self._is_cancel(e) and e[1].get("cv") in ("float", "bool") for e in case["evs"])
        return {"M": {"obs": obs}, "S": None if wfail else S, "guard": not wfail and not f32, "klass": F32 if f32 else None}

    @staticmethod
    def _handler(frame):
        m = frame["m"]
        if m[0] == "user":
            return m[1], "user"
        if m[0] == "command" and m[1]:
            return m[1], "command"
        return None, None

    def satisfies(self, case, impl, S):
        if not super().satisfies(case, impl, S):
            return False
        if any(not ok for _, ok in impl.get("erasure", [])):
            return False                                # a cancel that must do nothing did something
        obs = impl["obs"]
        # (v) content of every reply
        allowed = {}
        for i, nat, cancel_ok, _ in S["reqs"]:
            allowed.setdefault(core.canon(i), []).append((nat, cancel_ok))
        replies = {}
        for k, o in enumerate(obs):
            for f in o["out"]:
                if f[0] == "resp":
                    pl = [f[2], f[3]]
                    ok = any(pl == nat or (cok and pl == ["error", -32800]) for nat, cok in allowed.get(core.canon(f[1]), []))
                    if not ok:
                        return False
                    replies.setdefault(core.canon(f[1]), []).append((k, pl))
        # trace clauses: only for histories with distinct request ids and no outgoing id reuse
        reqs = [(k, e[1]) for k, e in enumerate(case["evs"]) if e[0] == "recv" and e[1]["t"] == "req"]
        rids = [core.canon(f["id"]) for _, f in reqs]
        sends = [core.canon(e[1]) for e in case["evs"] if e[0] == "send"]
        if len(set(rids)) != len(rids) or set(rids) & set(sends):
            return True
        log = []                                        # (event index, who, part, phase)
        for k, o in enumerate(obs):
            for h in o["hlog"]:
                log.append((k, core.canon(h[0][1]) if h[0][0] == "req" else None, h[1], h[2]))
        for k, e in enumerate(case["evs"]):
            if e[0] != "recv" or k == 0:
                continue
            f = e[1]
            before = obs[k - 1]
            if before["shutdown"] or not before["alive"] or not f.get("ver", True) or f.get("ps") != "ok":
                continue
            if f["t"] == "notif" and f["m"][0] == "cancel":
                hit = [core.canon(f["m"][1])]
            elif f["t"] == "req" and f["m"][0] == "shutdown":
                hit = [core.canon(x) for x in before["futs"]]
            else:
                continue
            table = {core.canon(x) for x in before["futs"]}
            for j in hit:
                if j not in table or j not in rids:
                    continue
                frame = reqs[rids.index(j)][1]
                b, part = self._handler(frame)
                if b is None or frame.get("ps") != "ok":
                    continue
                mine = [(kk, ph) for kk, w, p, ph in log if w == j and p == part]
                started = any(ph == "start" and kk < k for kk, ph in mine)
                ended = any(ph == "end" and kk < k for kk, ph in mine)
                rs = replies.get(j, [])
                if not started:
                    if any(ph == "start" for kk, ph in mine):
                        return False                    # started after it was cancelled
                    if any(pl != ["error", -32800] for _, pl in rs):
                        return False
                elif b["k"] == "async" and not ended and b.get("r", "prop") == "prop":
                    later = [ph for kk, ph in mine if kk >= k]
                    if "end" in later or "start" in later:
                        return False
                    if any(pl != ["error", -32800] for _, pl in rs):
                        return False
                elif b["k"] == "thread" and started:
                    nat = [n for i, n, _, _ in S["reqs"] if core.canon(i) == j][0]
                    if any(pl != nat for _, pl in rs):
                        return False
        return True

    def shrink(self, case):
        # keep a statement-level failure a statement-level failure: core's shrinker also accepts a smaller
        # case that merely breaks the correspondence, which would turn the replay of a violation into a tie
        try:
            keep = core.evaluate(self, None, [case])[0]["verdict"] == "violation"
        except Exception:
            keep = False
        for cand in super().shrink(case):
            if "reg" in case:
                cand["reg"] = case["reg"]
            self._resolve_unhashable([cand])
            if keep:
                try:
                    if core.evaluate(self, None, [cand])[0]["verdict"] != "violation":
                        continue
                except Exception:
                    continue
            yield cand

    def nontrivial(self, case):
        seen = {}
        for k, e in enumerate(case["evs"]):
            if e[0] != "recv":
                continue
            f = e[1]
            if f["t"] == "req":
                b, _ = self._handler(f) if f.get("m") else (None, None)
                if b and b["k"] != "sync" and not b.get("early"):
                    seen[core.canon(f["id"])] = k
            elif f["t"] == "notif" and f["m"][0] == "cancel" and core.canon(f["m"][1]) in seen:
                return True
        return False

    def search(self, chk):
        scens = [self._scenario(chk.rng) for _ in range(400)]
        res = core.evaluate(self, chk, self._interleave(chk, scens))
        return [r for r in res if r["S"] is not None and not r["verdict"].startswith("known:")
                and not self.satisfies(r["case"], r["impl"], r["S"])][:1]


PROPERTY = C08


# ---------------------------------------------------------------------------------------------
# Second tie for "cancellation hits only its target" (appended; harness/gen_ast_cancel.py on top of
# harness/gen_ast.py, coq/Base/PyMini.v, Proofs/AstCancelEquiv.v): the SOURCE TEXT of
# JsonRPCProtocol._handle_cancel_notification is translated on every run by the fail-closed AST translator into a
# deep embedding, and the kernel re-checks, for ALL in-flight tables (PyMini dicts id -> truthy future token) and ALL
# message id values, that the resulting _request_futures is the table with exactly that key deleted (unchanged when
# absent), that every other attribute is unchanged, and that the appended effects are exactly one cancel on the
# future stored under that id (none when absent); every other key still maps to the same future.
# Imported late ("Module::theorem") so that a broken translator tie does not hide the other obligations.
import gen_ast_cancel as _gen_ast_cancel

C08.obligations = list(C08.obligations) + ["Proofs.AstCancelEquiv::" + n for n in (
    "ast_handle_cancel_equiv", "ast_cancel_other_entries_untouched", "ast_cancel_other_int_entries_untouched",
    "tbl_get_assoc", "tbl_del_assoc", "ast_cancel_example")]
C08.coq_targets = list(C08.coq_targets) + ["Proofs/AstCancelEquiv.vo"]
C08.trusted_base = list(C08.trusted_base) + [
    "translator tie: harness/gen_ast.py + harness/gen_ast_cancel.py (Python ast -> PyMini, fail-closed; the "
    "normalisations of gen_ast_cancel.py: `x = self._request_futures.pop(k, None)` (x a local bound once, k a "
    "parameter never rebound) read as `x = self._request_futures.get(k, None)` followed by the statement "
    "`self._request_futures.pop(k, None)` (dict.pop against dict.get checked by reflection), `if x.cancel(): <logger "
    "calls only>` recorded as the call $method.cancel [x] after checking that the guarded body consists of "
    "logger.debug/info/warning/error calls on constants and plain names) and the PyMini semantics coq/Base/PyMini.v "
    "(dict.get / dict pop-with-default with keys compared by ==, `not`, early return; logger calls observe nothing; "
    "future.cancel is recorded and returns normally); the theorem is stated for tables whose futures are truthy "
    "values (asyncio / concurrent futures define neither __bool__ nor __len__); its specification tbl_get / tbl_del is "
    "self-contained and related to Assoc.get / Assoc.remove (the operations Model/Endpoint.v's cancel_notification "
    "uses) by tbl_get_assoc / tbl_del_assoc"]
_prev_regenerate_ast = getattr(C08, "regenerate", None)


def _regenerate_ast(self, chk):
    try:
        if _prev_regenerate_ast is not None:
            _prev_regenerate_ast(self, chk)
    finally:
        core.coq_make(["Props/C08.vo", "Extract/ExtractC08.vo"])     # the differential side first
        with core._Lock("coq"):                                      # coq/Gen is shared
            try:
                _gen_ast_cancel.gen_cancel()
            finally:
                core._coq_make(["Proofs/AstCancelEquiv.vo"])


C08.regenerate = _regenerate_ast
