#!/usr/bin/env python3
"""Run checks against BEHAVIOUR-PRESERVING changes (harmless refactors) to measure false alarms.

  harness/refrun.py [harmless/<n> ...]

For every harmless/<n>/patch.diff: scratch worktree of /repo HEAD, patch applied, the quick checks of
every property whose anchored files the patch touches are run with VERIF_REPO pointing there.
Expected: exit 0. A `VIOLATION ... no-failing-input-found` means a proof obligation or the
correspondence broke although no failing input exists (allowed by the rules, but worth knowing:
the translator tie is sensitive to statement-level rewrites of the translated functions); a
VIOLATION with a replay on a harmless change is a FALSE ALARM of the check and must be fixed.
Results: harmless/RESULTS.json."""
import json, os, shutil, subprocess, sys, time
ROOT = os.path.dirname(os.path.dirname(os.path.abspath(__file__)))


def sh(cmd):
    return subprocess.run(cmd, shell=True, capture_output=True, text=True)


def main():
    hd = os.path.join(ROOT, "harmless")
    items = sys.argv[1:] or sorted((os.path.join("harmless", d) for d in os.listdir(hd)
                                    if os.path.isdir(os.path.join(hd, d))), key=lambda p: int(os.path.basename(p)))
    props = [json.loads(l) for l in open(os.path.join(ROOT, "properties.jsonl"))]
    reg = set(open(os.path.join(ROOT, "harness", "registered.txt")).read().split())
    resp = os.path.join(hd, "RESULTS.json")
    results = json.load(open(resp)) if os.path.exists(resp) else {}
    for it in items:
        d = os.path.join(ROOT, it)
        name = os.path.basename(d.rstrip("/"))
        meta = json.load(open(os.path.join(d, "meta.json")))
        touched = meta["files_touched"]
        want = sorted(p["id"] for p in props if p["id"] in reg and
                      any(any(t.endswith(f) or f.endswith(t) for f in p["anchors"]["files"]) for t in touched))
        wt = f"/tmp/refrun_{name}_{os.getpid()}"
        sh(f"git -C /repo worktree remove --force {wt}")
        if sh(f"git -C /repo worktree add --detach {wt} HEAD").returncode != 0:
            print(name, "cannot create worktree"); continue
        try:
            r = sh(f"git -C {wt} apply {os.path.join(d, 'patch.diff')}")
            if r.returncode != 0:
                print(f"{name}: PATCH-DOES-NOT-APPLY"); results[name] = {"status": "patch does not apply"}; continue
            entry = {"files": touched, "kind": meta.get("kind"), "checks": {}}
            for p in want:
                t0 = time.time()
                c = subprocess.run(["./check", p, "--tier", "quick"], cwd=ROOT, capture_output=True, text=True,
                                   env=dict(os.environ, VERIF_REPO=wt, VERIF_NO_EVIDENCE="1"), timeout=7200)
                vio = [l for l in c.stdout.split("\n") if l.startswith("VIOLATION")]
                kind = "quiet" if c.returncode == 0 and not vio else \
                       ("tie-only" if vio and all("no-failing-input-found" in v for v in vio) else "FALSE-ALARM")
                entry["checks"][p] = {"result": kind, "lines": vio[:2], "wall_s": round(time.time() - t0, 1)}
                print(f"{name} [{','.join(os.path.basename(t) for t in touched)}] {p}: {kind} {vio[0] if vio else ''}", flush=True)
            results[name] = entry
        finally:
            sh(f"git -C /repo worktree remove --force {wt}")
            shutil.rmtree(wt, ignore_errors=True)
            sh("git -C /repo worktree prune")
        # several refrun processes may run side by side: merge this item into the file under a lock
        import fcntl
        with open(os.path.join(ROOT, "work", ".refrun_results.lock"), "w") as lk:
            fcntl.flock(lk, fcntl.LOCK_EX)
            on_disk = json.load(open(resp)) if os.path.exists(resp) else {}
            if name in results:
                on_disk[name] = results[name]
            json.dump(on_disk, open(resp, "w"), indent=1, sort_keys=True)


main()
