#!/usr/bin/env python3
"""Run registered checks against seeded breaking changes.

  harness/seedrun.py [--tier quick] [--props C01,C08] [seeded/<id> ...]

For every seeded/<id>/patch.diff: a scratch worktree of /repo HEAD is created under /tmp,
the patch applied there, the demonstration run (must fail), the checks of the property the
change breaks (meta.json "property", plus --props) run with VERIF_REPO pointing at the scratch
tree, and the worktree removed. /repo itself is never modified. Prints one line per (seed, check):
DETECTED (exit 1 + VIOLATION line) / MISSED (exit 0) and writes seeded/RESULTS.json.
"""
import argparse, json, os, re, shutil, subprocess, sys, time
ROOT = os.path.dirname(os.path.dirname(os.path.abspath(__file__)))


def sh(cmd, **kw):
    return subprocess.run(cmd, shell=True, capture_output=True, text=True, **kw)


def main():
    ap = argparse.ArgumentParser()
    ap.add_argument("--tier", default="quick")
    ap.add_argument("--props", default="")
    ap.add_argument("--all-checks", action="store_true", help="run every registered check, not only the seed's property")
    ap.add_argument("--confirm", action="store_true", help="only confirm the seed: baseline test suite with the patch (183 stable tests must pass), demo fails with / passes without the patch; result recorded in meta.json")
    ap.add_argument("seeds", nargs="*")
    a = ap.parse_args()
    seeds = a.seeds or sorted(os.path.join("seeded", d) for d in os.listdir(os.path.join(ROOT, "seeded"))
                              if os.path.isdir(os.path.join(ROOT, "seeded", d)))
    registered = [c["property_id"] for c in json.load(open(os.path.join(ROOT, "MANIFEST.json")))["checks"]]
    resp = os.path.join(ROOT, "seeded", "RESULTS.json")
    results = json.load(open(resp)) if os.path.exists(resp) else {}
    for s in seeds:
        sd = os.path.join(ROOT, s) if not os.path.isabs(s) else s
        name = os.path.basename(sd.rstrip("/"))
        meta = json.load(open(os.path.join(sd, "meta.json")))
        props = [meta["property"]] + [p for p in a.props.split(",") if p]
        if a.all_checks:
            props = registered
        wt = f"/tmp/seedrun_{name}_{os.getpid()}"
        sh(f"git -C /repo worktree remove --force {wt}")
        r = sh(f"git -C /repo worktree add --detach {wt} HEAD")
        if r.returncode != 0:
            print(f"{name}: cannot create worktree: {r.stderr}"); continue
        try:
            r = sh(f"git -C {wt} apply {os.path.join(sd, 'patch.diff')}")
            if r.returncode != 0:
                print(f"{name}: PATCH-DOES-NOT-APPLY {r.stderr.strip()[:200]}")
                results[name] = {"status": "patch does not apply to /repo HEAD"}
                continue
            demo = meta.get("demo", "demo.py")
            env = dict(os.environ, PYTHONPATH=wt, PYTHONHASHSEED="0")
            d = subprocess.run(["/venv/bin/python", os.path.join(sd, demo)], capture_output=True, text=True,
                               env=env, timeout=600, cwd=wt)
            if a.confirm:
                t = subprocess.run("/venv/bin/python -m pytest -q -p no:cacheprovider --timeout=900 2>&1 | tail -1",
                                   shell=True, capture_output=True, text=True, env=env, cwd=wt, timeout=1800)
                m = re.search(r"(\d+) failed, (\d+) passed", t.stdout)
                sh(f"git -C {wt} checkout -- .")
                d0 = subprocess.run(["/venv/bin/python", os.path.join(sd, demo)], capture_output=True, text=True,
                                    env=env, timeout=600, cwd=wt)
                meta["confirmed_by_coordinator"] = {
                    "base_commit": sh("git -C /repo rev-parse --short HEAD").stdout.strip(),
                    "patch_applies": True, "imports": True,
                    "baseline_suite_with_patch": t.stdout.strip()[-120:],
                    "stable_tests_pass_with_patch": bool(m and int(m.group(2)) >= 183 and int(m.group(1)) <= 25),
                    "demo_exit_with_patch": d.returncode, "demo_exit_without_patch": d0.returncode,
                    "ran": "git worktree of /repo HEAD under /tmp; git apply patch.diff; pytest full suite; demo.py with and without the patch; worktree removed"}
                json.dump(meta, open(os.path.join(sd, "meta.json"), "w"), indent=1)
                c = meta["confirmed_by_coordinator"]
                print(f"{name}: confirm tests_ok={c['stable_tests_pass_with_patch']} demo_with={d.returncode} demo_without={d0.returncode}", flush=True)
                continue
            entry = {"demo_exit_with_patch": d.returncode, "checks": {}}
            for p in props:
                if p not in registered:
                    entry["checks"][p] = "not registered"; continue
                t0 = time.time()
                c = subprocess.run(["./check", p, "--tier", a.tier], cwd=ROOT, capture_output=True, text=True,
                                   env=dict(os.environ, VERIF_REPO=wt, VERIF_NO_EVIDENCE="1"), timeout=7200)
                vio = [l for l in c.stdout.split("\n") if l.startswith("VIOLATION")]
                det = c.returncode != 0 and bool(vio)
                entry["checks"][p] = {"detected": det, "exit": c.returncode, "violation_lines": vio[:3],
                                      "wall_s": round(time.time() - t0, 1)}
                print(f"{name} {p}: {'DETECTED' if det else 'MISSED'} exit={c.returncode} "
                      f"{vio[0] if vio else ''} ({entry['checks'][p]['wall_s']}s)", flush=True)
            results[name] = entry
        finally:
            sh(f"git -C /repo worktree remove --force {wt}")
            shutil.rmtree(wt, ignore_errors=True)
            sh("git -C /repo worktree prune")
    # several seedrun processes may run side by side: merge what THIS process computed under a lock
    import fcntl
    with open(os.path.join(ROOT, "work", ".seedrun_results.lock"), "w") as lk:
        fcntl.flock(lk, fcntl.LOCK_EX)
        on_disk = json.load(open(resp)) if os.path.exists(resp) else {}
        for s in seeds:
            name = os.path.basename((os.path.join(ROOT, s) if not os.path.isabs(s) else s).rstrip("/"))
            if name in results:
                on_disk[name] = results[name]
        json.dump(on_disk, open(resp, "w"), indent=1, sort_keys=True)


main()
