"""C07 - errors keep their identity across the wire.

Implementation side: the real pygls.exceptions (from_error, constructors, to_response_error) called
directly and through a full request/response trip between two real endpoints (send_request on the
requester, frames decoded with json.loads(object_hook=structure_message) + handle_message as the read
loops do); every exported exception class raised from sync / async / thread handlers (features and
workspace/executeCommand commands) of a real LanguageServer on a private event loop with a real
ThreadPoolExecutor and a recording writer, the reply decoded from the written frame.
Model side: Model/Exceptions.v over the regenerated Gen/ExcTable.v, reference Spec/ExceptionsSpec.v,
through bin/c07_driver."""
import json, os, sys, time
import core
import priv

sys.path.insert(0, os.path.dirname(os.path.abspath(__file__)))
import gen_c07

KINDS = ("sync", "async", "thread")
# data payloads (index 0 = None = no data)
PAYLOADS = [None, 0, 1, "", "x", False, [], {}, [1, None, "a"], {"a": {"b": [1, {"c": None}]}, "d": "é"},
            {"traceback": ["not a real one"]}, [[[]]], -2 ** 63, 1.5, {"": 0},
            {"€": ["ü", "\u20ac\u4e2d", "\U0001F60B\U0001F680"], "n": "ß"}]
MSGS = ["", "m", "\u20acuro \u4e2d\u6587 ü \U0001F680", "Internal Error", "café \U0001F60B", 'q"uo\\te', " lead and trail ", "line\nbreak", "0",
        "x" * 300]
OTHER_EXC = ("ValueError", "KeyError", "RuntimeError", "ZeroDivisionError", "Custom", "FeatureRequestError",
             "AttributeError")
I32 = (-2 ** 31, 2 ** 31 - 1)


def _hook_payloads():
    """`data` values a handler's exception can carry that are JSON on the wire only through the protocol's
    serialisation hook (attrs / lsprotocol objects, enum members, objects with a __dict__), alone and nested
    inside dicts and lists: (factory, the JSON value S expects in the `data` member).  The expected JSON is
    written down here (camelCase names, enum values) and cross-checked against lsprotocol's own converter -
    not pygls' - in hook_wire()."""
    from lsprotocol import types as T
    import types as _t
    pos = lambda: T.Position(line=3, character=7)
    rng_ = lambda: T.Range(start=T.Position(line=1, character=2), end=T.Position(line=3, character=4))
    jr = {"start": {"line": 1, "character": 2}, "end": {"line": 3, "character": 4}}
    return [
        (pos, {"line": 3, "character": 7}),
        (rng_, jr),
        (lambda: T.Diagnostic(range=rng_(), message="dé", severity=T.DiagnosticSeverity.Warning, source="c07"),
         {"range": jr, "message": "dé", "severity": 2, "source": "c07"}),
        (lambda: T.Location(uri="file:///c07.txt", range=rng_()), {"uri": "file:///c07.txt", "range": jr}),
        (lambda: T.VersionedTextDocumentIdentifier(uri="file:///v", version=4), {"uri": "file:///v", "version": 4}),
        (lambda: T.TextEdit(range=rng_(), new_text="n\u20ac"), {"range": jr, "newText": "n\u20ac"}),
        (lambda: T.MessageType.Warning, 2),                       # IntEnum member
        (lambda: T.MarkupKind.Markdown, "markdown"),              # str-Enum member
        (lambda: T.PositionEncodingKind.Utf8, "utf-8"),
        (lambda: {"at": pos()}, {"at": {"line": 3, "character": 7}}),
        (lambda: [pos(), rng_()], [{"line": 3, "character": 7}, jr]),
        (lambda: {"kind": T.MessageType.Error, "plain": [1, 2]}, {"kind": 1, "plain": [1, 2]}),
        (lambda: {"k": T.MarkupKind.PlainText, "n": None}, {"k": "plaintext", "n": None}),
        (lambda: {"a": {"b": [1, {"c": pos()}, [T.DiagnosticSeverity.Hint]]}, "d": "é"},
         {"a": {"b": [1, {"c": {"line": 3, "character": 7}}, [4]]}, "d": "é"}),
        (lambda: [[], [{}], [[rng_()]], "x", None], [[], [{}], [[jr]], "x", None]),
        (lambda: {"items": [T.Location(uri="u", range=rng_()), {"plain": True}], "count": 2},
         {"items": [{"uri": "u", "range": jr}, {"plain": True}], "count": 2}),
        (lambda: _t.SimpleNamespace(where="here", n=1), {"where": "here", "n": 1}),   # the hook's __dict__ arm
        (lambda: {"obj": _t.SimpleNamespace(p=pos())}, {"obj": {"p": {"line": 3, "character": 7}}}),
    ]


_HOOK = None
def hook_wire():
    """[(factory, expected JSON)], checked once against lsprotocol's converter (an independent unstructure)."""
    global _HOOK
    if _HOOK is None:
        import enum
        from lsprotocol import converters
        conv = converters.get_converter()
        def un(v):
            if isinstance(v, dict):
                return {k: un(x) for k, x in v.items()}
            if isinstance(v, (list, tuple)):
                return [un(x) for x in v]
            if hasattr(v, "__attrs_attrs__"):
                return conv.unstructure(v)
            if isinstance(v, enum.Enum):
                return v.value
            if hasattr(v, "__dict__"):
                return un(vars(v))
            return v
        hp = _hook_payloads()
        seen = [json.dumps(p, sort_keys=True) for p in PAYLOADS]
        for f, want in hp:
            got = json.dumps(un(f()), sort_keys=True)
            if got != json.dumps(want, sort_keys=True):
                raise RuntimeError(f"C07 harness: expected wire form {want!r} differs from the converter's {got}")
            if got in seen:
                raise RuntimeError(f"C07 harness: payload wire form {got} is not distinct")
            seen.append(got)
        _HOOK = hp
    return _HOOK


def n_payloads():
    return len(PAYLOADS) + len(hook_wire())


def payload_value(i):
    """The value a handler puts in `data` for payload index i (a fresh object for the hook-only ones)."""
    return PAYLOADS[i] if i < len(PAYLOADS) else hook_wire()[i - len(PAYLOADS)][0]()


def payload_wire(i):
    """The JSON value of the `data` member S expects on the wire for payload index i."""
    return PAYLOADS[i] if i < len(PAYLOADS) else hook_wire()[i - len(PAYLOADS)][1]


# `params` of a request as a dimension of every server-side case ("absent" = no member at all).  For a method
# without a registered type every one of these structures (POk): the answer must not depend on them.
PSHAPES = ["absent", None, [], {}, {"a": 1, "b": "x"}, {"class": 1}, {"from": "x", "import": 2, "ok": 3},
           {"content-type": "json"}, {"_meta": {"x": 1}}, {"0": 0, "1": 1}, {"_0": 1, "class": 2, "_1": 3},
           {"a": {"b": {"class": [1, {"def": None, "x-y": {"_z": 0}}]}}}, [{"a": 1}, {"if": 2}], [1, "x", None],
           "str", 5, True, {"é": 1, "a b": 2}, {"": 1}, {"kind": "k", "return": {"lambda": []}},
           [[{"None": 1}]], {"a": [], "b": {}}]
VALID_POSITION = {"textDocument": {"uri": "file:///c07.txt"}, "position": {"line": 0, "character": 0}}
_POS = {"line": 0, "character": 0}
TYPED = {      # standard request methods with different params classes -> a valid instance (None: params optional)
    "textDocument/hover": VALID_POSITION,
    "textDocument/rename": dict(VALID_POSITION, newName="n"),
    "textDocument/codeAction": {"textDocument": {"uri": "file:///c07.txt"}, "range": {"start": _POS, "end": _POS},
                                "context": {"diagnostics": []}},
    "workspace/executeCommand": {"command": "c07.none-such"},
    "workspace/inlayHint/refresh": None,
}


def typed_shapes(valid):
    """The params dimension of a typed request: what a peer can put in the member, valid or not."""
    import copy
    out = ["absent", None, True, False, 0, 1, 1.5, "", "x", [], [1], [{}], {}, {"wrong": 1, "names": 2}]
    if isinstance(valid, dict):
        out.append(valid)
        out.append(dict(valid, c07extra=1))
        for k in valid:                      # a required member missing
            out.append({a: b for a, b in valid.items() if a != k})
        for k in valid:                      # right names, wrong value types at depth 1
            for bad in (5, "x", [1], None, {"x": 1}):
                out.append(dict(valid, **{k: bad}))
        for k, v in valid.items():           # ... at depth 2 (and 3)
            if isinstance(v, dict):
                for k2, v2 in v.items():
                    for bad in ("x", [1], {"y": 2}, None):
                        d = copy.deepcopy(valid); d[k][k2] = bad
                        out.append(d)
                    if isinstance(v2, dict):
                        for k3 in v2:
                            d = copy.deepcopy(valid); d[k][k2][k3] = "x"
                            out.append(d)
    return out


_ORACLE_CONVERTER = None


def structuring_oracle(method, rid, params):
    """Does the request structure as the type lsprotocol registers for the method?  (cattrs is an oracle:
    DESIGN section 2.)  -> "ok" | "badv" (ClassValidationError) | "bado" (anything else)"""
    from lsprotocol import types, converters
    from cattrs.errors import ClassValidationError
    d = {"jsonrpc": "2.0", "id": rid, "method": method}
    if not (isinstance(params, str) and params == "absent"):
        d["params"] = params
    global _ORACLE_CONVERTER
    if _ORACLE_CONVERTER is None:
        _ORACLE_CONVERTER = converters.get_converter()
    try:
        _ORACLE_CONVERTER.structure(d, types.METHOD_TO_TYPES[method][0])
    except ClassValidationError:
        return "badv"
    except Exception:
        return "bado"
    return "ok"


# the public shapes through which a requester can observe the outcome of a request
REQ_SHAPES = ("future", "callback", "await", "gen-server", "gen-client")   # the last two: generated *_async methods
REQ_SHAPES_ANY_METHOD = ("future", "callback", "await")                     # usable with an arbitrary method
# shapes of "any other exception": (name, needs python feature)
OTHER_SHAPES = ("note1", "notes3", "note-nonascii", "multiline", "syntax", "syntaxloc", "group", "noargs",
                "intarg", "tuplearg", "ownstr", "chained", "subclass")
BAD_METHODS = ("textDocument/hover", "textDocument/definition", "workspace/executeCommand",
               "textDocument/completion")


def cps(s):
    return [ord(c) for c in s]


def enc_str(s):
    return f"{len(s)} " + " ".join(map(str, s)) if s else "0"


def enc_z(z):
    if z == 0:
        return "0 0"
    b = bin(abs(z))[2:][::-1]
    return f"{1 if z > 0 else -1} {len(b)} " + " ".join(b)


def enc_opt(v, f):
    return "0" if v is None else "1 " + f(v)


class Toks:
    def __init__(self, toks):
        self.t, self.i = toks, 0
        if toks and toks[0] == "DRIVER-ERROR":
            raise RuntimeError("model driver: " + " ".join(toks))
    def int(self):
        v = int(self.t[self.i]); self.i += 1
        return v
    def str(self):
        n = self.int()
        return [self.int() for _ in range(n)]
    def name(self):
        return "".join(map(chr, self.str()))
    def zb(self):
        s = self.int(); n = self.int(); v = 0
        for k in range(n):
            v |= self.int() << k
        return s * v
    def opt(self, f):
        return f() if self.int() else None
    def cres(self):
        s = self.int()
        if s == 1:
            return ["ok", self.name(), self.zb(), self.str(), self.opt(self.int)]
        return ["raise", {2: "ValueError", 3: "TypeError", 4: "AttributeError"}[s]]
    def spec_class(self):
        return self.name() if self.int() else None
    def done(self):
        return self.i == len(self.t)


def match(obs, pat):
    """obs |= pattern: "*" matches anything, lists elementwise."""
    if pat == "*":
        return True
    if isinstance(pat, list):
        return isinstance(obs, list) and len(obs) == len(pat) and all(match(o, p) for o, p in zip(obs, pat))
    return obs == pat


class C07(core.Property):
    id = "C07"
    modules = ["Proofs.ExceptionsProofs", "Props.C07"]
    obligations = ["table_ok_sound", "table_ok_current", "ctors_ok_current", "from_error_function_of_code",
                   "from_error_perm_invariant", "server_range", "outside_is_base", "error_roundtrip",
                   "triple_preserved", "server_side_codes", "server_side_generic", "C07_partial", "C07_refuted_wide_code", "C07_refuted",
                   "C07_reference_agrees", "C07_nonvacuous", "C07_code_zero_empty_message",
                   "at_most_one_class_supports", "has_server_range_current", "server_classes_ok_current",
                   "table_ok_needed", "spec_requester_chosen", "server_range_only",
                   "session_replies_map", "session_meets", "C07_session"]
    coq_targets = ["Props/C07.vo", "Extract/ExtractC07.vo"]
    rule = ("requester side: every code in [-33000,-31000] + boundaries + seeded random 64-bit codes, each through "
            "from_error directly and through send_request / error response / structure_message / handle_message; "
            "server side: every exported exception class x {sync, async, thread} x {feature, command} x payloads, "
            "unknown method, undecodable params, cancelled; non-trivial = code outside the exact codes of the "
            "registered classes, or a non-sync handler")
    trusted_base = ["Coq 8.16.1 kernel incl. vm_compute (finite checks on the regenerated table, Examples)",
                    "harness/gen_c07.py reflection translator (pygls.exceptions -> Gen/ExcTable.v), cross-checked "
                    "each run against reflection by the `tables` case",
                    "extraction with ExtrOcamlBasic only + ocaml/c07_driver.ml + conv_io/conv_n/conv_z",
                    "harness/c07.py (generators, canonicalisation, in-process endpoints)",
                    "modelled not verified: Python set iteration as a list in arbitrary order; "
                    "traceback.format_exception_only as 'contains the exception text'; cattrs structuring outcome "
                    "as POk/PBadValidation/PBadOther",
                    priv.trusted(["protocol.request_futures", "protocol.result_types", "server.thread_pool", "exceptions.registered"])]
    private = ["protocol.request_futures", "protocol.result_types", "server.thread_pool", "exceptions.registered"]
    assumptions = ["error codes are integers (lsprotocol ResponseError.code: int)",
                   "handlers raise fresh exception instances; constructors are called with keyword arguments"]

    # ------------------------------------------------------------------ tables
    def regenerate(self, chk):
        self.base_row, self.rows = gen_c07.main()
        # keep the extracted model in step with the table even when a proof over it breaks
        ok, log = core.coq_make(["Extract/ExtractC07.vo"])
        if not ok:
            raise RuntimeError("extraction cone does not build: " + log[-800:])

    def _rows(self):
        if not hasattr(self, "rows"):
            try:
                self.base_row, self.rows = gen_c07.reflect()
            except Exception:      # the translator stopped fail-closed: only enumerate the classes
                self.base_row, self.rows = gen_c07.reflect(strict=False)
        return [self.base_row] + self.rows

    # ------------------------------------------------------------------ generation
    def generate(self, chk):
        rng = chk.rng
        rows = self._rows()
        names = [r["name"] for r in rows]
        cases = []
        cdir = os.path.join(core.ROOT, "corpus", "C07")
        if os.path.isdir(cdir):
            for f in sorted(os.listdir(cdir)):
                if f.endswith(".json"):
                    cases.extend(json.load(open(os.path.join(cdir, f))))
        def known(c):      # a witness naming a class that no longer exists cannot be replayed
            o = c.get("outcome") or ["ret"]
            return c.get("cls", names[0]) in names and (o[0] != "rpc" or o[1] in names)
        cases = [c for c in cases if known(c)]
        cases.append({"k": "tables"})
        # --- requester side: codes
        lo, hi = (-33000, -31000) if chk.quick else (-36000, -28000)
        codes = list(range(lo, hi + 1))
        bounds = set()
        for r in rows:
            if r["code"] is not None:
                bounds |= {r["code"] - 1, r["code"], r["code"] + 1}
            for part in (r["sup"], r["ctor"]):
                for v in part[1:]:
                    bounds |= {v - 1, v, v + 1}
        for k in (0, 7, 8, 15, 16, 31, 32, 53, 62, 63):
            bounds |= {2 ** k, 2 ** k - 1, -2 ** k, -2 ** k - 1, -2 ** k + 1}
        bounds |= {0, 1, -1, 32000, 32099, 32603, -(2 ** 63), 2 ** 63 - 1, 2 ** 64, -2 ** 64, 10 ** 30}
        codes += sorted(bounds - set(codes))
        codes += [rng.randrange(-2 ** 63, 2 ** 63) for _ in range(chk.n(2000, 20000))]
        for i, c in enumerate(codes):
            m = cps(rng.choice(MSGS)) if i % 3 else cps(MSGS[i // 3 % len(MSGS)])
            d = rng.randrange(len(PAYLOADS)) if i % 2 else 0
            cases.append({"k": "from", "via": "direct", "code": c, "msg": m, "data": d})
            # lsprotocol only lets LSP integers (32 bit) through ResponseError: wider codes never reach
            # from_error over the wire (the frame is rejected), they are exercised directly
            w = c if I32[0] <= c <= I32[1] else rng.randrange(I32[0], I32[1] + 1)
            cases.append({"k": "from", "via": "wire", "code": w, "msg": m, "data": d,
                          "null": bool(d == 0 and i % 4 == 0), "req": REQ_SHAPES[i % len(REQ_SHAPES)]})
        # --- constructors and the round trip through to_response_error / from_error
        for r in rows:
            opts_c = [None, 0, r["code"] if r["code"] is not None else -32050, -32000, -32099, -32100, -31999, 5]
            for c in opts_c:
                for m in (None, "", "own message"):
                    for d in (0, 8):
                        cases.append({"k": "ctor", "cls": r["name"], "msg": None if m is None else cps(m),
                                      "code": c, "data": d})
        for _ in range(chk.n(300, 5000)):
            r = rng.choice(rows)
            c = rng.choice([None, 0, r["code"], rng.randrange(-32110, -31990), rng.randrange(I32[0], I32[1] + 1),
                            rng.choice([I32[0], I32[1], I32[0] - 1, I32[1] + 1, rng.randrange(-2 ** 63, 2 ** 63)])])
            m = rng.choice([None] + MSGS)
            cases.append({"k": "ctor", "cls": r["name"], "msg": None if m is None else cps(m), "code": c,
                          "data": rng.randrange(len(PAYLOADS))})
        # --- server side
        nid = [0]
        def srv(**kw):
            nid[0] += 1
            rid = nid[0] if nid[0] % 7 else f"r{nid[0]}"
            c = {"k": "srv", "id": rid, "method": "c07/x", "p": "ok", "target": ["feature", "sync"],
                 "cancel": False, "outcome": ["ret"], "ps": (nid[0] * 7) % len(PSHAPES),
                 "req": REQ_SHAPES_ANY_METHOD[nid[0] % 3]}
            c.update(kw)
            if c.pop("_keep", False):
                return c
            cases.append(c)
        def rpc_outcome(r, variant):
            code = None if r["code"] is not None else -32050
            if r["ctor"][0] == "range_checked":
                code = rng.randrange(r["ctor"][1], r["ctor"][2] + 1) if variant else r["ctor"][1]
            if variant == 0:
                return ["rpc", r["name"], None if r["msg"] is not None else cps("srv"), code, 0]
            if variant == 1:
                return ["rpc", r["name"], cps(""), code if code is not None else r["code"], 8]
            if variant == 2:
                return ["rpc", r["name"], cps(rng.choice(MSGS)), code, rng.randrange(len(PAYLOADS))]
            if r["ctor"][0] == "range_checked":
                return ["rpc", r["name"], cps(rng.choice(MSGS)), code, 9]
            return ["rpc", r["name"], cps("z"), rng.choice([0, 5, -32603, -32000, -32100, 2 ** 31 - 1, -2 ** 31]), 9]
        for via in ("feature", "command"):
            for kind in KINDS:
                srv(target=[via, kind], outcome=["ret"])
                srv(target=[via, kind], outcome=["unser"])
                for r in rows:
                    for v in range(chk.n(4, 12)):
                        srv(target=[via, kind], outcome=rpc_outcome(r, v % 4))
                for t in OTHER_EXC:
                    for text in ("boom", "", "café \U0001F60B x", "Internal Error", "-32601"):
                        if t == "KeyError" and not text.isascii():
                            continue
                        srv(target=[via, kind], outcome=["other", t, cps(text)])
                for t in OTHER_SHAPES:
                    for text in ("boom", "", "café \U0001F60B x"):
                        srv(target=[via, kind], outcome=["other", t, cps(text)])
                # the params of a request whose method has no registered type never matter
                for ps in range(len(PSHAPES)):
                    r = rows[(ps + KINDS.index(kind)) % len(rows)]
                    srv(target=[via, kind], outcome=rpc_outcome(r, 2 if r["ctor"][0] == "default" else 1), ps=ps)
                    if via == "feature":
                        srv(target=[via, kind], outcome=["ret"], ps=ps)
                if kind != "sync":
                    for o in (["ret"], ["other", "ValueError", cps("late")], rpc_outcome(rows[2], 2)):
                        srv(target=[via, kind], cancel=True, outcome=o)
        # open finding wide-own-code: an own code that is not an LSP integer
        for kind in KINDS:
            for code in (2 ** 31, -2 ** 31 - 1, 2 ** 63):
                srv(target=["feature", kind], outcome=["rpc", rows[3]["name"], cps("wide"), code, 0])
            srv(target=["command", kind], outcome=["rpc", rows[0]["name"], cps(""), 2 ** 40, 8])
            srv(target=["feature", kind], cancel=kind != "sync", outcome=["rpc", rows[0]["name"], cps(""), 2 ** 40, 8])
        # a class without CODE / MESSAGE constructed without one inside the handler: AttributeError,
        # i.e. "any other exception" (its text names the missing attribute)
        for kind in KINDS:
            for r in rows:
                if r["code"] is None and r["ctor"][0] == "default":
                    srv(target=["feature", kind], outcome=["other", "ctor", cps("CODE"), r["name"], cps("no code"), None])
                if r["msg"] is None and r["ctor"][0] == "default":
                    srv(target=["feature", kind], outcome=["other", "ctor", cps("MESSAGE"), r["name"], None, 7])
        alpha = "abz/$.é "
        for i in range(chk.n(12, 100)):
            meth = "zz/" + "".join(rng.choice(alpha) for _ in range(rng.randrange(0, 8)))
            srv(method=meth, target=["unknown"], noparams=bool(i % 2))
        for ps in range(len(PSHAPES)):
            srv(method="zz/shape%d" % ps, target=["unknown"], ps=ps)
            srv(target=["unkcmd", cps("nope%d" % ps)], ps=ps)
        # standard methods with a valid instance of their type: answered by the handler / -32601
        srv(typed="textDocument/hover", target=["feature", "sync"], outcome=["ret"])
        srv(typed="textDocument/definition", method="textDocument/definition", target=["unknown"])
        srv(typed="textDocument/completion", method="textDocument/completion", target=["unknown"])
        for cmd in ("nope", "", "c07.none", "a b"):
            srv(target=["unkcmd", cps(cmd)])
        # typed requests: the whole params dimension, validity decided by the structuring oracle
        for meth, valid in TYPED.items():
            seen = set()
            for shp in typed_shapes(valid):
                k = json.dumps(shp, sort_keys=True)
                if k in seen:
                    continue
                seen.add(k)
                verdict = structuring_oracle(meth, 1, shp)
                if verdict == "ok":
                    if meth == "workspace/executeCommand":
                        continue                      # a well-formed command request: covered above
                    tg = ["feature", "sync"] if meth == "textDocument/hover" else ["unknown"]
                else:
                    tg = ["unknown"]
                srv(method=meth, typed=meth, tparams=shp, p=verdict, target=tg)
        # SESSIONS over REAL framed byte streams on both ends (io_.run_async reading what the other endpoint
        # wrote): several requests on one connection, bodies of different lengths, in every order of
        #   B undecodable params / U unknown method / P handler raising a pygls exception /
        #   X handler raising another exception / G a request that is answered with a result
        # with non-ASCII text (2-, 3-, 4-byte characters) in messages, data and method names
        import itertools
        wide = "caf\u00e9 \u20ac \u4e2d \U0001F60B"
        vias = ("feature", "command")
        tshapes = ["absent", None, 0, True, "x", [1], {}, {"wrong": 1}, dict(VALID_POSITION, position={"line": "x"})]
        def piece(kindc, n):
            kind, via, r = KINDS[n % 3], vias[(n // 3) % 2], rows[n % len(rows)]
            if kindc == "B":
                meth = list(TYPED)[n % 3]
                tp = tshapes[n % len(tshapes)]
                if structuring_oracle(meth, 1, tp) != "badv":
                    tp = "absent"
                return srv(_keep=True, method=meth, typed=meth, tparams=tp, p="badv", target=["unknown"])
            if kindc == "U":
                return srv(_keep=True, method=("zz/" + wide * (n % 3)) if n % 2 else "zz/u%d" % n, target=["unknown"])
            if kindc == "P":
                code = None if r["code"] is not None else -32050
                if r["ctor"][0] == "range_checked":
                    code = r["ctor"][1] + n % 50
                return srv(_keep=True, target=[via, kind],
                           outcome=["rpc", r["name"], cps([wide, MSGS[2], "ascii", ""][n % 4]), code,
                                    [len(PAYLOADS) - 1, 9, 8, 0][(n // 2) % 4]])
            if kindc == "X":
                t = ("ValueError", "KeyError", "note-nonascii", "multiline", "ownstr", "group", "notes3")[n % 7]
                return srv(_keep=True, target=[via, kind], outcome=["other", t, cps(wide if n % 2 else "boom")])
            if kindc == "C":
                return srv(_keep=True, target=[via, KINDS[1 + n % 2]], cancel=True, outcome=["ret"])
            if kindc == "S":
                return srv(_keep=True, target=[via, kind], outcome=["unser"])
            return srv(_keep=True, target=[via, kind], outcome=["ret"])
        perms = list(itertools.permutations("BUPXG"))
        if chk.quick:
            perms = perms[::2]
        n = 0
        for pm in perms:
            msgs = []
            for ch in pm:
                n += 1
                msgs.append(piece(ch, n))
            cases.append({"k": "session", "msgs": msgs})
        for extra in ("BCG", "CBSU", "SBPBXBG", "BBBG", "UCXSP", "GBGBG"):
            msgs = []
            for ch in extra:
                n += 1
                msgs.append(piece(ch, n))
            cases.append({"k": "session", "msgs": msgs})
        for meth in BAD_METHODS:
            for shape in range(4):
                srv(method=meth, p="badv", shape=shape, target=["feature", "sync"])
        for meth in ("c07/sync", "zz/unknown"):
            srv(method=meth, p="bado", target=["feature", "sync"] if meth == "c07/sync" else ["unknown"])
        # --- `data` that is JSON only through the protocol's serialisation hook (attrs / lsprotocol objects,
        # enum members, objects with a __dict__; alone and nested in dicts / lists): every such shape from
        # every handler kind, the class / code / message rotating over the table; S: code, message unchanged,
        # `data` = the converter's unstructured form
        nplain, nall = len(PAYLOADS), n_payloads()
        k = 0
        for via in ("feature", "command"):
            for kind in KINDS:
                for j in range(nplain, nall):
                    k += 1
                    o = rpc_outcome(rows[k % len(rows)], (1, 2, 3)[k % 3])
                    srv(target=[via, kind], outcome=o[:4] + [j])
        for _ in range(chk.n(20, 400)):
            o = rpc_outcome(rng.choice(rows), 2)
            srv(target=[rng.choice(("feature", "command")), rng.choice(KINDS)],
                outcome=o[:4] + [rng.randrange(nplain, nall)])
        msgs = []
        for j in range(nplain, nall):          # ... and one after the other on one connection
            n += 1
            m = piece("P", n)
            m["outcome"] = m["outcome"][:4] + [j]
            msgs.append(m)
        cases.append({"k": "session", "msgs": msgs})
        return cases

    # ------------------------------------------------------------------ implementation
    def run_impl(self, chk, cases):
        cov = None
        if not chk.quick and len(cases) > 1000:
            try:                                  # anchored-line coverage of this run (DESIGN 1.4)
                import coverage
                cov = coverage.Coverage(data_file=None, include=[os.path.join(core.REPO, "pygls", "exceptions.py"),
                                                                 os.path.join(core.REPO, "pygls", "protocol", "json_rpc.py")])
                cov.start()
            except Exception:
                cov = None
        env = Env(self._rows())
        out = []
        try:
            for c in cases:
                try:
                    out.append(env.run(c))
                except Exception as ex:           # noqa: the observation of a crash is its type
                    out.append(["raise", type(ex).__name__])
        finally:
            env.close()
            if cov is not None:
                try:
                    cov.stop()
                    self._anchored_coverage(cov)
                except Exception as ex:
                    chk.notes.append("coverage measurement failed: " + repr(ex))
        return out

    def _anchored_coverage(self, cov):
        """Which statements of the anchored functions did this run execute."""
        import ast
        want = {"exceptions.py": ("__init__", "from_error", "supports_code", "to_response_error",
                                  "_is_server_error_code"),
                os.path.join("protocol", "json_rpc.py"): ("_handle_request", "_execute_request",
                                                          "_execute_request_callback", "_get_handler",
                                                          "_handle_response", "_reject_request")}
        total, hit, missed = 0, 0, []
        for rel, funcs in want.items():
            path = os.path.join(core.REPO, "pygls", rel)
            _, stmts, _, missing, _ = cov.analysis2(path)
            missing = set(missing)
            tree = ast.parse(open(path).read())
            scopes = [n for n in ast.walk(tree) if isinstance(n, ast.ClassDef) and n.name.startswith("JsonR")]
            scopes.append(tree) if rel == "exceptions.py" else None
            nodes = [f for sc in scopes for f in (sc.body if sc is tree else ast.walk(sc))]
            for node in nodes:
                if isinstance(node, (ast.FunctionDef, ast.AsyncFunctionDef)) and node.name in funcs:
                    for ln in stmts:
                        if node.lineno < ln <= node.end_lineno:
                            total += 1
                            if ln in missing:
                                missed.append(f"{rel}:{ln}")
                            else:
                                hit += 1
        self.extra_coverage = dict(getattr(self, "extra_coverage", {}) or {})
        self.extra_coverage.update({"anchored_lines": total, "anchored_lines_executed": hit,
                                    "anchored_lines_not_executed": missed})

    def extra_checks(self, chk):
        """Thorough tier: the compiled proofs re-checked by the independent checker."""
        if chk.quick:
            return []
        r = core.sh("timeout 900 coqchk -silent -o -Q . Pygls Pygls.Props.C07", cwd=core.COQ, timeout=1000)
        out = r.stdout + r.stderr
        ok = r.returncode == 0 and "* Axioms: <none>" in out
        self.extra_coverage = dict(getattr(self, "extra_coverage", {}) or {})
        self.extra_coverage["coqchk"] = "Props.C07: ok, axioms <none>" if ok else out[-600:]
        if ok:
            return []
        return [{"case": None, "impl": out[-600:], "S": "coqchk -o accepts Props/C07.vo without axioms",
                 "verdict": "violation", "suffix": "no-failing-input-found"}]

    # ------------------------------------------------------------------ model
    def _cls_index(self, name):
        for i, r in enumerate(self._rows()):
            if r["name"] == name:
                return i
        raise KeyError(name)

    def _enc_exc(self, name, msg, code, data):
        return (f"{self._cls_index(name)} {enc_opt(msg, enc_str)} {enc_opt(code, enc_z)} "
                f"{enc_opt(None if data == 0 else data, str)}")

    def model_input(self, c):
        k = c["k"]
        if k == "tables":
            return "tables"
        if k == "from":
            return f"from {enc_z(c['code'])} {enc_str(c['msg'])} {enc_opt(None if c['data'] == 0 else c['data'], str)}"
        if k == "ctor":
            return "ctor " + self._enc_exc(c["cls"], c["msg"], c["code"], c["data"])
        if k == "session":
            return f"session {len(c['msgs'])} " + " ".join(self._srv_line(m) for m in c["msgs"])
        return "srv " + self._srv_line(c)

    def _srv_line(self, c):
        p = {"ok": 0, "badv": 1, "bado": 2}[c["p"]]
        t = c["target"]
        if t[0] == "unknown":
            tg = "0"
        elif t[0] == "feature":
            tg = f"1 {KINDS.index(t[1])}"
        elif t[0] == "command":
            tg = f"2 {KINDS.index(t[1])}"
        else:
            tg = "3 " + enc_str(t[1])
        o = c["outcome"]
        if o[0] == "ret":
            oc = "0"
        elif o[0] == "unser":
            oc = "3"
        elif o[0] == "rpc":
            oc = "1 " + self._enc_exc(o[1], o[2], o[3], o[4])
        else:
            oc = "2 " + enc_str(o[2])
        return (f"{enc_str(cps(c['method']))} {enc_str(cps(str(c['id'])))} {p} {tg} "
                f"{1 if c['cancel'] else 0} {oc}")

    def model_output(self, c, toks):
        t = Toks(toks)
        k = c["k"]
        data = lambda d: 0 if d is None else d
        def fix(o):      # data None -> payload index 0
            if o[0] == "ok":
                o[4] = data(o[4])
            return o
        if k == "tables":
            flags = [bool(t.int()) for _ in range(4)]
            n = t.int()
            names = [t.name() for _ in range(n)]
            return {"M": [flags, names], "S": [[True] * 4, "*"], "guard": True, "klass": "tables"}
        if k == "from":
            M = fix(t.cres())
            sc = t.spec_class()
            S = ["ok", sc, c["code"], c["msg"], c["data"]] if sc is not None else ["ambiguous"]
            return {"M": M, "S": S, "guard": True, "klass": "requester-" + c["via"]}
        if k == "ctor":
            m1 = fix(t.cres())
            if m1[0] != "ok":
                return {"M": [m1, ["none"]], "S": None, "guard": False}
            code = c["code"] if c["code"] is not None else "*"
            msg = c["msg"] if c["msg"] is not None else "*"
            s1 = ["ok", c["cls"], code, msg, c["data"]]
            if not t.int():        # the code is not an LSP integer: to_response_error raises
                return {"M": [m1, ["raise", "ValueError"]], "S": [s1, "*"], "guard": True, "klass": "constructor"}
            m2 = fix(t.cres())
            sc = t.spec_class()
            own = bool(t.int())
            if sc is None:
                s2 = ["ambiguous"]
            else:
                s2 = ["ok", sc, code, msg, c["data"]]
                if own and sc != c["cls"]:
                    s2 = ["class-lost"]     # cannot happen when the proofs hold
            return {"M": [m1, m2], "S": [s1, s2], "guard": True, "klass": "constructor"}
        if k == "session":
            n = t.int()
            parts = [self._parse_srv(m, t) for m in c["msgs"][:n]]
            return {"M": [x["M"] for x in parts], "S": [x["S"] if x["S"] is not None else "*" for x in parts],
                    "guard": all(x["guard"] for x in parts), "klass": "session"}
        return self._parse_srv(c, t)

    def _parse_srv(self, c, t):
        data = lambda d: 0 if d is None else d
        def fix(o):
            if o[0] == "ok":
                o[4] = data(o[4])
            return o
        kind = t.int()
        if kind == 0:
            M = [["broken"], ["none"]]
        elif kind == 1:
            M = [["result"], ["result"]]
        elif kind == 3:
            M = [["none"], ["pending"]]
        else:
            code = t.zb(); msg = t.str(); d = t.opt(t.int)
            req = fix(t.cres())
            t.spec_class()
            M = [["error", code, msg, "other" if d == -1 else data(d)], req]
        guard = bool(t.int())
        sk = t.int()
        S = None
        def req_of(code, m, d):
            sc = self._spec_class_cache(code)
            return ["ok", sc, code, m, d] if sc is not None else ["ambiguous"]
        if sk == 1:
            S = [["result"], ["result"]]
        elif sk == 2:
            code = t.zb()
            S = [["error", code, "*", "*", "*"], req_of(code, "*", "*")]
        elif sk == 3:
            code = t.zb(); m = t.str(); d = data(t.opt(t.int))
            S = [["error", code, m, d, "*"], req_of(code, m, d)]
        elif sk == 4:
            code = t.zb(); t.str()
            S = [["error", code, "*", "*", True], req_of(code, "*", "*")]
        M.append(sk)
        tg = c["target"]
        klass = "server-" + (tg[1] if tg[0] in ("feature", "command") else tg[0]) + "-" + (
            {"badv": "badparams", "bado": "badframe"}.get(c["p"]) or ("cancel" if c["cancel"] else c["outcome"][0]))
        if not guard and S is not None:
            klass = "wide-own-code"
        return {"M": M, "S": S, "guard": guard, "klass": klass}

    _scc = None
    def _spec_class_cache(self, code):
        """S's class for a code: asked from the extracted reference (spec_class), memoised."""
        if self._scc is None:
            self._scc = {}
        if code not in self._scc:
            toks = core.run_driver(self.id, [f"from {enc_z(code)} 0 0"])[0]
            t = Toks(toks); t.cres()
            self._scc[code] = t.spec_class()
        return self._scc[code]

    def satisfies(self, c, impl, S):
        return match(impl, S)

    def same(self, c, impl, M):
        if c["k"] == "tables":
            return impl[0] == M[0] and impl[1] == M[1]
        if c["k"] == "session":
            return (isinstance(impl, list) and len(impl) == len(M) == len(c["msgs"]) and
                    all(self.same(m, i, x) for m, i, x in zip(c["msgs"], impl, M)))
        if c["k"] != "srv":
            return impl == M
        if impl[0][0] == "raise" or len(impl) != 2:
            return False
        (ir, iq), (mr, mq, sk) = impl, M
        if ir[0] != "error" or mr[0] != "error":
            return ir[:1] == mr[:1] and iq == mq
        if sk == 3:                                  # own (code, message, data): exact
            return ir[1:4] == mr[1:4] and iq == mq
        okq = iq[:3] == mq[:3]                       # class and code on the requester side
        if sk == 4:                                  # -32603 with the exception text
            return ir[1] == mr[1] and ir[4] is True and okq
        return ir[1] == mr[1] and okq                # code only; the wording is not the property's

    def nontrivial(self, c):
        if c["k"] == "from":
            exact = {r["code"] for r in self._rows() if r["reg"] and r["code"] is not None}
            return c["code"] not in exact
        if c["k"] == "srv":
            return len(c["target"]) > 1 and c["target"][1] in ("async", "thread")
        return c["k"] in ("ctor", "session")

    def shrink(self, c):
        if c["k"] in ("from", "ctor"):
            if c.get("msg"):
                d = dict(c); d["msg"] = []
                yield d
            if c.get("data"):
                d = dict(c); d["data"] = 0
                yield d
            if c["k"] == "from" and c.get("null"):
                d = dict(c); d["null"] = False
                yield d
        elif c["k"] == "session":
            for i in range(len(c["msgs"])):       # one message less; a single message as a last resort
                if len(c["msgs"]) > 1:
                    d = dict(c); d["msgs"] = c["msgs"][:i] + c["msgs"][i + 1:]
                    yield d
        elif c["k"] == "srv":
            o = c["outcome"]
            if o[0] == "rpc":
                if o[2]:
                    d = dict(c); d["outcome"] = [o[0], o[1], [], o[3], o[4]]
                    yield d
                if o[4]:
                    d = dict(c); d["outcome"] = [o[0], o[1], o[2], o[3], 0]
                    yield d
            elif o[0] == "other" and o[2]:
                d = dict(c); d["outcome"] = [o[0], o[1], []]
                yield d

    def search(self, chk):
        """Bounded-exhaustive scope of the quantifier, judged by S alone."""
        core.coq_make(["Extract/ExtractC07.vo"])
        core.build_driver(self.id)
        saved = chk.quick
        chk.quick = False
        try:
            cases = self.generate(chk)
        finally:
            chk.quick = saved
        res = core.evaluate(self, chk, cases)
        return [r for r in res if r["verdict"] == "violation"][:1]

    def distribution(self, cases):
        d = {}
        for c in cases:
            key = c["k"]
            if key == "session":
                key += "/%d" % len(c["msgs"])
            elif key == "from":
                key += "/" + c["via"] + ("/" + c.get("req", "future") if c["via"] == "wire" else "") + ("/range" if -33000 <= c["code"] <= -31000 else "/far")
            elif key == "srv":
                key += "/" + c["p"] + "/" + "/".join(map(str, c["target"][:2] if c["target"][0] != "unkcmd" else ["unkcmd"]))
                key += "/" + ("cancel" if c["cancel"] else c["outcome"][0])
            d[key] = d.get(key, 0) + 1
        return d


# ---------------------------------------------------------------------------------------
class Recorder:
    def __init__(self):
        self.frames = []
    def write(self, data):
        self.frames.append(bytes(data))
    def close(self):
        pass


def framed_json(frame):
    """One written frame decoded as a reader of the byte stream does: Content-Length counts BYTES."""
    try:
        i = frame.index(b"\r\n\r\n")
        n = None
        for line in frame[:i].split(b"\r\n"):
            if line.lower().startswith(b"content-length:"):
                n = int(line.split(b":", 1)[1])
        body = frame[i + 4:]
        if n is None or n != len(body):
            return None
        return json.loads(body.decode("utf-8"))
    except Exception:
        return None


class PipeWriter:
    """Records what an endpoint writes and hands the bytes to the peer's StreamReader."""
    def __init__(self, rec, reader, loop, loop_thread):
        self.rec, self.reader, self.loop, self.loop_thread = rec, reader, loop, loop_thread
        self.patch = None          # one-shot: rewrites the next frame (a peer sending something else)
    def write(self, data):
        import threading
        data = bytes(data)
        if self.patch is not None:
            fn, self.patch = self.patch, None
            obj = framed_json(data)
            if obj is not None:
                body = json.dumps(fn(obj)).encode("utf-8")
                data = b"Content-Length: %d\r\n\r\n" % len(body) + body
        self.rec.frames.append(data)
        if threading.current_thread() is self.loop_thread:
            self.reader.feed_data(data)
        else:
            self.loop.call_soon_threadsafe(self.reader.feed_data, data)
    def close(self):
        pass


def body_of(frame):
    i = frame.index(b"\r\n\r\n")
    return frame[i + 4:]


def plain(x):
    """namedtuple objects / attrs values produced by structuring -> plain JSON values."""
    if hasattr(x, "_asdict"):
        return {k: plain(v) for k, v in x._asdict().items()}
    if isinstance(x, dict):
        return {k: plain(v) for k, v in x.items()}
    if isinstance(x, (list, tuple)):
        return [plain(v) for v in x]
    return x


def jeq(a, b):
    return json.dumps(a, sort_keys=True) == json.dumps(b, sort_keys=True)


def data_index(d):
    d = plain(d)
    for i in range(n_payloads()):
        p = payload_wire(i)
        try:
            if jeq(d, p):
                return i
        except Exception:
            pass
    return "other"


def inflight(proto):
    """The in-flight request table (located by harness/priv.py)."""
    return priv.request_futures(proto)


def forget(proto, rid):
    """Harness clean-up after a reply that never resolved its request: drop the bookkeeping of `rid`."""
    priv.request_futures(proto).pop(rid, None)
    priv.result_types(proto).pop(rid, None)


class Custom(Exception):
    pass


class OwnStr(Exception):
    def __init__(self, text):
        super().__init__("ignored", 7)
        self.text = text
    def __str__(self):
        return "<<" + self.text + ">>"


class SubKeyError(KeyError):
    pass


def other_exception(kind, text):
    """-> (exception instance, [texts the reply must carry besides the class name]).
    The requirement stays loose ("contains"), but holds for every shape."""
    from pygls.exceptions import FeatureRequestError
    import builtins
    def note(e, *ns):
        for n in ns:
            if hasattr(e, "add_note"):
                e.add_note(n)
        return e
    if kind == "note1":
        e = note(ValueError(text), "while resolving the workspace folder")
    elif kind == "notes3":
        e = note(Custom(text), "first note", "second note", "zz last note")
    elif kind == "note-nonascii":
        e = note(RuntimeError(text), "nöte \U0001F60B")
    elif kind == "multiline":
        e = RuntimeError(text + ":\n  line 3: unexpected ']'\n  line 4")
    elif kind == "syntax":
        e = SyntaxError(text)
    elif kind == "syntaxloc":
        e = SyntaxError(text, ("c07_file.py", 3, 5, "x = (\n"))
        return e, [text]                      # str() adds the location, format_exception_only prints it apart
    elif kind == "group":
        G = getattr(builtins, "ExceptionGroup", None)
        e = G(text, [ValueError("inner-a"), KeyError("inner-b")]) if G else RuntimeError(text)
    elif kind == "noargs":
        e = LookupError()
    elif kind == "intarg":
        e = ValueError(42)
    elif kind == "tuplearg":
        e = OSError(1, "io " + text + " failed")
    elif kind == "ownstr":
        e = OwnStr(text)
    elif kind == "chained":
        e = RuntimeError(text)
        e.__cause__ = KeyError("cause")
    elif kind == "subclass":
        e = SubKeyError(text)
    else:
        T = {"Custom": Custom, "FeatureRequestError": FeatureRequestError}.get(kind) or getattr(builtins, kind)
        e = T(text)
    return e, [str(e)]


class Ask:
    """One request made through one of the public requester shapes; `obs()` is what the caller of that
    shape ends up with: the exception (class, code, message, data), a result, or - after a bounded number
    of loop turns - "pending" (the requester never completed)."""
    def __init__(self, env, shape, method, params, rid):
        self.env, self.shape, self.rid, self.called = env, shape, rid, []
        self.fut = self.task = None
        self.proto = env.req.protocol
        t = env.types
        if shape == "future":
            self.fut = self.proto.send_request(method, params, msg_id=rid)
        elif shape == "callback":
            self.fut = self.proto.send_request(method, params, callback=self.called.append, msg_id=rid)
        else:
            rec = env.rw
            if shape == "await":
                coro = self.proto.send_request_async(method, params, msg_id=rid)
            elif shape == "gen-server":
                coro = env.req.workspace_configuration_async(t.ConfigurationParams(items=[]))
            else:
                self.proto, rec = env.client.protocol, env.cw
                coro = env.client.text_document_hover_async(t.HoverParams(
                    text_document=t.TextDocumentIdentifier(uri="file:///c07.txt"), position=t.Position(0, 0)))
            n = len(rec.frames)
            async def go():
                return await coro
            self.task = env.loop.create_task(go())
            env.turns(lambda: len(rec.frames) > n, 20)
            if shape != "await":                       # the generated helpers choose the id themselves
                self.rid = json.loads(body_of(rec.frames[n]))["id"]

    def done(self):
        return self.task.done() if self.task is not None else self.fut.done()

    def obs(self):
        env = self.env
        if self.task is not None:
            env.turns(self.task.done, 30)              # bounded: the copy to the awaited future takes a few turns
            if not self.task.done():
                self.task.cancel()
                env.turns(self.task.done, 10)
                forget(self.proto, self.rid)
                return ["pending"]
            if self.task.cancelled():
                return ["pending"]
            ex = self.task.exception()
        else:
            if not self.fut.done():
                forget(self.proto, self.rid)
                return ["pending"]
            ex = self.fut.exception(timeout=0)
        if self.called:
            return ["callback-called" if ex is not None else "result"]
        return ["result"] if ex is None else env.obs_exc(ex)


class Env:
    """Two real endpoints in one process: `srv` answers, `req` asks."""
    def __init__(self, rows):
        import asyncio, logging, threading
        logging.disable(logging.CRITICAL)
        from pygls import exceptions as X
        from pygls.lsp.server import LanguageServer
        from lsprotocol import types
        self.asyncio, self.threading, self.X, self.types = asyncio, threading, X, types
        self.rows = rows
        self.loop = asyncio.new_event_loop()
        asyncio.set_event_loop(self.loop)
        from concurrent.futures import ThreadPoolExecutor
        self.srv = LanguageServer("c07-server", "1")
        self.req = LanguageServer("c07-requester", "1")
        priv.set_thread_pool(self.srv, ThreadPoolExecutor(max_workers=1))   # one worker: a queued job can be cancelled
        from pygls.lsp.client import LanguageClient
        self.client = LanguageClient("c07-client", "1")
        self.sw, self.rw, self.cw = Recorder(), Recorder(), Recorder()
        self.srv.protocol.set_writer(self.sw)
        self.req.protocol.set_writer(self.rw)
        self.client.protocol.set_writer(self.cw)
        self.plan = {}
        self.current = None
        self.gates = {}
        self.errors = []
        env = self

        def key_of(params):      # one request at a time: the plan does not travel in the params
            return env.current

        def act(params):
            return env.plan[key_of(params)]()

        @self.srv.feature("c07/sync")
        def f_sync(params):
            return act(params)

        @self.srv.feature("c07/async")
        async def f_async(params):
            k = key_of(params)
            if k in env.gates:
                await env.gates[k]
            else:
                await asyncio.sleep(0)
            return act(params)

        @self.srv.feature("c07/thread")
        @self.srv.thread()
        def f_thread(params):
            return act(params)

        @self.srv.command("c07.sync")
        def c_sync(args):
            return act(args)

        @self.srv.command("c07.async")
        async def c_async(args):
            k = key_of(args)
            if k in env.gates:
                await env.gates[k]
            else:
                await asyncio.sleep(0)
            return act(args)

        @self.srv.command("c07.thread")
        @self.srv.thread()
        def c_thread(args):
            return act(args)

        @self.srv.feature("textDocument/hover")
        def f_hover(params):
            return None

        self.seq = 0

    # ---- real framed byte streams between the two endpoints
    def open_streams(self):
        from pygls.io_ import run_async
        a = self.asyncio
        sp, rp = self.srv.protocol, self.req.protocol
        to_srv, to_req = a.StreamReader(), a.StreamReader()
        stop = self.threading.Event()
        quiet = lambda *args: None
        me = self.threading.current_thread()
        tasks = [self.loop.create_task(run_async(stop, to_srv, sp, None, quiet)),
                 self.loop.create_task(run_async(stop, to_req, rp, None, quiet))]
        rwriter = PipeWriter(self.rw, to_srv, self.loop, me)
        rp.set_writer(rwriter)
        sp.set_writer(PipeWriter(self.sw, to_req, self.loop, me))
        return (to_srv, to_req, stop, tasks, rwriter)

    def close_streams(self, pipes):
        to_srv, to_req, stop, tasks = pipes[:4]
        self.srv.protocol.set_writer(self.sw)
        self.req.protocol.set_writer(self.rw)
        self.loop.run_until_complete(self.asyncio.sleep(0))     # pending thread-safe feeds
        to_srv.feed_eof(); to_req.feed_eof()
        try:
            self.loop.run_until_complete(self.asyncio.wait_for(self.asyncio.gather(*tasks, return_exceptions=True), 5))
        except Exception:
            for t in tasks:
                t.cancel()

    def close(self):
        try:
            for s in (self.srv, self.req):
                if priv.thread_pool_slot(s):
                    priv.thread_pool_slot(s).shutdown(wait=True)
            self.loop.run_until_complete(self.asyncio.sleep(0))
        finally:
            self.asyncio.set_event_loop(None)
            self.loop.close()

    # ---- frames
    @staticmethod
    def feed(proto, body):
        """What the read loops do with one frame body."""
        msg = json.loads(body, object_hook=proto.structure_message)
        proto.handle_message(msg)

    def spin(self, cond, timeout=10.0):
        t0 = time.time()
        while not cond():
            self.loop.run_until_complete(self.asyncio.sleep(0))
            if cond():
                break
            if time.time() - t0 > timeout:
                return False
            time.sleep(0.0002)
        return True

    def turns(self, cond, n):
        """At most n turns of the loop (no wall-clock wait) until cond()."""
        for _ in range(n):
            if cond():
                return True
            self.loop.run_until_complete(self.asyncio.sleep(0))
        return cond()

    def cls(self, name):
        c = getattr(self.X, name)
        if not issubclass(c, self.X.JsonRpcException):
            raise KeyError(name)
        return c

    def obs_exc(self, x):
        if not isinstance(x, self.X.JsonRpcException):
            return ["raise", type(x).__name__]
        return ["ok", type(x).__name__, x.code, cps(x.message) if isinstance(x.message, str) else ["?"],
                data_index(x.data)]

    # ---- cases
    def run(self, c):
        k = c["k"]
        if k == "tables":
            return self.run_tables()
        if k == "from":
            return self.run_from(c)
        if k == "ctor":
            return self.run_ctor(c)
        if k == "session":
            return self.run_session(c)
        return self.run_srv(c)

    def run_tables(self):
        """The table the model was extracted from is the table of the code under test, and the
        executable guards hold on the real classes (brute force over the probed codes)."""
        X = self.X
        base, rows = gen_c07.reflect()
        names = [base["name"]] + [r["name"] for r in rows]
        reg = list(priv.registered_exceptions())
        probe = set(range(-33000, -30999)) | {0, 1, -1, 2 ** 31, -2 ** 31, 2 ** 63, -2 ** 63}
        unique = all(sum(1 for k in reg if k.supports_code(c)) <= 1 for c in probe)
        ctor_ok = True
        for c in probe:
            for k in reg:
                if k.supports_code(c):
                    try:
                        k(message="m", code=c, data=None)
                    except Exception:
                        ctor_ok = False
        srv_range = all(X.JsonRpcServerError in reg and X.JsonRpcServerError.supports_code(c) ==
                        (-32099 <= c <= -32000) for c in probe)
        codes = (X.JsonRpcInternalError().code == -32603 and X.JsonRpcInvalidParams().code == -32602 and
                 X.JsonRpcMethodNotFound.of("x").code == -32601 and X.JsonRpcRequestCancelled("x").code == -32800)
        return [[unique, ctor_ok, srv_range, codes], names]

    def error_frame(self, rid, code, msg, data, null=False):
        err = {"code": code, "message": msg}
        if data is not None or null:
            err["data"] = data
        return json.dumps({"jsonrpc": "2.0", "id": rid, "error": err})

    def run_from(self, c):
        from lsprotocol.types import ResponseError
        msg = "".join(map(chr, c["msg"]))
        payload = PAYLOADS[c["data"]]
        if c["via"] == "direct":
            if I32[0] <= c["code"] <= I32[1]:
                err = ResponseError(code=c["code"], message=msg, data=payload)
            else:          # from_error itself takes any object with these three attributes
                import types as _t
                err = _t.SimpleNamespace(code=c["code"], message=msg, data=payload)
            return self.obs_exc(self.X.JsonRpcException.from_error(err))
        self.seq += 1
        ask = Ask(self, c.get("req", "future"), "c07/ask", {"n": self.seq}, f"q{self.seq}")
        try:
            self.feed(ask.proto, self.error_frame(ask.rid, c["code"], msg, payload, c.get("null", False)))
        except Exception as ex:
            if ask.done() and ask.task is None:
                return ["raise", type(ex).__name__]
        return ask.obs()

    def run_ctor(self, c):
        cls = self.cls(c["cls"])
        msg = None if c["msg"] is None else "".join(map(chr, c["msg"]))
        try:
            x = cls(message=msg, code=c["code"], data=PAYLOADS[c["data"]])
        except (ValueError, TypeError, AttributeError) as ex:
            return [["raise", type(ex).__name__], ["none"]]
        o1 = self.obs_exc(x)
        if type(x) is not cls:
            o1 = ["raise", "WrongClass"]
        try:
            y = self.X.JsonRpcException.from_error(x.to_response_error())
            o2 = self.obs_exc(y)
        except Exception as ex:
            o2 = ["raise", type(ex).__name__]
        return [o1, o2]

    def make_raiser(self, o):
        if o[0] == "ret":
            return lambda: {"done": True}
        if o[0] == "unser":        # json.dumps cannot serialise it (no __dict__, not attrs, not an enum)
            return lambda: {"value": {1, 2}}
        if o[0] == "rpc":
            cls = self.cls(o[1])
            msg = None if o[2] is None else "".join(map(chr, o[2]))
            code, pi = o[3], o[4]
            def r():
                raise cls(message=msg, code=code, data=payload_value(pi))
            return r
        text = "".join(map(chr, o[2]))
        if o[1] == "ctor":
            cls = self.cls(o[3])
            msg = None if o[4] is None else "".join(map(chr, o[4]))
            def r():
                raise cls(message=msg, code=o[5])
            return r
        def r():
            failure, _ = other_exception(o[1], text)
            raise failure
        return r

    def run_session(self, c):
        """Several requests one after the other on ONE connection (real framed byte streams, the real read
        loops on both ends): each must get the reply it would get alone."""
        pipes = self.open_streams()
        out, dead = [], False
        try:
            for m in c["msgs"]:
                try:
                    o = self.run_srv(m, pipes, wait=0.3 if dead else 3.0)
                except Exception as ex:
                    o = ["raise", type(ex).__name__]
                if o[0] == ["none"]:
                    dead = True        # nothing came back: do not wait long for the rest of the session
                out.append(o)
        finally:
            self.close_streams(pipes)
        return out

    def run_srv(self, c, pipes=None, wait=3.0):
        sp, rp = self.srv.protocol, self.req.protocol
        self.seq += 1
        key = f"k{self.seq}"
        rid = c["id"]
        t = c["target"]
        self.plan[key] = self.make_raiser(c["outcome"])
        self.current = key
        shape = PSHAPES[c.get("ps", 4) % len(PSHAPES)]
        absent = isinstance(shape, str) and shape == "absent"
        method, params = c["method"], (None if absent else shape)
        args = None if absent else [shape]
        kind = None
        if t[0] == "feature" and c["p"] == "ok":
            kind = t[1]
            method = "c07/" + kind
        elif t[0] == "command":
            kind = t[1]
            method, params = "workspace/executeCommand", {"command": "c07." + kind, "arguments": args}
        elif t[0] == "unkcmd":
            method, params = "workspace/executeCommand", {"command": "".join(map(chr, t[1])), "arguments": args}
        # what the -32603 reply has to carry: the class name and the text of the exception
        if t[0] == "unkcmd":
            need = ["KeyError", "".join(map(chr, t[1]))]
        elif c["outcome"][0] == "other" and c["outcome"][1] != "ctor":
            ex, texts = other_exception(c["outcome"][1], "".join(map(chr, c["outcome"][2])))
            need = [type(ex).__name__] + texts
        elif c["outcome"][0] == "other":
            need = ["AttributeError", "".join(map(chr, c["outcome"][2]))]
        elif c["outcome"][0] == "rpc":
            need = []            # rpc: a constructor that raises is "any other exception"
        else:
            need = None
        own_pipes = pipes is None and bool(c.get("stream"))
        if own_pipes:
            pipes = self.open_streams()
        stream = pipes is not None

        def patch(req_body):
            """What the peer sends instead of the well-formed frame the requester API wrote."""
            if c["p"] == "badv" and not c.get("typed"):
                req_body["method"] = method
                req_body["params"] = [{"textDocument": 5}, {"position": {"line": "x"}}, [1, 2], "str"][c.get("shape", 0)]
            if c.get("typed"):      # a standard method with a registered params type: the member as the case says
                req_body["method"] = c["typed"]
                tp = c.get("tparams", VALID_POSITION)
                if isinstance(tp, str) and tp == "absent":
                    req_body.pop("params", None)
                else:
                    req_body["params"] = tp
            elif (c.get("noparams") or absent) and c["p"] != "badv" and method != "workspace/executeCommand":
                req_body.pop("params", None)
            if c["p"] == "bado" and not c.get("typed"):
                req_body["c07extra"] = 1
            return req_body
        patched = (c["p"] in ("badv", "bado") or bool(c.get("typed")) or
                   ((c.get("noparams") or absent) and method != "workspace/executeCommand"))
        if stream and patched:
            pipes[4].patch = patch
        blocker = None
        if c["cancel"]:
            if kind == "async":
                self.gates[key] = self.loop.create_future()
            elif kind == "thread":           # keep the single worker busy so that the job stays queued
                blocker = self.threading.Event()
                self.srv.thread_pool.submit(blocker.wait, 10)
        # the requester writes the request frame ...
        n_r = len(self.rw.frames)
        n_s = len(self.sw.frames)
        rshape = c.get("req", "future")
        try:
            if c["p"] == "badv" or c.get("typed"):     # method and params are patched into the frame
                ask = Ask(self, rshape, "c07/ask", {"key": key}, rid)
            elif method == "workspace/executeCommand":
                ask = Ask(self, rshape, method, self.types.ExecuteCommandParams(command=params["command"],
                                                                                arguments=params["arguments"]), rid)
            else:
                ask = Ask(self, rshape, method, params, rid)
            req_body = None if stream else patch(json.loads(body_of(self.rw.frames[n_r])))
        except BaseException:
            if blocker is not None:
                blocker.set()
            if own_pipes:
                self.close_streams(pipes)
            raise
        try:
            # ... the server reads it ...
            if stream:        # its real read loop already has the bytes; the cancel travels the same way
                if c["cancel"]:
                    rp.notify("$/cancelRequest", self.types.CancelParams(id=rid))
            else:
                try:
                    self.feed(sp, json.dumps(req_body))
                except Exception:
                    pass          # a frame that does not structure is reported by the read loop, not our concern
                if c["cancel"]:
                    if kind == "async":
                        self.loop.run_until_complete(self.asyncio.sleep(0))
                        self.loop.run_until_complete(self.asyncio.sleep(0))
                    self.feed(sp, json.dumps({"jsonrpc": "2.0", "method": "$/cancelRequest", "params": {"id": rid}}))
            def replies():
                out = []
                for f in self.sw.frames[n_s:]:
                    o = framed_json(f) if stream else json.loads(body_of(f))
                    if o is None:
                        out.append((None, None))          # what a byte-accurate reader cannot decode
                    elif "method" not in o and o.get("id") == rid:
                        out.append((o, body_of(f)))
                return out
            if stream:
                # until the requester's future completes; once the reply is on the wire the requester's
                # read loop gets a bounded number of turns to take it
                self.spin(lambda: ask.done() or len(replies()) > 0, timeout=wait)
                self.spin(ask.done, timeout=0.25)
            else:
                # answered, or the done-callback has run (it always ends by dropping the in-flight entry)
                self.spin(lambda: len(replies()) > 0 or rid not in inflight(sp), timeout=wait)
                if not replies():
                    self.spin(lambda: len(replies()) > 0, timeout=0.05)
        finally:
            if blocker is not None:
                blocker.set()
            self.gates.pop(key, None)
            self.plan.pop(key, None)
            if own_pipes:
                self.close_streams(pipes)
        rs = replies()
        if len(rs) != 1:
            ask.obs()
            forget(rp, rid)
            return [["none"] if not rs else ["many", len(rs)], ["pending"]]
        o, raw = rs[0]
        if o is None:
            ro = ["garbled"]
        elif "error" in o and o["error"] is not None:
            e = o["error"]
            m = e.get("message")
            tin = None
            if need is not None:
                hay = (m if isinstance(m, str) else "") + "\n" + json.dumps(e.get("data"), ensure_ascii=False)
                tin = isinstance(m, str) and all(x in hay for x in need)
            ro = ["error", e.get("code"), cps(m) if isinstance(m, str) else ["?"], data_index(e.get("data")), tin]
        else:
            ro = ["result"]
        # ... and the requester reads the reply
        if not stream:
            try:
                self.feed(rp, raw)
            except Exception:
                pass
        return [ro, ask.obs()]


PROPERTY = C07


# ---------------------------------------------------------------------------------------------
# Second tie for the pure core (appended; harness/gen_ast.py, coq/Base/PyMini.v, Proofs/AstExceptionsEquiv.v):
# the SOURCE TEXT of JsonRpcException.__init__ / supports_code / to_response_error,
# JsonRpcServerError.__init__ / supports_code and _is_server_error_code is translated on every run by a
# fail-closed AST translator into a deep embedding, and the kernel re-checks that the translation computes
# exactly Model/Exceptions.v (base_init, construct, supports_code, to_response_error) for every row of the
# reflected class table.  Imported late ("Module::theorem") so that a broken translator tie does not hide
# the other obligations.
import gen_ast as _gen_ast

_AST_MOD = "Proofs.AstExceptionsEquiv"
# ast_exceptions_equiv = ast_is_server_error_code_equiv /\ ast_supports_code_inherited_equiv /\
# ast_supports_code_range_equiv /\ ast_base_init_equiv /\ ast_server_error_init_equiv /\ ast_to_response_error_equiv
# /\ ast_table_supports_code /\ ast_table_construct (one Print Assumptions instead of eight)
# ast_from_error_equiv: JsonRpcException.from_error.  PyMini cannot run its text (a `for` over the module global
# `_EXCEPTIONS`, a classmethod call / a constructor call on the loop variable), so the for / if / return skeleton is
# Gallina (ast_from_error_walk) and each supports_code test and each `C(code=.., message=.., data=..)` in it runs the
# TRANSLATED function the class's reflected row names; for every code / message / data the walk over the reflected
# `_EXCEPTIONS` equals Model/Exceptions.v's from_error.
C07.obligations = list(C07.obligations) + [_AST_MOD + "::" + n for n in (
    "ast_exceptions_equiv", "ast_exceptions_example", "ast_from_error_equiv", "ast_from_error_example")]
C07.coq_targets = list(C07.coq_targets) + ["Proofs/AstExceptionsEquiv.vo"]
C07.trusted_base = list(C07.trusted_base) + [
    "translator tie: harness/gen_ast.py (Python ast -> PyMini, fail-closed) and the PyMini semantics "
    "coq/Base/PyMini.v (hand-written meaning of the Python subset, incl. lsprotocol's int32 validator of "
    "ResponseError.code, asserted by reflection)"]
_prev_regenerate = C07.regenerate


def _regenerate(self, chk):
    try:
        _prev_regenerate(self, chk)        # the reflected table and the extraction cone first
    finally:                               # translate even when the table stopped fail-closed (no stale copy)
        with core._Lock("coq"):            # coq/Gen is shared by concurrent checks
            _gen_ast.gen_exceptions()
            core._coq_make(["Proofs/AstExceptionsEquiv.vo"])


C07.regenerate = _regenerate


# ---------------------------------------------------------------------------------------------
# Link between the two models of the server-side error mapping (coq/Proofs/LinkExceptionsEndpoint.v):
# every reply of Model/Endpoint.v's state machine (any configuration, any event list) carries the code
# Model/Exceptions.v's server_reply assigns to the request frame with that id (via C08's reply_is_allowed).
_LINK_MOD = "Proofs.LinkExceptionsEndpoint"
C07.obligations = list(C07.obligations) + [_LINK_MOD + "::" + n for n in (
    "natural_is_mapping", "cancelled_is_mapping", "cancel_bit_ignored", "link_reply_code", "link_error_code",
    "link_error_code_cases", "link_result_only_where_mapping_says", "link_nonvacuous",
    "link_disagrees_wide_code")]
C07.coq_targets = list(C07.coq_targets) + ["Proofs/LinkExceptionsEndpoint.vo"]
