"""C19 - a rejected registration changes nothing.

Drives the real LanguageServer decorators (server.feature / server.command / server.thread) of
$VERIF_REPO on sequences of decorated definitions; after EVERY call that is actually made it
snapshots the registry (keys of features / commands / feature_options, which user function each
registered callable ends up calling, coroutine?, thread marker, server injected?), the dispatch of
probe messages through the real protocol (handle_message with generic notifications / workspace/executeCommand
requests, and the private handler lookup located by harness/priv.py;
with a duck-typed pool) and the `initialize` result (real lsp_initialize, unstructured to JSON).
The same sequences go through Model/Features.v (M) and Spec/FeaturesSpec.v (S) via bin/c19_driver.

`shapes_cases()` (bottom of the file) is the registration-shape product used by C14."""
import hashlib, itertools, json, os, sys
import core
import priv

# ----------------------------------------------------------------------------- vocabulary
# fixed name table shared by every case (index = token in the driver protocol)
TABLE = [None, "", " \t", "\u3000\u2028", "textDocument/hover", "textDocument/completion",
         "textDocument/didSave", "textDocument/semanticTokens/full", "initialized", "custom/x",
         "cmd.a", "cmd.b", "textDocument/hover ", "textDocument/signatureHelp", "textDocument/codeAction",
         "textDocument/semanticTokens/range", "textDocument/willSave", "workspace/didChangeConfiguration",
         "workspace/didChangeWatchedFiles"]
# options-type classes of the methods above: an options class (4 5 6 13 14), a Union (7 15), declared
# "no options" (8: lookup answers None, nothing is checked), NO <Method>Options class at all (16 17 18:
# the lookup raises MethodTypeNotRegisteredError), not an LSP method (9 10 11 12)
NO_OPTIONS_CLASS = (16, 17, 18)
IDX = {n: i for i, n in enumerate(TABLE)}
N_NONE, N_EMPTY, N_WS, N_UWS = 0, 1, 2, 3
PROBE_F = list(range(len(TABLE)))
PROBE_C = [0, 1, 2, 4, 10, 11]
assert len(TABLE) == 19
# option kinds
O_NONE, O_VALID, O_WRONG, O_STRUCT, O_FALSY, O_TYPEERR, O_BADFIELD, O_BADELEM = 0, 1, 2, 3, 4, 5, 6, 7
# wrong-type option VALUES (option kind O_WV + v): the truthy singletons / scalars / containers / foreign objects a
# caller may plausibly pass where an options object is expected.  All truthy (falsy values are finding
# F27-falsy-options-ignored, kind O_FALSY).
O_WV = 8
WV_NAMES = ["True", "1", "1.0", "'yes'", "(1,)", "[0]", "{'a': 1}", "options object of another method's class",
            "object()"]
WV_OTHERCLASS = 7
# methods whose options class has a list-typed field (a right-class object can carry wrong-typed content)
BADFIELD_NAMES = (5, 7, 13, 14, 15)
# chk tokens of the driver
CK_NOTYPE, CK_VALID, CK_WRONG, CK_UNKNOWN, CK_RAISES = 0, 1, 2, 3, 4
# parameter shapes: (driver tokens, description)
PARAMS = [("1 0 0", "params"), ("1 1 0", "ls"), ("1 0 1", "srv: LanguageServer"),
          ("1 0 2", "x: int"), ("1 1 2", "ls: int")]
T_NONE, T_ABOVE, T_BELOW = 0, 1, 2

# The oracle: what get_method_options_type + is_instance answer for (method, option kind).
# Written down by hand from lsprotocol's declarations - NOT asked from the implementation.
#   value = (truthy, nominal, chk)
TYPED = {4: "HoverOptions", 5: "CompletionOptions", 6: "SaveOptions", 12: None}
def oracle(name_idx, okind):
    if okind == O_NONE:
        return None
    truthy = okind != O_FALSY
    n = TABLE[name_idx]
    if n is None or n.strip() == "":
        return (truthy, False, CK_RAISES)           # never looked at: the name check comes first
    if name_idx == 8:                                # 'initialized': no options type declared
        return (truthy, True, CK_NOTYPE)
    if name_idx in (9, 10, 11, 12) or name_idx in NO_OPTIONS_CLASS:
        # not an LSP method / an LSP method without options class: options given for it are refused
        # (MethodTypeNotRegisteredError) - every time, whatever was attempted before
        return (truthy, False, CK_UNKNOWN)
    if okind >= O_WV:
        # a wrong-type value: an object of another method's options class that lacks a field of the declared
        # class (SaveOptions for everything but didSave, HoverOptions for didSave), or a non-attrs value -
        # either way the attribute lookup in cattrs fails for a declared class; a Union lets it through
        okind = O_WRONG
    if okind in (O_BADFIELD, O_BADELEM) and name_idx not in BADFIELD_NAMES:
        okind = O_WRONG                              # no list field to spoil: an unrelated object instead
    if okind == O_BADFIELD:
        return (True, False, CK_WRONG)               # X(list_field=5): iterating 5 raises TypeError in cattrs
    if okind == O_BADELEM:
        return (True, False, CK_VALID)               # X(list_field=[1, 2]): elements are not looked at (finding 27)
    if name_idx in (7, 15):                          # Union[SemanticTokensLegend, ...RegistrationOptions]
        if okind == O_VALID:
            return (True, True, CK_VALID)
        return (truthy, False, CK_VALID)             # cattrs passes any non-attrs object through a Union (finding 27)
    if okind == O_VALID:
        return (True, True, CK_VALID)
    if okind == O_STRUCT:
        if name_idx == 4:                            # CompletionOptions has every field of HoverOptions
            return (True, False, CK_VALID)
        if name_idx == 5:                            # it IS the declared type of completion
            return (True, True, CK_VALID)
        return (True, False, CK_RAISES)
    if okind == O_TYPEERR:
        return (True, False, CK_WRONG)               # attribute access raises TypeError: is_instance is False
    return (truthy, False, CK_RAISES)                # True / 5 / "x" / {"a": 1}: AttributeError in cattrs


def klass_of(seq):
    """finding class of a sequence whose guard is false"""
    for a in seq:
        if a[0] == 0 and a[2] != O_NONE:
            t, nom, chk = oracle(a[1], a[2])
            if not t:
                return "F27-falsy-options-ignored"
            if t and not nom and chk in (CK_VALID, CK_NOTYPE):
                return "F27-structural-option-check"
    return None


def enc_name(n):
    if n is None:
        return "0"
    return "1 " + (f"{len(n)} " + " ".join(str(ord(c)) for c in n) if n else "0")


def enc_attempt(a, pos):
    kind, ni, ok, asy, par, thr = a
    o = oracle(ni, ok) if kind == 0 else None
    os_ = "0" if o is None else f"1 {pos + 1} {int(o[0])} {int(o[1])} {o[2]}"
    return f"{kind} {ni} {os_} {asy} {PARAMS[par][0]} {thr} {pos + 1}"


def enc_seq(seq):
    return f"{len(seq)} " + " ".join(enc_attempt(a, i) for i, a in enumerate(seq)) if seq else "0"


def h8(s):
    return hashlib.sha1(s.encode()).hexdigest()[:10]


# ----------------------------------------------------------------------------- implementation side
class _Impl:
    """One per process: a converter, an event loop, the handler factory."""
    def __init__(self):
        import asyncio, logging
        logging.disable(logging.CRITICAL)
        from lsprotocol import types
        from pygls.lsp.server import LanguageServer
        from pygls.protocol import default_converter
        from pygls import feature_manager as fmod
        from pygls.exceptions import JsonRpcMethodNotFound
        self.asyncio, self.types, self.LS, self.fmod = asyncio, types, LanguageServer, fmod
        self.NotFound = JsonRpcMethodNotFound
        self.conv = default_converter()
        self.loop = asyncio.new_event_loop()
        self.log = []
        self.inpool = [False]
        self.sent = object()
        self.init_params = types.InitializeParams(capabilities=types.ClientCapabilities(), process_id=1)
        self.caps_of = {}      # registry tokens -> caps hash (functional dependency check)
        impl = self

        class Pool:            # duck-typed executor installed as the server's pool (priv.set_thread_pool)
            def submit(self, fn, *a, **kw):
                import concurrent.futures as cf
                fut = cf.Future()
                impl.inpool[0] = True
                try:
                    fut.set_result(fn(*a, **kw))
                except Exception as e:      # noqa
                    fut.set_exception(e)
                finally:
                    impl.inpool[0] = False
                return fut
            def shutdown(self, *a, **kw):
                pass
        self.pool = Pool()

        class Writer:
            def write(self, data):
                pass
            def close(self):
                pass
        self.writer = Writer()
        self.builtin_idx = None

    def close(self):
        try:
            self.loop.close()
        except Exception:
            pass

    # -- handlers of every shape ------------------------------------------------------------
    def make(self, hid, asy, par, srv=None):
        LS = self.LS
        log, inpool = self.log, self.inpool
        srvbox = [srv] if srv is not None else [self.srvbox[0]]
        def rec(first, rest):
            inj = first is srvbox[0]
            probe = (rest[0] if rest else None) if inj else first
            log.append((probe, hid, 1 if inj else 0, 2 if inpool[0] else (1 if asy else 0)))
        if not asy:
            if par == 0:
                def h(params, *rest): rec(params, rest)
            elif par == 1:
                def h(ls, *rest): rec(ls, rest)
            elif par == 2:
                def h(srv: LS, *rest): rec(srv, rest)
            elif par == 3:
                def h(x: int, *rest): rec(x, rest)
            else:
                def h(ls: int, *rest): rec(ls, rest)
        else:
            if par == 0:
                async def h(params, *rest): rec(params, rest)
            elif par == 1:
                async def h(ls, *rest): rec(ls, rest)
            elif par == 2:
                async def h(srv: LS, *rest): rec(srv, rest)
            elif par == 3:
                async def h(x: int, *rest): rec(x, rest)
            else:
                async def h(ls: int, *rest): rec(ls, rest)
        return h

    def make_opts(self, ni, ok):
        t = self.types
        if ok == O_NONE:
            return None
        if ok == O_VALID:
            return {4: lambda: t.HoverOptions(work_done_progress=True),
                    5: lambda: t.CompletionOptions(trigger_characters=["."]),
                    6: lambda: t.SaveOptions(include_text=True),
                    7: lambda: t.SemanticTokensLegend(token_types=["a"], token_modifiers=[]),
                    15: lambda: t.SemanticTokensLegend(token_types=["a"], token_modifiers=[]),
                    13: lambda: t.SignatureHelpOptions(trigger_characters=["("]),
                    14: lambda: t.CodeActionOptions(code_action_kinds=["quickfix"]),
                    }.get(ni, lambda: t.HoverOptions())()
        if ok >= O_WV:
            return [lambda: True, lambda: 1, lambda: 1.0, lambda: "yes", lambda: (1,), lambda: [0],
                    lambda: {"a": 1},
                    lambda: (t.HoverOptions(work_done_progress=True) if ni == 6 else t.SaveOptions(include_text=True)),
                    lambda: object()][ok - O_WV]()
        if ok in (O_BADFIELD, O_BADELEM) and ni not in BADFIELD_NAMES:
            ok = O_WRONG
        if ok in (O_BADFIELD, O_BADELEM):
            v = 5 if ok == O_BADFIELD else [1, 2]
            return {5: lambda: t.CompletionOptions(trigger_characters=v),
                    7: lambda: t.SemanticTokensLegend(token_types=v, token_modifiers=[]),
                    15: lambda: t.SemanticTokensLegend(token_types=v, token_modifiers=[]),
                    13: lambda: t.SignatureHelpOptions(trigger_characters=v),
                    14: lambda: t.CodeActionOptions(code_action_kinds=v)}[ni]()
        if ok == O_WRONG:
            # fresh objects only (True / 5 / "x" behave the same but are shared singletons, which would
            # blur the identity bookkeeping of the snapshot)
            return [lambda: {"a": 1}, lambda: ["x"], lambda: object(), lambda: {1, 2}][ni % 4]()
        if ok == O_STRUCT:
            return t.CompletionOptions(trigger_characters=["."])
        if ok == O_TYPEERR:
            return _RaisesTypeError()
        return [lambda: {}, lambda: [], lambda: set(), lambda: bytearray()][ni % 4]()

    # -- snapshots --------------------------------------------------------------------------
    def _who(self, w):
        """which user function the registered callable ends up calling, and with what first arg"""
        self.log.clear()
        try:
            r = w(self.sent)
            if self.asyncio.iscoroutine(r):
                try:
                    r.send(None)
                except StopIteration:
                    pass
                finally:
                    r.close()
        except Exception:
            pass
        if self.log:
            return self.log[0][1], self.log[0][2]
        return -1, 0

    def _rows(self, d):
        rows = []
        for k, w in list(d.items()):
            hid, inj = self._who(w)
            rows.append((IDX.get(k, -1) if _hashable(k) else -1, hid,
                         1 if self.asyncio.iscoroutinefunction(w) else 0,
                         1 if self.fmod.is_thread_function(w) else 0, inj))
        rows.sort()
        return f"{len(rows)} " + " ".join(" ".join(map(str, r)) for r in rows) if rows else "0"

    def registry_tokens(self, srv, oids):
        fm = srv.protocol.fm
        orows = sorted((IDX.get(k, -1), oids.get(id(v), -1)) for k, v in list(fm.feature_options.items()))
        o = f"{len(orows)} " + " ".join(f"{a} {b}" for a, b in orows) if orows else "0"
        return f"{self._rows(fm.features)} {self._rows(fm.commands)} {o}"

    def dispatch_tokens(self, srv):
        """Every probe message carries its own params object (the probe number), so that what ran can
        be attributed after the loop has been given the chance to run the tasks of async handlers."""
        proto = srv.protocol
        log = self.log
        t = self.types
        aio = self.asyncio
        nf = len(PROBE_F)
        found = []
        cmds = srv.protocol.fm.commands
        log.clear()
        from pygls.protocol import JsonRPCNotification, JsonRPCRequestMessage
        get_handler = priv.get_handler(proto)          # (located outside the observed calls)

        async def go():
            for j, i in enumerate(PROBE_F):
                name = TABLE[i]
                try:
                    get_handler(name)
                    found.append(1)
                except Exception:       # MethodNotFound (a None method name raises TypeError instead)
                    found.append(0)
                try:
                    # a notification `name` with params j, as the read loop hands it over
                    proto.handle_message(JsonRPCNotification(method=name, jsonrpc="2.0", params=j))
                except Exception:
                    pass
            for j, i in enumerate(PROBE_C):
                name = TABLE[i]
                # an unregistered command makes the built-in raise KeyError (nothing runs); asking the
                # public `commands` mapping first only avoids formatting a traceback per probe
                if name not in cmds:
                    continue
                try:
                    proto.handle_message(JsonRPCRequestMessage(
                        id=1, method="workspace/executeCommand", jsonrpc="2.0",
                        params=t.ExecuteCommandParams(command=name, arguments=nf + j)))
                except Exception:
                    pass
            await aio.sleep(0)
            await aio.sleep(0)
        self.loop.run_until_complete(go())
        per = {}
        for probe, hid, inj, site in log:
            per.setdefault(probe, []).append(f"{hid} {site} {inj}")
        log.clear()
        out = []
        for j in range(nf):
            r = per.get(j, [])
            out.append(f"{found[j]} {len(r)}" + "".join(" " + x for x in r))
        for j in range(len(PROBE_C)):
            r = per.get(nf + j, [])
            out.append(f"{len(r)}" + "".join(" " + x for x in r))
        return " ".join(out)

    def caps_hash(self, srv):
        try:
            r = srv.protocol.lsp_initialize(self.init_params)
            j = self.conv.unstructure(r)
            return h8(json.dumps(_unordered(j), sort_keys=True, default=str))
        except Exception as e:
            return "raise:" + type(e).__name__

    def new_server(self):
        srv = self.LS("c19", "1", converter_factory=lambda: self.conv)
        priv.set_thread_pool(srv, self.pool)
        srv.protocol.writer = self.writer
        self.srvbox[0] = srv
        return srv

    srvbox = [None]

    def builtins(self):
        if self.builtin_idx is None:
            srv = self.new_server()
            b = srv.protocol.fm.builtin_features
            self.builtin_idx = [i for i, n in enumerate(TABLE) if n in b]
        return self.builtin_idx

    def run_seq(self, seq, deep=True):
        """-> dict t (M layout), s (S layout), u (per call: snapshot equal to the previous one),
        fd (caps is a function of the registry), exc (exception class names, informational)"""
        srv = self.new_server()
        oids = {}
        keep = []
        def snap():
            R = self.registry_tokens(srv, oids)
            D = self.dispatch_tokens(srv)
            C = self.caps_hash(srv) if deep else ""
            return R, D, C
        fd = 1
        prev = snap()
        t = [prev[0], prev[1]]
        body, sbody, u, excs = [], [], [], []
        for pos, (kind, ni, ok, asy, par, thr) in enumerate(seq):
            name = TABLE[ni]
            f = self.make(pos + 1, asy, par, srv)
            if kind == 0:
                opts = self.make_opts(ni, ok)
                if opts is not None:
                    oids[id(opts)] = pos + 1
                    keep.append(opts)
                reg = (lambda g, name=name, opts=opts: srv.feature(name, opts)(g)) if ok != O_NONE \
                    else (lambda g, name=name: srv.feature(name)(g))
            else:
                reg = lambda g, name=name: srv.command(name)(g)
            thd = lambda g: srv.thread()(g)
            calls = [reg] if thr == T_NONE else ([reg, thd] if thr == T_ABOVE else [thd, reg])
            for call in calls:
                fattrs = (self.fmod.get_help_attrs(f), bool(self.fmod.is_thread_function(f)))
                try:
                    f = call(f)
                    res = 1
                except Exception as e:
                    res = 0
                    excs.append(type(e).__name__)
                    # a refused call leaves no trace on the function object either
                    if (self.fmod.get_help_attrs(f), bool(self.fmod.is_thread_function(f))) != fattrs:
                        fd = 0
                cur = snap()
                if deep:
                    # the initialize result must be a function of the registry (names + option values)
                    key = cur[0] + "".join(sorted(f"|{k!r}={v!r}" for k, v in
                                                  list(srv.protocol.fm.feature_options.items())))
                    if self.caps_of.setdefault(key, cur[2]) != cur[2]:
                        fd = 0
                body.append(f"{res} {cur[0]} {cur[1]}")
                sbody.append(f"{res} {cur[0]}")
                u.append("1" if cur == prev else "0")
                prev = cur
                if not res:
                    break
        t.append(str(len(body)))
        t.extend(body)
        return {"t": " ".join(t), "s": " ".join([str(len(sbody))] + sbody), "u": "".join(u), "fd": fd,
                "exc": excs}


class _RaisesTypeError:
    """the one kind of object for which is_instance() answers False (cattrs lets the TypeError of the
    attribute access through), so that the code's own `raise TypeError` branch is reached"""
    def __getattr__(self, name):
        raise TypeError("no attribute is readable")


def _instance(cls):
    """an instance of an lsprotocol options class (required fields are lists in these classes)"""
    import attrs
    kw = {}
    for f in attrs.fields(cls):
        if f.default is attrs.NOTHING:
            kw[f.name] = False if f.type in (bool, "bool") else []
    return cls(**kw)


def _builtins_idx():
    impl = _Impl()
    try:
        return impl.builtins()
    finally:
        impl.close()


def struct_pairs():
    """every (method with a declared options type T, options class U) pair, with the declared-type
    answer (nominal: isinstance) and the answer a structural test gives (every field of T is a field
    of U; a Union passes anything).  Derived from the class declarations only."""
    import typing, attrs
    from lsprotocol import types as t
    from pygls.lsp import get_method_options_type
    meths = []
    for m in sorted(t.METHOD_TO_TYPES):
        try:
            ty = get_method_options_type(m)
        except Exception:
            continue
        if ty is not None:
            meths.append((m, ty))
    classes = []
    for c in sorted({ty for _, ty in meths if attrs.has(ty)}, key=lambda c: c.__name__):
        try:
            _instance(c)
            classes.append(c)
        except Exception:
            pass
    out = []
    for m, ty in meths:
        union = typing.get_origin(ty) is typing.Union
        for u in classes:
            if union:
                nominal, accepts = issubclass(u, typing.get_args(ty)), True
            else:
                nominal = issubclass(u, ty)
                accepts = {f.name for f in attrs.fields(ty)} <= {f.name for f in attrs.fields(u)}
            out.append({"k": "struct", "m": m, "u": u.__name__, "nominal": int(nominal), "accepts": int(accepts)})
    return out


def run_inter(impl, case, deep=True):
    """interleaved definitions / decorator creations / applications on one or several servers of
    this process; same observation layout as run_seq (the acting server's snapshot after every op)"""
    n = case["n"]
    srvs = [impl.new_server() for _ in range(n)]
    fns = [[] for _ in range(n)]
    decs = [[] for _ in range(n)]
    oids = [{} for _ in range(n)]
    keep = []
    fm = impl.fmod

    def snap(k):
        R = impl.registry_tokens(srvs[k], oids[k])
        D = impl.dispatch_tokens(srvs[k])
        C = impl.caps_hash(srvs[k]) if deep else ""
        return R, D, C
    prev = [snap(k) for k in range(n)]
    t = [prev[0][0], prev[0][1]]
    body, sbody, u, excs, fd = [], [], [], [], 1
    for op in case["ops"]:
        k, tag = op[0], op[1]
        srv = srvs[k]
        called = True
        res = 1
        if tag == "d":
            fns[k].append(impl.make(len(fns[k]) + 1, op[2], op[3], srv))
            called = False
        elif tag == "m":
            kind = op[2]
            try:
                if kind == 0:
                    opts = impl.make_opts(op[3], op[4])
                    if opts is not None:
                        oids[k][id(opts)] = len(decs[k]) + 1
                        keep.append(opts)
                    d = srv.feature(TABLE[op[3]], opts) if op[4] != O_NONE else srv.feature(TABLE[op[3]])
                elif kind == 1:
                    d = srv.command(TABLE[op[3]])
                else:
                    d = srv.thread()
            except Exception as e:       # creating a decorator is never refused (the model says so)
                res = 0
                excs.append(type(e).__name__)
                d = None
            decs[k].append(d)
        else:
            d, f = decs[k][op[2]], fns[k][op[3]]
            fattrs = (fm.get_help_attrs(f), bool(fm.is_thread_function(f)))
            try:
                fns[k][op[3]] = d(f)
            except Exception as e:
                res = 0
                excs.append(type(e).__name__)
                if (fm.get_help_attrs(f), bool(fm.is_thread_function(f))) != fattrs:
                    fd = 0
        cur = snap(k) if called else prev[k]
        if called:
            if deep:
                key = cur[0] + "".join(sorted(f"|{a!r}={b!r}" for a, b in
                                              list(srv.protocol.fm.feature_options.items())))
                if impl.caps_of.setdefault(key, cur[2]) != cur[2]:
                    fd = 0
            for j in range(n):           # the other servers of the process are untouched
                if j != k and impl.registry_tokens(srvs[j], oids[j]) != prev[j][0]:
                    fd = 0
        body.append(f"{res} {cur[0]} {cur[1]}")
        sbody.append(f"{res} {cur[0]}")
        u.append("1" if cur == prev[k] else "0")
        prev[k] = cur
    t.append(str(len(body)))
    t.extend(body)
    return {"t": " ".join(t), "s": " ".join([str(len(sbody))] + sbody), "u": "".join(u), "fd": fd, "exc": excs}


def enc_inter(case):
    out = [str(case["n"]), str(len(case["ops"]))]
    nd = [0] * case["n"]
    nf = [0] * case["n"]
    for op in case["ops"]:
        k, tag = op[0], op[1]
        if tag == "d":
            nf[k] += 1
            out.append(f"{k} 0 {op[2]} {PARAMS[op[3]][0]} {nf[k]}")
        elif tag == "m":
            nd[k] += 1
            if op[2] == 0:
                o = oracle(op[3], op[4])
                os_ = "0" if o is None else f"1 {nd[k]} {int(o[0])} {int(o[1])} {o[2]}"
                out.append(f"{k} 1 0 {op[3]} {os_}")
            elif op[2] == 1:
                out.append(f"{k} 1 1 {op[3]}")
            else:
                out.append(f"{k} 1 2")
        else:
            out.append(f"{k} 2 {op[2]} {op[3]}")
    return " ".join(out)


def inter_klass(case):
    for op in case["ops"]:
        if op[1] == "m" and op[2] == 0 and op[4] != O_NONE:
            t, nom, chk = oracle(op[3], op[4])
            if not t:
                return "F27-falsy-options-ignored"
            if not nom and chk in (CK_VALID, CK_NOTYPE):
                return "F27-structural-option-check"
    return None


def inter_exhaustive():
    """two registrations on one server in every order of their creations and applications, with an
    optional thread decorator around the first function (table-driven registration)"""
    out = []
    slots = [(1, 10, O_NONE), (0, 5, O_NONE), (0, 5, O_VALID), (0, 5, O_BADFIELD), (0, 5, O_WRONG)]
    orders = [("c1", "c2", "a1", "a2"), ("c1", "c2", "a2", "a1"), ("c1", "a1", "c2", "a2")]
    for (k1, n1, o1) in slots:
        for (k2, n2base, o2) in slots:
            for same in (True, False):
                if same and k1 != k2:
                    continue
                n2 = n1 if same else (11 if k2 == 1 else 13)
                if o2 == O_BADFIELD and n2 == 13:
                    pass
                for asy in (0, 1):
                    for order in orders:
                        for thr in ("none", "first", "last"):
                            ops = [[0, "d", asy, 1], [0, "d", 0, 0]]
                            mk = {"c1": [0, "m", k1, n1, o1] if k1 == 0 else [0, "m", 1, n1],
                                  "c2": [0, "m", k2, n2, o2] if k2 == 0 else [0, "m", 1, n2]}
                            idx = {}
                            nd = 0
                            if thr != "none":
                                ops.append([0, "m", 2]); tdec = nd; nd += 1
                            if thr == "first":
                                ops.append([0, "a", tdec, 0])
                            for step in order:
                                if step[0] == "c":
                                    ops.append(mk[step]); idx[step[1]] = nd; nd += 1
                                else:
                                    ops.append([0, "a", idx[step[1]], int(step[1]) - 1])
                            if thr == "last":
                                ops.append([0, "a", tdec, 0])
                            out.append({"k": "inter", "n": 1, "ops": ops})
    return out


def inter_priming():
    """the verdict on an options object must not depend on earlier registrations in the process:
    a valid registration (same options class) on ANOTHER server / the same server, then the
    right-class-wrong-content object; and the converse (a refusal first, then a valid object)"""
    out = []
    for m in (5, 13, 14, 7):
        for first, second in ((O_VALID, O_BADFIELD), (O_BADFIELD, O_VALID), (O_VALID, O_WRONG), (O_VALID, O_BADELEM)):
            for other in (1, 0):
                m2 = m if other else {7: 15}.get(m)
                if m2 is None:
                    continue
                ops = [[0, "d", 0, 0], [0, "m", 0, m, first], [0, "a", 0, 0],
                       [other, "d", 0, 1], [other, "m", 0, m2, second], [other, "a", 1 - other, 1 - other],
                       [other, "d", 0, 2], [other, "m", 0, m2, O_VALID], [other, "a", 2 - other, 2 - other]]
                out.append({"k": "inter", "n": 2, "ops": ops})
    return out


def inter_reuse():
    """the same function object offered again: under its taken name (with other options), under a
    second name, as feature and command; thread decorator before / between / after; with and
    without server parameter; then another function under the taken name"""
    out = []
    for kind in (0, 1):
        A, B = (5, 13) if kind == 0 else (10, 11)
        opts1 = (O_NONE, O_VALID) if kind == 0 else (O_NONE,)
        opts2 = (O_NONE, O_VALID, O_BADFIELD) if kind == 0 else (O_NONE,)
        mk = lambda n, o: [0, "m", 0, n, o] if kind == 0 else [0, "m", 1, n]
        for par in (0, 1, 2):
            for asy in (0, 1):
                for o1 in opts1:
                    for o2 in opts2:
                        for tpos in (0, 1, 2):
                            for pat in ("same", "second", "cross"):
                                ops = [[0, "d", asy, par], [0, "d", 0, 0], [0, "m", 2]]      # f, g, thread dec 0
                                if tpos == 0:
                                    ops.append([0, "a", 0, 0])
                                ops += [mk(A, o1), [0, "a", 1, 0]]                           # f under A
                                if tpos == 1:
                                    ops.append([0, "a", 0, 0])
                                if pat == "same":
                                    ops += [mk(A, o2), [0, "a", 2, 0]]                       # f again under A
                                elif pat == "second":
                                    ops += [mk(B, o2), [0, "a", 2, 0]]                       # f under B as well
                                else:                                                        # f as the other kind too
                                    ops += [[0, "m", 1, 10] if kind == 0 else [0, "m", 0, 5, o2], [0, "a", 2, 0]]
                                if tpos == 2:
                                    ops.append([0, "a", 0, 0])
                                ops += [mk(A, O_NONE), [0, "a", 3, 1], [0, "a", 1, 0]]       # g under A; dec 1 on f again
                                out.append({"k": "inter", "n": 1, "ops": ops})
    return out


def inter_repeat():
    """REPETITION: the same attempt made three times in a row on one server, then twice on a second
    server of the process, then the name offered without options on both - for one method of every
    options-type class and every kind of options object.  A refusal must repeat (the verdict is a
    function of (method, options) only) and must leave the name free."""
    out = []
    for m in (5, 13, 7, 8, 16, 17, 18, 9, 12, 1):
        for ok in (O_VALID, O_WRONG, O_BADFIELD, O_STRUCT, O_FALSY):
            ops, nd, nf = [], [0, 0], [0, 0]
            def attempt(k, okind):
                ops.extend([[k, "d", 0, nf[k] % 3], [k, "m", 0, m, okind], [k, "a", nd[k], nf[k]]])
                nd[k] += 1; nf[k] += 1
            for k, times in ((0, 3), (1, 2)):
                for _ in range(times):
                    attempt(k, ok)
            attempt(0, O_NONE)
            attempt(1, O_NONE)
            attempt(1, ok)
            out.append({"k": "inter", "n": 2, "ops": ops})
    return out


def inter_random(rng):
    n = rng.choice([1, 1, 2, 3])
    ops, nf, nd, regd = [], [0] * n, [[] for _ in range(n)], [set() for _ in range(n)]
    for _ in range(rng.randint(3, 12)):
        k = rng.randrange(n)
        r = rng.random()
        if r < 0.3 or nf[k] == 0:
            ops.append([k, "d", rng.randint(0, 1), rng.randrange(len(PARAMS))]); nf[k] += 1
        elif r < 0.6 or not nd[k]:
            kind = rng.choice([0, 0, 0, 1, 1, 2])
            if kind == 0:
                ops.append([k, "m", 0, rng.choice([5, 5, 4, 13, 14, 7, 15, 6, 8, 9, 16, 16, 17, 18, 1, 0, 2]),
                            rng.choice([O_NONE, O_VALID, O_VALID, O_WRONG, O_BADFIELD, O_BADFIELD, O_BADELEM,
                                        O_STRUCT, O_FALSY, O_TYPEERR])])
            elif kind == 1:
                ops.append([k, "m", 1, rng.choice([10, 10, 11, 4, 1, 0, 2])])
            else:
                ops.append([k, "m", 2])
            nd[k].append(kind)
        else:
            i = rng.randrange(len(nd[k]))
            # any decorator on any function object: the same function may be offered again, under
            # its own (taken) name, under a second name, as feature and as command
            j = rng.randrange(nf[k])
            ops.append([k, "a", i, j])
    return {"k": "inter", "n": n, "ops": ops}


def _unordered(j):
    """the order of plain string lists (executeCommandProvider.commands follows the order of
    registration) is not something the property speaks of"""
    if isinstance(j, dict):
        return {k: _unordered(v) for k, v in j.items()}
    if isinstance(j, list):
        l = [_unordered(v) for v in j]
        return sorted(l) if all(isinstance(v, str) for v in l) else l
    return j


def _hashable(k):
    try:
        hash(k)
        return True
    except Exception:
        return False


@priv.in_worker
def _worker(args):
    """runs a chunk of cases in a child process"""
    cases, quiet = args
    impl = _Impl()
    out = []
    try:
        for c in cases:
            out.append(_run_case(impl, c))
    finally:
        impl.close()
    return out


def _run_case(impl, c):
    k = c["k"]
    try:
        if k == "seq":
            o = impl.run_seq([tuple(a) for a in c["seq"]], deep=True)
            return o
        if k == "inter":
            return run_inter(impl, c, deep=True)
        if k == "block":
            deep = c.get("deep", False)
            ts, ss, us, fd = [], [], [], 1
            for s in expand_block(c):
                o = impl.run_seq(s, deep=deep)
                ts.append(h8(o["t"])); ss.append(h8(o["s"])); us.append(o["u"]); fd &= o["fd"]
            return {"t": " ".join(ts), "s": " ".join(ss), "u": " ".join(us), "fd": fd}
        if k == "isspaces":
            return [x for x in range(c["lo"], c["hi"]) if chr(x).isspace() or chr(x).strip() == ""]
        if k == "struct":
            t = impl.types
            srv = impl.new_server()
            fm = srv.protocol.fm
            opts = _instance(getattr(t, c["u"]))
            try:
                srv.feature(c["m"], opts)(impl.make(1, 0, 0))
                acc = 1
            except Exception:
                acc = 0
            return [acc, 1 if c["m"] in fm.features else 0, 1 if c["m"] in fm.feature_options else 0]
        if k == "blank":
            s = "".join(map(chr, c["s"]))
            srv = impl.new_server()
            r = []
            for dec in (srv.feature, srv.command):
                try:
                    dec(s)(impl.make(1, 0, 0))
                    r.append(1)
                except Exception:
                    r.append(0)
            return r
        return ["?"]
    except Exception as ex:
        return ["raise", type(ex).__name__]


# ----------------------------------------------------------------------------- alphabets
ALPHABETS = {
    # name classes, option kinds, (async, thread decorator) shapes
    "full": (["fresh", "taken", N_EMPTY, N_WS, N_NONE], (O_NONE, O_VALID, O_WRONG),
             [(a, t) for a in (0, 1) for t in (T_NONE, T_ABOVE, T_BELOW)]),
    "mid": (["fresh", "taken", N_EMPTY, N_WS, N_NONE], (O_NONE, O_VALID, O_WRONG),
            [(0, T_NONE), (0, T_ABOVE), (1, T_ABOVE), (1, T_BELOW)]),
    "red": (["fresh", "taken", N_EMPTY], (O_NONE, O_VALID, O_WRONG),
            [(0, T_NONE), (0, T_ABOVE), (1, T_ABOVE)]),
    "tiny": (["fresh", "taken", N_EMPTY], (O_NONE, O_WRONG), [(0, T_NONE), (1, T_ABOVE)]),
}
_LETTERS = {}


def letters(alpha):
    """abstract letters (kind, nameclass, optkind, async, thr); nameclass: 'fresh','taken', or a table idx"""
    if alpha not in _LETTERS:
        names, opts, shapes = ALPHABETS[alpha]
        out = []
        for nm in names:
            for ok in opts:
                for asy, t in shapes:
                    out.append((0, nm, ok, asy, t))
        for nm in names:
            for asy, t in shapes:
                out.append((1, nm, O_NONE, asy, t))
        _LETTERS[alpha] = out
    return _LETTERS[alpha]


POOLS = {0: [5, 4, 13], 1: [10, 11, 4]}


def concretise(abs_seq, idxs):
    """resolve fresh/taken against the names used so far (by any attempt of the same kind, accepted
    or not); the parameter shape cycles with the letter index so that all three occur"""
    used = {0: [], 1: []}
    out = []
    for (kind, nm, ok, asy, t), li in zip(abs_seq, idxs):
        if nm == "fresh":
            ni = next((p for p in POOLS[kind] if p not in used[kind]), POOLS[kind][-1])
        elif nm == "taken":
            ni = used[kind][-1] if used[kind] else POOLS[kind][0]
        else:
            ni = nm
        if ni in POOLS[kind]:
            used[kind].append(ni)
        if ok == O_WRONG and ni in BADFIELD_NAMES and li % 2:
            ok = O_BADFIELD          # the wrong-type letter alternates: unrelated object / right class, bad content
        out.append((kind, ni, ok, asy, li % 3, t))
    return out


def expand_block(c):
    """a block = every extension of `prefix` (letter indices) by one letter of the alphabet"""
    al = letters(c["alpha"])
    seen, out = set(), []
    for x in range(len(al)):
        idxs = list(c["prefix"]) + [x]
        s = tuple(concretise([al[i] for i in idxs], idxs))
        if s not in seen:
            seen.add(s)
            out.append(list(s))
    return out


def wrong_value_cases():
    """every wrong-type option value x methods whose options type is a class (4 5 6 13 14), a Union (7 15),
    declared None (8), not declared at all (9 16) x {alone, after an accepted registration, after one and
    followed by a valid registration of the same name}: `seq` cases"""
    out = []
    for ni in (5, 13, 4, 6, 14, 7, 15, 8, 9, 16):
        prior = [0, 5 if ni == 4 else 4, O_VALID, 0, 0, T_NONE]
        for v in range(len(WV_NAMES)):
            for ctx in range(3):
                att = [0, ni, O_WV + v, (v + ctx) % 2, (v + ni) % len(PARAMS), T_NONE]
                seq = [att] if ctx == 0 else [prior, att]
                if ctx == 2:
                    seq = seq + [[0, ni, O_VALID, 0, 0, T_NONE]]
                out.append({"k": "seq", "seq": seq})
    return out


class C19(core.Property):
    id = "C19"
    modules = ["Proofs.FeaturesProofs", "Props.C19"]
    obligations = ["reject_is_identity", "reject_keeps_function", "wf_step", "at_most_one_handler",
                   "registered_names_valid", "accept_feature_frame", "accept_command_frame",
                   "accept_thread_frame", "history_atomic", "caps_unchanged", "dispatch_unchanged",
                   "dispatch_frame_feature", "dispatch_frame_command", "builtin_always_wins",
                   "name_invalid_blank", "step_refines", "refused_iff_must_refuse", "attempts_refine",
                   "shape_general", "site_iff_thread", "inject_iff_asked", "site_iff_thread_product",
                   "inject_iff_asked_product", "C19_partial", "C19_atomicity", "C19_refuted_structural",
                   "C19_refuted_falsy", "C19_refuted", "C19_reference_agrees", "C19_nonvacuous",
                   "C19_unrepaired_refuted", "creation_changes_nothing", "world_reject_is_identity",
                   "world_at_most_one_handler", "world_history_atomic", "world_creation_silent", "mstep_frame",
                   "wstep_refines", "wrun_refines", "C19_two_phase", "C19_two_phase_nonvacuous",
                   "taken_feature_refused", "taken_command_refused", "accept_thread_frame_other",
                   "accept_thread_frame_wrapper", "mark_function_marks_every_alias",
                   "C19_same_function_again", "C19_taken_name_refused_whatever_is_offered"]
    coq_targets = ["Props/C19.vo", "Extract/ExtractC19.vo"]
    rule = ("sequences of decorated definitions over {feature, command} x {fresh, taken, '', whitespace, None} x "
            "{no, valid, wrong-type options} x {sync, async} x {no thread, thread above, thread below}; a case is "
            "non-trivial when it contains at least one refused call after at least one accepted call")
    trusted_base = ["Coq 8.16.1 kernel incl. vm_compute (finite shape product, witnesses, Examples)",
                    "extraction with ExtrOcamlBasic only + ocaml/c19_driver.ml + conv_io/conv_n",
                    "harness/c19.py (generators, snapshots, the hand-written oracle table for the options check)",
                    "modelled not verified: str.strip/isspace, dict with str/None keys, inspect.signature / "
                    "get_type_hints (abstract signature), lsprotocol/cattrs type check (oracle bit)",
                    priv.trusted(["protocol.get_handler", "server.thread_pool"])]
    private = ["protocol.get_handler", "server.thread_pool"]
    assumptions = ["function objects are identities with mutable attributes and may be offered any number of "
                   "times; decorators may be created early, applied late, more than once or never",
                   "the verdict of the options type check is a function of (method, options object) alone: it "
                   "does not depend on earlier registrations on this or any other server of the process "
                   "(modelling assumption, checked by the multi-server histories of the correspondence run)",
                   "names are None or str"]
    procs = 4

    # ---------------- generation ----------------
    def generate(self, chk):
        cases = []
        cdir = os.path.join(core.ROOT, "corpus", "C19")
        if os.path.isdir(cdir):
            for f in sorted(os.listdir(cdir)):
                if f.endswith(".json"):
                    cases.extend(json.load(open(os.path.join(cdir, f))))
        rng = chk.rng
        nfull = len(letters("full"))
        # the wrong-type option VALUES (truthy singletons, scalars, containers, foreign objects)
        cases.extend(wrong_value_cases())
        # every sequence of length <= 2 over the full alphabet, with the initialize result (deep)
        cases.append({"k": "block", "alpha": "full", "prefix": [], "deep": True})
        for a in range(nfull):
            cases.append({"k": "block", "alpha": "full", "prefix": [a], "deep": True})
        def blocks(alpha, plen):
            n = len(letters(alpha))
            for p in itertools.product(range(n), repeat=plen):
                cases.append({"k": "block", "alpha": alpha, "prefix": list(p)})
        if chk.quick:
            blocks("red", 2)            # every sequence of length 3 over the reduced alphabet (36 letters)
        else:
            blocks("mid", 2)            # length 3 over 80 letters
            blocks("tiny", 3)           # length 4 over 18 letters
        # two-phase API: creations and applications interleaved; several servers in one process
        cases.extend(inter_priming())
        cases.extend(inter_exhaustive())
        cases.extend(inter_reuse())
        cases.extend(inter_repeat())
        for _ in range(chk.n(1200, 15000)):
            cases.append(inter_random(rng))
        # the registration-shape product (C14 half), also run here
        cases.extend(sh["case"] for sh in shapes_cases())
        # random sequences <= 6 over the rich alphabet (every name of the table, every option kind,
        # every parameter shape)
        for _ in range(chk.n(1500, 20000)):
            n = rng.randint(1, 6)
            seq = []
            for _ in range(n):
                kind = 0 if rng.random() < 0.65 else 1
                ni = rng.choice([4, 4, 5, 5, 6, 7, 8, 9, 12, 10, 13, 14, 15, 16, 16, 17, 18, 0, 1, 2, 3]) if kind == 0 else \
                    rng.choice([10, 10, 11, 11, 4, 0, 1, 2, 3])
                ok = rng.choice([O_NONE, O_NONE, O_VALID, O_VALID, O_WRONG, O_BADFIELD, O_BADFIELD, O_BADELEM, O_STRUCT, O_FALSY,
                                 O_TYPEERR]) \
                    if kind == 0 else O_NONE
                seq.append([kind, ni, ok, rng.randint(0, 1), rng.randrange(len(PARAMS)), rng.randrange(3)])
            cases.append({"k": "seq", "seq": seq})
        # str.isspace / strip: the characters the name validation treats as blank
        for lo in range(0, 0x110000, 0x4000):
            cases.append({"k": "isspaces", "lo": lo, "hi": lo + 0x4000})
        # every (method, options class) pair: the extent of finding 27
        # (computed in a forked child: the parent process never calls into pygls' type lookup, so the
        # children that run the cases - and every replay - start from an untouched process)
        import multiprocessing as mp
        with mp.get_context("fork").Pool(1) as pool:
            cases.extend(pool.apply(struct_pairs))
        ws = [0x20, 0x09, 0x0A, 0x85, 0xA0, 0x3000, 0x61, 0x200B, 0x1F]
        for n in range(0, 4):
            for t in itertools.product(ws, repeat=n):
                cases.append({"k": "blank", "s": list(t)})
        return cases

    # ---------------- implementation ----------------
    def run_impl(self, chk, cases):
        heavy = [i for i, c in enumerate(cases) if c["k"] in ("block", "seq", "inter", "struct")]
        out = [None] * len(cases)
        light = [i for i, c in enumerate(cases) if c["k"] not in ("block", "seq", "inter", "struct")]
        if heavy:
            # always in freshly forked children: the parent never registers anything, so every
            # evaluation (in particular a replay or a shrink candidate) starts from a clean process
            import multiprocessing as mp
            ctx = mp.get_context("fork")
            nproc = self.procs if len(heavy) >= 40 else 1
            nchunks = nproc * 8 if len(heavy) >= 40 else 1
            chunks = [heavy[j::nchunks] for j in range(nchunks)]
            with ctx.Pool(nproc) as pool:
                res = priv.collect(pool.map(_worker, [([cases[i] for i in ch], True) for ch in chunks], chunksize=1))
            for ch, rs in zip(chunks, res):
                for i, r in zip(ch, rs):
                    out[i] = r
        if light:
            impl = _Impl()
            try:
                for i in light:
                    out[i] = _run_case(impl, cases[i])
            finally:
                impl.close()
        return out

    # ---------------- model ----------------
    _hdr = None

    def header(self):
        if self._hdr is None:
            import multiprocessing as mp
            with mp.get_context("fork").Pool(1) as pool:      # the parent never instantiates pygls objects
                b = pool.apply(_builtins_idx)
            lst = lambda l: f"{len(l)} " + " ".join(map(str, l)) if l else "0"
            self._hdr = (f"{len(TABLE)} " + " ".join(enc_name(n) for n in TABLE) + " " + lst(PROBE_F) + " "
                         + lst(PROBE_C) + " " + lst(b))
        return self._hdr

    def model_input(self, c):
        k = c["k"]
        if k == "seq":
            return f"seqs {self.header()} 1 {enc_seq([tuple(a) for a in c['seq']])}"
        if k == "block":
            seqs = expand_block(c)
            return f"seqs {self.header()} {len(seqs)} " + " ".join(enc_seq(s) for s in seqs)
        if k == "inter":
            return f"inter {self.header()} {enc_inter(c)}"
        if k == "isspaces":
            return f"isspaces {c['lo']} {c['hi']}"
        if k == "struct":
            return f"one {enc_name(c['m'])} 1 1 1 {c['nominal']} {CK_VALID if c['accepts'] else CK_RAISES}"
        if k == "blank":
            return "invalid " + enc_name("".join(map(chr, c["s"])))
        return "?"

    @staticmethod
    def _split(toks):
        outs = []
        for part in " ".join(toks).split("#"):
            if not part.strip():
                continue
            m, s, g = [x.strip() for x in part.split("|")]
            bits, _, srest = s.partition(" ")
            outs.append((m, bits[1:], srest, g == "1"))
        return outs

    def _stat(self, c, bits_list):
        st = self.__dict__.setdefault("_stats", {"sequences": 0, "calls": 0, "refused_calls": 0,
                                                 "sequences_with_refusal_after_acceptance": 0})
        nt = False
        for bits in bits_list:
            st["sequences"] += 1
            st["calls"] += len(bits)
            st["refused_calls"] += bits.count("1")
            if "01" in bits or ("0" in bits and "1" in bits[bits.index("0"):]):
                st["sequences_with_refusal_after_acceptance"] += 1
                nt = True
        self.__dict__.setdefault("_nt", {})[core.canon(c)] = nt
        self.extra_coverage = {"sequence_statistics": st}

    def model_output(self, c, toks):
        k = c["k"]
        if k in ("seq", "block", "inter"):
            self._stat(c, [p[1] for p in self._split(toks)])
        if k == "inter":
            (m, bits, s, g), = self._split(toks)
            return {"M": {"t": m}, "S": {"s": s, "bits": bits}, "guard": g,
                    "klass": None if g else inter_klass(c)}
        if k == "seq":
            (m, bits, s, g), = self._split(toks)
            return {"M": {"t": m}, "S": {"s": s, "bits": bits}, "guard": g,
                    "klass": None if g else klass_of([tuple(a) for a in c["seq"]])}
        if k == "block":
            parts = self._split(toks)
            g = all(p[3] for p in parts)
            return {"M": {"t": " ".join(h8(p[0]) for p in parts)},
                    "S": {"s": " ".join(h8(p[2]) for p in parts), "bits": " ".join(p[1] for p in parts)},
                    "guard": g, "klass": None}
        if k == "isspaces":
            return {"M": [int(x) for x in toks[1:]], "S": None, "guard": True}
        if k == "struct":
            v = [int(x) for x in toks]
            return {"M": v[0:3], "S": v[3:6], "guard": bool(v[6]),
                    "klass": None if v[6] else "F27-structural-option-check"}
        if k == "blank":
            inv, bl = int(toks[0]), int(toks[1])
            return {"M": [1 - inv, 1 - inv], "S": [1 - bl, 1 - bl], "guard": True}
        return {"M": None, "S": None, "guard": True}

    # impl = M: registry + dispatch after every call (the initialize result is not in the model)
    def same(self, c, impl, M):
        if c["k"] in ("seq", "block", "inter"):
            return isinstance(impl, dict) and impl.get("t") == M["t"]
        return impl == M

    # impl |= S: the reference's verdict and registrations after every call; after a refused call the
    # whole snapshot (registry, dispatch, initialize result) equals the previous one; the initialize
    # result depends on the registry only
    def satisfies(self, c, impl, S):
        if c["k"] in ("seq", "block", "inter"):
            if not isinstance(impl, dict) or impl.get("s") != S["s"] or not impl.get("fd"):
                return False
            for ub, sb in zip(impl["u"].split(" "), S["bits"].split(" ")):
                if len(ub) != len(sb):
                    return False
                for x, y in zip(ub, sb):
                    if y == "1" and x != "1":
                        return False
            return True
        return impl == S

    def nontrivial(self, c):
        return bool(self.__dict__.get("_nt", {}).get(core.canon(c), False))

    def shrink(self, c):
        if c["k"] == "block":
            for s in expand_block(c):
                yield {"k": "seq", "seq": [list(a) for a in s]}
        elif c["k"] == "inter":
            ops = c["ops"]
            for cut in range(len(ops) - 1, 0, -1):          # shorter prefixes
                yield {"k": "inter", "n": c["n"], "ops": ops[:cut]}
        elif c["k"] == "seq":
            seq = c["seq"]
            for i in range(len(seq)):
                if len(seq) > 1:
                    yield {"k": "seq", "seq": seq[:i] + seq[i + 1:]}
            for i, a in enumerate(seq):
                for j, v in ((5, 0), (4, 0), (3, 0)):
                    if a[j] != v:
                        b = list(a); b[j] = v
                        yield {"k": "seq", "seq": seq[:i] + [b] + seq[i + 1:]}

    def distribution(self, cases):
        d = {}
        for c in cases:
            key = c["k"] + ("/" + c["alpha"] + str(len(c["prefix"]) + 1) if c["k"] == "block" else "")
            d[key] = d.get(key, 0) + 1
        return d


    def search(self, chk):
        """failing-input search when a proof or the tie broke: corpus + every sequence <= 2 over the
        full alphabet + the shape product, judged by the reference S alone"""
        cases = [c for c in self.generate(chk) if c["k"] == "seq"][:400 + len(wrong_value_cases())]
        cases += [{"k": "block", "alpha": "full", "prefix": [], "deep": True}]
        cases += [{"k": "block", "alpha": "full", "prefix": [a], "deep": True} for a in range(len(letters("full")))]
        out = []
        for r in core.evaluate(self, chk, cases):
            if r["S"] is not None and r["guard"] and not self.satisfies(r["case"], r["impl"], r["S"]):
                r["verdict"] = "violation"
                out.append(core.shrink_case(self, chk, r))
                break
        return out


# ----------------------------------------------------------------------------- registration shapes (C14)
def shapes_cases():
    """The registration-shape product {feature, command} x {sync, async} x {no thread, thread above,
    thread below} x first-parameter shapes, as C19 `seq` cases of length 1 plus the closed-form
    expectation proved in Proofs/FeaturesProofs.v (site_iff_thread, inject_iff_asked):
      refused  iff  thread decorator and coroutine function;
      site = 2 (pool) iff a thread decorator is present, 1 (loop task) iff coroutine, else 0 (inline);
      inject = 1 iff the first parameter is named `ls` or annotated with the server's class.
    Returns a list of dicts {case, kind, asy, thr, par, param, expect}.  `run_shape(impl, shape)`
    observes the same on the real server (impl = c19._Impl())."""
    out = []
    for kind in (0, 1):
        for asy in (0, 1):
            for thr in (T_NONE, T_ABOVE, T_BELOW):
                for par in range(len(PARAMS)):
                    refused = bool(asy and thr != T_NONE)
                    exp = {"accepted": not refused,
                           "site": None if refused else (1 if asy else (2 if thr != T_NONE else 0)),
                           "inject": None if refused else (1 if par in (1, 2, 4) else 0)}
                    ni = 4 if kind == 0 else 10
                    out.append({"case": {"k": "seq", "seq": [[kind, ni, O_NONE, asy, par, thr]]},
                                "kind": kind, "asy": asy, "thr": thr, "par": par, "param": PARAMS[par][1],
                                "expect": exp})
    return out


def run_shape(impl, shape):
    """Registers the shape on a fresh real server and sends one probe message for it through the
    protocol; returns {accepted, site, inject, runs} as observed."""
    kind, ni, ok, asy, par, thr = shape["case"]["seq"][0]
    o = impl.run_seq([(kind, ni, ok, asy, par, thr)], deep=False)
    srv = impl.srvbox[0]
    table = srv.protocol.fm.features if kind == 0 else srv.protocol.fm.commands
    accepted = not o["exc"]          # no call of the decorated definition raised
    if TABLE[ni] not in table or not accepted:
        return {"accepted": False, "site": None, "inject": None, "runs": 0}
    D = impl.dispatch_tokens(srv).split(" ")
    # walk the dispatch tokens to the probe of this name
    pos, found = 0, None
    for i in PROBE_F:
        nran = int(D[pos + 1]); ent = D[pos + 2: pos + 2 + 3 * nran]; pos += 2 + 3 * nran
        if kind == 0 and i == ni:
            found = (nran, ent)
    for i in PROBE_C:
        nran = int(D[pos]); ent = D[pos + 1: pos + 1 + 3 * nran]; pos += 1 + 3 * nran
        if kind == 1 and i == ni:
            found = (nran, ent)
    nran, ent = found
    return {"accepted": True, "site": int(ent[1]) if nran else None, "inject": int(ent[2]) if nran else None,
            "runs": nran}


PROPERTY = C19


# ---------------------------------------------------------------------------------------------
# Second tie (appended; harness/gen_ast.py, coq/Base/PyMini.v, Proofs/AstFeaturesEquiv.v): the SOURCE TEXT of
# get_help_attrs, is_thread_function, has_ls_param_or_annotation and of the inner decorators of
# FeatureManager.feature / command (lambda-lifted) is translated on every run by a fail-closed AST translator
# into a deep embedding, and the kernel re-checks that the decorators make the model's checks in the model's
# order (name, duplicate, options - pygls.lsp as an oracle), raise the exception Model/Features.v names while
# the registry is still unchanged, and otherwise record assign_help_attrs / wrap_with_server and write the
# registry dictionaries as Features.feature / Features.command do.  NOT translated: thread(), wrap_with_server,
# assign_help_attrs, assign_thread_attr (attributes of function objects, which have identity).  Imported late
# ("Module::theorem") so that a broken translator tie does not hide the other obligations.
sys.path.insert(0, os.path.dirname(os.path.abspath(__file__)))
import gen_c19 as _gen_c19

C19.obligations = list(C19.obligations) + ["Proofs.AstFeaturesEquiv::" + n for n in (
    "ast_features_equiv", "ast_features_example")]
C19.coq_targets = list(C19.coq_targets) + ["Proofs/AstFeaturesEquiv.vo"]
C19.trusted_base = list(C19.trusted_base) + [
    "translator tie: harness/gen_ast.py (Python ast -> PyMini, fail-closed) and the PyMini semantics "
    "coq/Base/PyMini.v (hand-written meaning of the Python subset: str.strip, dict membership / item assignment, "
    "recorded calls of functions that change function objects, pygls.lsp / inspect / typing as oracles)"]
_prev_regenerate = getattr(C19, "regenerate", None)


def _regenerate(self, chk):
    try:
        if _prev_regenerate is not None:
            _prev_regenerate(self, chk)
    finally:
        core.coq_make(["Props/C19.vo", "Extract/ExtractC19.vo"])     # the differential side first
        with core._Lock("coq"):                                      # coq/Gen is shared
            try:
                _gen_c19.main()
            finally:
                core._coq_make(["Proofs/AstFeaturesEquiv.vo"])


C19.regenerate = _regenerate
