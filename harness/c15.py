"""C15 (framing half) - connection loss at any byte is an orderly stop.

Same model, driver glue and real-loop drivers as C02 (harness/c02.py): a session (a stream of
frames) is truncated at EVERY byte offset and followed by an orderly close (EOF) or a reset
(StreamReader.set_exception(ConnectionResetError) / a blocking reader raising
ConnectionResetError), for the three read loops.  Judged by Spec.FramingSpec.cut_bodies /
cut_term: exactly the frames complete within the prefix are handed over (a blocking reader at EOF
also hands the truncated bytes to json.loads, which must reject them: the error handler, never
handle_message, sees them) and the loop ends normally.
Not covered here (the other half of C15): the server/client wrappers around the loop and failing writers."""
import json, os
import core, c02
from c02 import H, B, jbody, py_frame, KINDS, DEFAULT_LIMIT


def sessions(rng, thorough):
    req = lambda i, m, p: jbody({"jsonrpc": "2.0", "id": i, "method": m, "params": p})
    note = lambda m, p: jbody({"jsonrpc": "2.0", "method": m, "params": p})
    s = [
        [(0, b"", req(1, "initialize", {"processId": None, "capabilities": {}})),
         (1, b"application/vscode-jsonrpc; charset=utf-8", note("initialized", {})),
         (2, b"utf8", note("textDocument/didOpen", {"textDocument": {"uri": "file:///é.txt", "text": "a€\U0001F60B\r\n\r\n"}})),
         (0, b"", req("s", "shutdown", None))],
        [(2, b"", note("t/x", {"s": "Content-Length: 5\r\n\r\n{}"})), (0, b"", b"{}"),
         (1, b"a\rb", req(2, "t/y", [1, 2, 3]))],
        [(0, b"", req(10 ** 9, "workspace/executeCommand", {"command": "c", "arguments": ["x" * 50]}))],
    ]
    if thorough:
        s.append([(rng.randrange(3), b"x", note("n/%d" % i, {"v": "ü" * rng.randrange(0, 9)})) for i in range(6)])
        s.append([(0, b"", req(i, "m", {"k": "€" * i})) for i in range(1, 5)])
    return s


class C15(c02.C02):
    id = "C15"
    modules = ["Proofs.FramingProofs", "Proofs.FramingProofsFrames", "Proofs.FramingProofsCut", "Props.C15"]
    obligations = ["step_app", "run_app", "chunk_independence", "run_eof_done", "run_frame", "parse_cl_no_lf",
                   "partial_line", "partial_body", "cut_inside_frame", "loop_on_prefix", "prefix_dispatch_complete_frames",
                   "terminates_normally", "no_partial_dispatch", "cut_bodies_full", "conforming_all",
                   "C15_framing", "C15_cut_inside_body", "C15_nonvacuous"]
    coq_targets = ["Props/C15.vo", "Extract/ExtractC15.vo"]
    COQCHK = "Pygls.Props.C15"
    rule = ("sessions of 1-6 JSON-RPC frames (three header layouts, multi-byte UTF-8, header text inside a body) x EVERY "
            "truncation offset 0..len x 3 real loops x {EOF, reset}; plus chunked arrivals of sampled prefixes; "
            "non-trivial = the cut falls strictly inside a frame")
    trusted_base = c02.C02.trusted_base + [
        "reset is produced by StreamReader.set_exception(ConnectionResetError) after the loop has consumed the prefix, "
        "and for blocking readers by a harness reader (readline/read(n)) that raises ConnectionResetError on the read "
        "that would have to wait"]
    assumptions = c02.C02.assumptions + [
        "a proper prefix of a body never parses as JSON (true for JSON objects/arrays; bodies in the generator are objects)",
        "the wrappers around the loop (start_io finally: shutdown(), TCP connection callback, client task) and write "
        "failures are the other half of C15 and are not covered by this check"]

    def generate(self, chk):
        rng = chk.rng
        cases = list(self.corpus())
        for si, msgs in enumerate(sessions(rng, not chk.quick)):
            data = b"".join(py_frame(*m) for m in msgs)
            n = len(data)
            for kind in KINDS:
                for end in ("eof", "reset"):
                    pipe = (kind != "stream" and end == "eof")
                    step = 1
                    if pipe and chk.quick:
                        step = 2 if kind == "pool" else 1
                    for cut in range(0, n + 1, step):
                        c = self.mk(kind, msgs, [cut], cut=cut, end=end)
                        c["json"] = True
                        if kind == "sync" and end == "eof" and (cut % 2 == 0):
                            c["rd"] = "bytesio"
                        cases.append(c)
                # chunked arrival of a few prefixes
                for _ in range(chk.n(6, 60)):
                    cut = rng.randrange(n + 1)
                    cuts = sorted(rng.randrange(cut + 1) for _ in range(rng.randint(1, 4)))
                    c = self.mk(kind, msgs, c02.parts_from_cuts(cut, cuts), cut=cut, end=rng.choice(["eof", "reset"]),
                                pace=1 if kind != "stream" else 0)
                    c["json"] = True
                    cases.append(c)
        # a StreamReader with a small limit: a truncated header line never trips the limit
        msgs = [(1, b"x" * 40, b'{"a":1}'), (0, b"", b"[1,2]")]
        n = len(b"".join(py_frame(*m) for m in msgs))
        for cut in range(n + 1):
            c = self.mk("stream", msgs, [cut], lim=56, cut=cut, end="eof"); c["json"] = True
            cases.append(c)
        return cases

    def model_output(self, c, toks):
        r = super().model_output(c, toks)
        if r.get("S") is not None and c.get("json"):
            # number of complete frames within the cut: only those may reach handle_message
            data_len = c["cut"] if c.get("cut") is not None else 1 << 62
            off, complete = 0, 0
            for l, v, b in c["msgs"]:
                off += len(py_frame(l, B(v), B(b)))
                if off <= data_len:
                    complete += 1
            r["S"]["complete"] = complete
        return r

    def satisfies(self, c, impl, S):
        if not super().satisfies(c, impl, S):
            return False
        if "complete" in S and impl.get("nhandled") != S["complete"]:
            return False        # a truncated frame reached a handler, or a complete one did not
        return True

    def nontrivial(self, c):
        if c["k"] != "frames" or c.get("cut") is None:
            return False
        off = 0
        for l, v, b in c["msgs"]:
            if c["cut"] == off:
                return False
            off += len(py_frame(l, B(v), B(b)))
            if c["cut"] < off:
                return True
        return False

    def shrink(self, c):
        if c["k"] != "frames":
            yield from super().shrink(c)
            return
        ms = c["msgs"]
        # drop leading complete frames, keeping the cut at the same place in the remaining stream
        if len(ms) > 1 and c.get("cut") is not None:
            f0 = len(py_frame(ms[0][0], B(ms[0][1]), B(ms[0][2])))
            if c["cut"] >= f0:
                d = dict(c); d["msgs"] = ms[1:]; d["cut"] = c["cut"] - f0; d["parts"] = [d["cut"]]
                yield d
            d = dict(c); d["msgs"] = ms[:-1]
            n = sum(len(py_frame(l, B(v), B(b))) for l, v, b in d["msgs"])
            if c["cut"] <= n:
                d["parts"] = [c["cut"]]
                yield d
        if len(c["parts"]) > 1:
            d = dict(c); d["parts"] = [c["cut"] if c.get("cut") is not None else sum(c["parts"])]
            yield d
        for i, (l, v, b) in enumerate(ms):
            if l != 0 and c.get("cut") is None:
                d = dict(c); d["msgs"] = ms[:i] + [[0, "", b]] + ms[i + 1:]
                yield d

    def search(self, chk):
        msgs = [(0, b"", b'{"a":1}'), (2, b"t", b'{"b":"\xc3\xa9"}')]
        n = len(b"".join(py_frame(*m) for m in msgs))
        cases = []
        for kind in KINDS:
            for end in ("eof", "reset"):
                for cut in range(n + 1):
                    c = self.mk(kind, msgs, [cut], cut=cut, end=end); c["json"] = True
                    cases.append(c)
        res = core.evaluate(self, chk, cases)
        return [r for r in res if r["verdict"] == "violation"][:1]

    def distribution(self, cases):
        d = {}
        for c in cases:
            key = f"{c['kind']}/{c.get('end', 'eof')}"
            d[key] = d.get(key, 0) + 1
        d["cut-inside-frame"] = sum(1 for c in cases if self.nontrivial(c))
        return d


PROPERTY = C15
