"""C15 (framing half) - connection loss at any byte is an orderly stop.

Same model, driver glue and real-loop drivers as C02 (harness/c02.py): a session (a stream of
frames) is truncated at EVERY byte offset and followed by an orderly close (EOF) or a reset
(StreamReader.set_exception(ConnectionResetError) / a blocking reader raising
ConnectionResetError), for the three read loops.  Judged by Spec.FramingSpec.cut_bodies /
cut_term: exactly the frames complete within the prefix are handed over (a blocking reader at EOF
also hands the truncated bytes to json.loads, which must reject them: the error handler, never
handle_message, sees them) and the loop ends normally.
Not covered here (the other half of C15): the server/client wrappers around the loop and failing writers."""
import asyncio, io, json, logging, os, signal, socket, struct, subprocess, sys, threading, time
from concurrent.futures import ThreadPoolExecutor
import core, c02
import priv
from c02 import H, B, jbody, py_frame, KINDS, DEFAULT_LIMIT

# the two private entry points behind JsonRPCServer.start_io, by the labels used in the reports
ENTRY = {"_start_io_sync": priv.start_io_sync, "_start_io_async": priv.start_io_async}

SERVER_SCRIPT = os.path.join(core.ROOT, "harness", "servers", "c15_server.py")


# ------------------------------------------------------------------ a real LSP session
def lsp_session(threaded=False):
    """Frames a real LanguageServer understands; requests interleaved with notifications that mutate state.
    threaded: plus a request whose handler is registered with @server.thread() (its answer is written
    from a pool thread, so writes come from two threads)."""
    req = lambda i, m, p: jbody({"jsonrpc": "2.0", "id": i, "method": m, "params": p})
    note = lambda m, p: jbody({"jsonrpc": "2.0", "method": m, "params": p})
    doc = "file:///c15.txt"
    chg = lambda v, t: note("textDocument/didChange", {"textDocument": {"uri": doc, "version": v},
                                                       "contentChanges": [{"text": t}]})
    extra = [(0, b"", req("t", "t/techo", {"n": 7}))] if threaded else []
    return [
        (0, b"", req(1, "initialize", {"processId": None, "rootUri": None, "capabilities": {}})),
        (1, b"application/vscode-jsonrpc; charset=utf-8", note("initialized", {})),
        (0, b"", note("textDocument/didOpen", {"textDocument": {"uri": doc, "languageId": "x", "version": 1, "text": "h\u00e9llo\n"}})),
        (2, b"utf8", req("a", "t/echo", {"n": 1})),
    ] + extra + [
        (0, b"", chg(2, "w\u00f6rld \u20ac\n")),
        (0, b"", req(2, "t/echo", {"n": 2})),
        (0, b"", chg(3, "final \U0001F60B\n")),
        (0, b"", req(3, "shutdown", None)),
    ]


def frame_ends(msgs):
    ends, off = [], 0
    for m in msgs:
        off += len(py_frame(*m)); ends.append(off)
    return ends


def sample_cuts(msgs, n, rng):
    """Offsets before the first byte, inside headers, inside bodies, between frames, at the end."""
    ends = frame_ends(msgs)
    total = ends[-1]
    starts = [0] + ends[:-1]
    pts = {0, total, 1, total - 1}
    for st, en in zip(starts, ends):
        pts.update({st, st + 5, st + 17, en - 3, en - 1, en})
    pts = sorted(p for p in pts if 0 <= p <= total)
    if len(pts) > n:
        keep = {0, total}
        keep.update(rng.sample(pts, n - 2))
        pts = sorted(keep)
    elif len(pts) < n:
        extra = set(pts)
        while len(extra) < min(n, total + 1):
            extra.add(rng.randrange(total + 1))
        pts = sorted(extra)
    return pts


def complete_in(msgs, cut):
    return sum(1 for e in frame_ends(msgs) if e <= cut)


def sessions(rng, thorough):
    req = lambda i, m, p: jbody({"jsonrpc": "2.0", "id": i, "method": m, "params": p})
    note = lambda m, p: jbody({"jsonrpc": "2.0", "method": m, "params": p})
    s = [
        [(0, b"", req(1, "initialize", {"processId": None, "capabilities": {}})),
         (1, b"application/vscode-jsonrpc; charset=utf-8", note("initialized", {})),
         (2, b"utf8", note("textDocument/didOpen", {"textDocument": {"uri": "file:///é.txt", "text": "a€\U0001F60B\r\n\r\n"}})),
         (0, b"", req("s", "shutdown", None))],
        [(2, b"", note("t/x", {"s": "Content-Length: 5\r\n\r\n{}"})), (0, b"", b"{}"),
         (1, b"a\rb", req(2, "t/y", [1, 2, 3]))],
        [(0, b"", req(10 ** 9, "workspace/executeCommand", {"command": "c", "arguments": ["x" * 50]}))],
    ]
    if thorough:
        s.append([(rng.randrange(3), b"x", note("n/%d" % i, {"v": "ü" * rng.randrange(0, 9)})) for i in range(6)])
        s.append([(0, b"", req(i, "m", {"k": "€" * i})) for i in range(1, 5)])
    return s


class C15(c02.C02):
    id = "C15"
    modules = ["Proofs.FramingProofs", "Proofs.FramingProofsFrames", "Proofs.FramingProofsCut",
               "Proofs.FramingProofsWrap", "Proofs.C15Endpoint", "Props.C15"]
    obligations = ["chunk_independence", "run_frame", "parse_cl_no_lf",   # (C02's chain is checked by ./check C02)
                   "partial_line", "partial_body", "cut_inside_frame", "loop_on_prefix", "prefix_dispatch_complete_frames",
                   "terminates_normally", "no_partial_dispatch",
                   "wrapper_releases", "wrapper_releases_any", "tcp_callback_closes_writer", "wrapper_returns_iff",
                   "send_data_never_raises", "send_data_effects",
                   "C15_framing", "C15_cut_inside_body", "C15_nonvacuous", "C15_wrappers",
                   "C15_refuted_tcp_callback", "C15_refuted_start_io_sync", "C15_send_data", "C15_send_data_nonvacuous",
                   "C15Endpoint.send_data_b", "C15Endpoint.step_fw", "C15Endpoint.run_fw", "failing_writer_core",
                   "failing_writer_alive", "C15_failing_writer", "C15_failing_writer_nonvacuous"]
    coq_targets = ["Props/C15.vo", "Extract/ExtractC15.vo"]
    COQCHK = "Pygls.Props.C15"
    rule = ("sessions of 1-6 JSON-RPC frames (three header layouts, multi-byte UTF-8, header text inside a body) x EVERY "
            "truncation offset 0..len x 3 real loops x {EOF, reset}; plus chunked arrivals of sampled prefixes; "
            "non-trivial = the cut falls strictly inside a frame")
    trusted_base = c02.C02.trusted_base + [
        "reset is produced by StreamReader.set_exception(ConnectionResetError) after the loop has consumed the prefix, "
        "and for blocking readers by a harness reader (readline/read(n)) that raises ConnectionResetError on the read "
        "that would have to wait",
        priv.trusted(["server.start_io_sync", "server.start_io_async", "server.stop_event", "server.thread_pool",
               "server.error_handler", "protocol.shutdown_flag", "protocol.request_futures", "protocol.result_types"])]
    private = ["server.start_io_sync", "server.start_io_async", "server.stop_event", "server.thread_pool",
               "server.error_handler", "protocol.shutdown_flag", "protocol.request_futures", "protocol.result_types"]
    assumptions = c02.C02.assumptions + [
        "a proper prefix of a body never parses as JSON (true for JSON objects/arrays; bodies in the generator are objects)",
        "the wrappers around the loop (start_io finally: shutdown(), TCP connection callback, client task) and write "
        "failures are the other half of C15 and are not covered by this check"]

    def generate(self, chk):
        rng = chk.rng
        cases = list(self.corpus())
        for si, msgs in enumerate(sessions(rng, not chk.quick)):
            data = b"".join(py_frame(*m) for m in msgs)
            n = len(data)
            for kind in KINDS:
                for end in ("eof", "reset"):
                    pipe = (kind != "stream" and end == "eof")
                    step = 1
                    if pipe and chk.quick:
                        step = 2 if kind == "pool" else 1
                    for cut in range(0, n + 1, step):
                        c = self.mk(kind, msgs, [cut], cut=cut, end=end)
                        c["json"] = True
                        if kind == "sync" and end == "eof" and (cut % 2 == 0):
                            c["rd"] = "bytesio"
                        cases.append(c)
                # chunked arrival of a few prefixes
                for _ in range(chk.n(6, 60)):
                    cut = rng.randrange(n + 1)
                    cuts = sorted(rng.randrange(cut + 1) for _ in range(rng.randint(1, 4)))
                    c = self.mk(kind, msgs, c02.parts_from_cuts(cut, cuts), cut=cut, end=rng.choice(["eof", "reset"]),
                                pace=1 if kind != "stream" else 0)
                    c["json"] = True
                    cases.append(c)
        # a StreamReader with a small limit: a truncated header line never trips the limit
        msgs = [(1, b"x" * 40, b'{"a":1}'), (0, b"", b"[1,2]")]
        n = len(b"".join(py_frame(*m) for m in msgs))
        for cut in range(n + 1):
            c = self.mk("stream", msgs, [cut], lim=56, cut=cut, end="eof"); c["json"] = True
            cases.append(c)
        return cases

    def model_output(self, c, toks):
        r = super().model_output(c, toks)
        if r.get("S") is not None and c.get("json"):
            # number of complete frames within the cut: only those may reach handle_message
            data_len = c["cut"] if c.get("cut") is not None else 1 << 62
            off, complete = 0, 0
            for l, v, b in c["msgs"]:
                off += len(py_frame(l, B(v), B(b)))
                if off <= data_len:
                    complete += 1
            r["S"]["complete"] = complete
        return r

    def satisfies(self, c, impl, S):
        if not super().satisfies(c, impl, S):
            return False
        if "complete" in S and impl.get("nhandled") != S["complete"]:
            return False        # a truncated frame reached a handler, or a complete one did not
        return True

    def nontrivial(self, c):
        if c["k"] != "frames" or c.get("cut") is None:
            return False
        off = 0
        for l, v, b in c["msgs"]:
            if c["cut"] == off:
                return False
            off += len(py_frame(l, B(v), B(b)))
            if c["cut"] < off:
                return True
        return False

    def shrink(self, c):
        if c["k"] != "frames":
            yield from super().shrink(c)
            return
        ms = c["msgs"]
        # drop leading complete frames, keeping the cut at the same place in the remaining stream
        if len(ms) > 1 and c.get("cut") is not None:
            f0 = len(py_frame(ms[0][0], B(ms[0][1]), B(ms[0][2])))
            if c["cut"] >= f0:
                d = dict(c); d["msgs"] = ms[1:]; d["cut"] = c["cut"] - f0; d["parts"] = [d["cut"]]
                yield d
            d = dict(c); d["msgs"] = ms[:-1]
            n = sum(len(py_frame(l, B(v), B(b))) for l, v, b in d["msgs"])
            if c["cut"] <= n:
                d["parts"] = [c["cut"]]
                yield d
        if len(c["parts"]) > 1:
            d = dict(c); d["parts"] = [c["cut"] if c.get("cut") is not None else sum(c["parts"])]
            yield d
        for i, (l, v, b) in enumerate(ms):
            if l != 0 and c.get("cut") is None:
                d = dict(c); d["msgs"] = ms[:i] + [[0, "", b]] + ms[i + 1:]
                yield d

    def search(self, chk):
        msgs = [(0, b"", b'{"a":1}'), (2, b"t", b'{"b":"\xc3\xa9"}')]
        n = len(b"".join(py_frame(*m) for m in msgs))
        cases = []
        for kind in KINDS:
            for end in ("eof", "reset"):
                for cut in range(n + 1):
                    c = self.mk(kind, msgs, [cut], cut=cut, end=end); c["json"] = True
                    cases.append(c)
        res = core.evaluate(self, chk, cases)
        return [r for r in res if r["verdict"] == "violation"][:1]

    # ------------------------------------------------------------ runtime clauses (extra_checks)
    def extra_checks(self, chk):
        viol = list(super().extra_checks(chk) or [])       # driver sanity (+ coqchk in the thorough tier)
        cov = dict(getattr(self, "extra_coverage", {}) or {})
        logging.disable(logging.CRITICAL)
        # in-process runs of library code that may block in ways the main thread cannot interrupt (a pool
        # thread stuck on a lock keeps shutdown() and the interpreter's exit waiting) happen in a forked
        # child under a deadline (c02.run_isolated); a sub-check that crashes does not stop the others
        for name, fn, isolated in (("wrappers_inprocess", self.check_wrappers_inprocess, True),
                                   ("stdio_writers", self.check_stdio_writers, True),
                                   ("failing_writers", self.check_failing_writers, True),
                                   ("restart_same_object", self.check_restart, True),
                                   ("real_servers", self.check_real_servers, False),
                                   ("failing_writers_endpoint", self.check_failing_writers_endpoint, False)):
            t0 = time.time()
            hung = None
            try:
                if isolated:
                    v, n, hung = c02.run_isolated(fn, chk)
                else:
                    v, n = fn(chk)
            except Exception as e:      # noqa
                v, n = [{"case": {"k": name}, "impl": {"harness": "crash: %s: %s" % (type(e).__name__, str(e)[:300])},
                         "S": None, "verdict": "violation", "suffix": "no-failing-input-found"}], 0
            cov[name] = {"cases": n, "violations": len(v), "wall_s": round(time.time() - t0, 2)}
            if hung is not None:
                cov[name]["hung_in"] = hung
            viol += v
        viol.sort(key=lambda r: 1 if r.get("suffix") else 0)     # concrete failing inputs first
        self.extra_coverage = cov
        return viol

    def check_failing_writers_endpoint(self, chk):
        import c15_endpoint                  # scheduler-driven companion of Proofs/C15Endpoint.v
        return c15_endpoint.check(chk)

    @staticmethod
    def _viol(case, impl, S):
        return {"case": case, "impl": impl, "S": S, "verdict": "violation"}

    # -- (1) the real start_io wrappers, in process, at sampled / every offset
    def check_wrappers_inprocess(self, chk):
        from pygls.lsp.server import LanguageServer
        msgs = lsp_session()
        data = b"".join(py_frame(*m) for m in msgs)
        cuts = range(len(data) + 1) if not chk.quick else sample_cuts(msgs, 24, chk.rng)
        viol, n = [], 0

        def on_alarm(signum, frame):
            raise c02.HarnessTimeout()
        old = signal.signal(signal.SIGALRM, on_alarm)
        try:
            for cut in cuts:
                if len(viol) >= 3 and c02.HANGS:
                    break                              # the loop does not end: no point in more offsets
                for mode in ("sync-eof", "sync-reset", "async-eof"):
                    n += 1
                    getattr(chk, "progress", lambda d: None)({"k": "wrapper", "mode": mode, "cut": cut})
                    srv = LanguageServer("c15", "1")
                    handled = []
                    orig = srv.protocol.handle_message
                    srv.protocol.handle_message = lambda m, _o=orig: (handled.append(1), _o(m))[1]
                    pool = srv.thread_pool
                    prefix = data[:cut]
                    wt = None
                    # the two private entry points of start_io: located before the observed call
                    start_sync, start_async = priv.start_io_sync(srv), priv.start_io_async(srv)
                    try:
                        signal.setitimer(signal.ITIMER_REAL, c02.case_deadline())
                        if mode == "sync-eof":
                            start_sync(io.BytesIO(prefix), io.BytesIO())
                        elif mode == "sync-reset":
                            start_sync(c02.ResetReader([prefix]), io.BytesIO())
                        else:
                            r, w = os.pipe()
                            rd = os.fdopen(r, "rb")
                            wt = threading.Thread(target=c02.pipe_writer, args=(w, [prefix], 0), daemon=True)
                            wt.start()
                            try:
                                start_async(rd, io.BytesIO())
                            finally:
                                rd.close()
                        ret = "returns"
                    except c02.HarnessTimeout:
                        ret = "hang"
                        c02.note_hang()
                    except BaseException as e:      # noqa
                        ret = "raise:" + type(e).__name__
                    finally:
                        signal.setitimer(signal.ITIMER_REAL, 0)
                        if wt is not None:
                            wt.join(5)
                    ev = priv.stop_event(srv)
                    try:
                        pool.submit(lambda: None); down = False
                        pool.shutdown()
                    except RuntimeError:
                        down = True
                    impl = {"ret": ret, "stop_set": bool(ev is not None and ev.is_set()), "pool_down": down,
                            "handled": len(handled)}
                    S = {"ret": "returns", "stop_set": True, "pool_down": True, "handled": complete_in(msgs, cut)}
                    if impl != S:
                        viol.append(self._viol({"k": "wrapper", "mode": mode, "cut": cut}, impl, S))
            # @thread handlers queued behind ONE worker when the input ends: shutdown() waits for all of them
            for which in ("_start_io_sync", "_start_io_async"):     # (labels of the two entry points in the reports)
                n += 1
                srv = LanguageServer("c15", "1")
                priv.set_thread_pool(srv, ThreadPoolExecutor(max_workers=1))    # ONE worker
                entry_fn = ENTRY[which](srv)
                done = []

                @srv.thread()
                @srv.feature("t/slow")
                def slow(params, _d=done):
                    time.sleep(0.01)
                    _d.append(1)
                sl = b"".join(py_frame(0, b"", jbody({"jsonrpc": "2.0", "method": "t/slow", "params": {"i": i}}))
                              for i in range(6))
                try:
                    signal.setitimer(signal.ITIMER_REAL, c02.case_deadline())
                    entry_fn(io.BytesIO(sl), io.BytesIO())
                    ret = "returns"
                except c02.HarnessTimeout:
                    ret = "hang"
                    c02.note_hang()
                except BaseException as e:      # noqa
                    ret = "raise:" + type(e).__name__
                finally:
                    signal.setitimer(signal.ITIMER_REAL, 0)
                impl = {"ret": ret, "thread_done": len(done)}
                S = {"ret": "returns", "thread_done": 6}
                if impl != S:
                    viol.append(self._viol({"k": "wrapper", "mode": which + "/thread-backlog"}, impl, S))
            # a loop that ends with an exception (int() refuses 4301 digits): released all the same, propagated
            for which in ("_start_io_sync", "_start_io_async"):
                n += 1
                srv = LanguageServer("c15", "1")
                pool = srv.thread_pool
                entry_fn = ENTRY[which](srv)
                bad = b"Content-Length: " + b"0" * 4300 + b"2\r\n\r\n{}"
                try:
                    signal.setitimer(signal.ITIMER_REAL, c02.case_deadline())
                    entry_fn(io.BytesIO(bad), io.BytesIO())
                    ret = "returns"
                except c02.HarnessTimeout:
                    ret = "hang"
                    c02.note_hang()
                except BaseException as e:      # noqa
                    ret = "raise:" + type(e).__name__
                finally:
                    signal.setitimer(signal.ITIMER_REAL, 0)
                try:
                    pool.submit(lambda: None); down = False
                    pool.shutdown()
                except RuntimeError:
                    down = True
                impl = {"ret": ret, "stop_set": priv.stop_event(srv).is_set(), "pool_down": down}
                S = {"ret": "raise:ValueError", "stop_set": True, "pool_down": True}
                if impl != S:
                    viol.append(self._viol({"k": "wrapper", "mode": which + "/loop-raises"}, impl, S))
        finally:
            signal.signal(signal.SIGALRM, old)
        return viol[:3], n

    # -- the stdio entry points over REAL pipes: {buffered, unbuffered} stdout x what the peer does with it
    def check_stdio_writers(self, chk):
        """start_io (async) and its sync variant with stdin = BufferedReader(pipe) and stdout = an
        io.BufferedWriter (as sys.stdout.buffer is without -u) or a raw FileIO over a pipe whose other end
        the peer reads completely / closes before anything / closes after the first answer / closes just
        before the last request - i.e. 0, all, several or one failed write before the input ends.  S: the
        entry point returns normally, stop flag set, pool shut down, every complete frame handled."""
        from pygls.lsp.server import LanguageServer
        msgs = lsp_session()
        data = b"".join(py_frame(*m) for m in msgs)
        ends = frame_ends(msgs)
        viol, n = [], 0
        cuts = [len(data), ends[3] + 9]                 # the whole session; a cut inside the body after a request
        for entry in ("_start_io_async", "_start_io_sync"):
            for buffered in (True, False):
                for peer in ("reads-all", "closes-at-once", "closes-after-first-answer", "closes-before-last-request"):
                    for cut in cuts:
                        if c02.HANGS >= c02.MAX_HANGS:
                            return viol[:3], n
                        if chk.quick and peer == "reads-all" and cut != len(data):
                            continue
                        n += 1
                        case = {"k": "stdio-writer", "entry": entry, "stdout": "buffered" if buffered else "raw",
                                "peer": peer, "cut": cut}
                        getattr(chk, "progress", lambda d: None)(case)
                        srv = LanguageServer("c15-stdio", "1")
                        handled = []
                        orig = srv.protocol.handle_message
                        srv.protocol.handle_message = lambda m, _o=orig, _h=handled: (_h.append(1), _o(m))[1]
                        pool = srv.thread_pool
                        r_in, w_in = os.pipe()
                        r_out, w_out = os.pipe()
                        stdin = os.fdopen(r_in, "rb")
                        raw = io.FileIO(w_out, "wb")
                        stdout = io.BufferedWriter(raw) if buffered else raw
                        prefix = data[:cut]
                        split = ends[0] if peer == "closes-after-first-answer" else \
                            (max(e for e in [0] + ends[:-1] if e <= cut) if peer == "closes-before-last-request" else 0)
                        split = min(split, len(prefix))

                        def drain(fd):
                            try:
                                while os.read(fd, 65536):
                                    pass
                            except OSError:
                                pass
                            finally:
                                try:
                                    os.close(fd)
                                except OSError:
                                    pass

                        def peer_thread(peer=peer, r_out=r_out, w_in=w_in, prefix=prefix, split=split, handled=handled):
                            try:
                                if peer == "reads-all":
                                    threading.Thread(target=drain, args=(r_out,), daemon=True).start()
                                    c02.pipe_writer(w_in, [prefix], 0)
                                    return
                                if peer == "closes-at-once":
                                    os.close(r_out)
                                    c02.pipe_writer(w_in, [prefix], 0)
                                    return
                                os.write(w_in, prefix[:split])
                                if peer == "closes-after-first-answer":
                                    os.read(r_out, 65536)             # the answer to `initialize` has arrived
                                else:
                                    end = time.time() + 3             # everything before the last frame is handled
                                    while len(handled) < complete_in(msgs, split) and time.time() < end:
                                        time.sleep(0.002)
                                    time.sleep(0.01)
                                os.close(r_out)                       # ... and nobody reads the rest
                                c02.pipe_writer(w_in, [prefix[split:]], 0)
                            except OSError:
                                try:
                                    os.close(w_in)
                                except OSError:
                                    pass
                        pt = threading.Thread(target=peer_thread, daemon=True)
                        pt.start()
                        try:
                            with c02.alarm(c02.case_deadline()):
                                ENTRY[entry](srv)(stdin, stdout)
                            ret = "returns"
                        except c02.HarnessTimeout:
                            ret = "hang"
                            c02.note_hang()
                        except BaseException as e:      # noqa
                            ret = "raise:" + type(e).__name__
                        pt.join(5)
                        ev = priv.stop_event(srv)
                        try:
                            pool.submit(lambda: None); down = False
                            pool.shutdown(wait=False)
                        except RuntimeError:
                            down = True
                        for f in (stdout, raw, stdin):
                            try:
                                f.close()
                            except (OSError, ValueError):
                                pass
                        if peer == "reads-all":
                            pass                               # the drain thread sees EOF now that stdout is closed
                        impl = {"ret": ret, "stop_set": bool(ev is not None and ev.is_set()), "pool_down": down,
                                "handled": len(handled)}
                        S = {"ret": "returns", "stop_set": True, "pool_down": True, "handled": complete_in(msgs, cut)}
                        if impl != S:
                            viol.append(self._viol(case, impl, S))
        return viol[:3], n

    # -- (4) writers that start failing at the k-th write
    def check_failing_writers(self, chk):
        from pygls import io_
        from pygls.lsp.server import LanguageServer
        msgs = lsp_session(threaded=True)
        data = b"".join(py_frame(*m) for m in msgs)
        viol, n = [], 0

        class Quiet(LanguageServer):
            def report_server_error(self, error, source):
                self.hook_calls.append(type(error).__name__)

        def run(k, exc, quiet, hook_raises=False, entry="_start_io_async"):
            """The session through the REAL wrapper (the server's own stop event and pool), stdout = a
            stream whose write raises from the k-th call on."""
            srv = (Quiet if quiet else LanguageServer)("c15", "1")
            srv.hook_calls = []
            if hook_raises:
                def bad(error, source):
                    srv.hook_calls.append(type(error).__name__)
                    raise RuntimeError("hook")
                srv.report_server_error = bad
            echoed = []

            @srv.feature("t/echo")
            def echo(params):
                echoed.append(getattr(params, "n", None) if not isinstance(params, dict) else params.get("n"))
                return {"ok": True}
            techoed = []

            @srv.thread()
            @srv.feature("t/techo")
            def techo(params):
                techoed.append(1)
                return {"ok": True}
            handled = []
            orig = srv.protocol.handle_message
            srv.protocol.handle_message = lambda m, _o=orig: (handled.append(1), _o(m))[1]

            class W:
                calls = 0; ok = 0; lock = threading.Lock()
                def write(self, b):
                    with W.lock:
                        W.calls += 1
                        mine = W.calls
                    if k is not None and mine >= k:
                        raise exc("writer failed")
                    with W.lock:
                        W.ok += 1
                def flush(self):
                    pass
                def close(self):
                    pass
            entry_fn = ENTRY[entry](srv)
            try:
                with c02.alarm(c02.case_deadline()):
                    entry_fn(io.BytesIO(data), W())
                term = "normal"
            except c02.HarnessTimeout:
                term = "hang"                    # e.g. shutdown() waiting for a pool thread that never finishes
                c02.note_hang()
            except BaseException as e:      # noqa
                term = "raise:" + type(e).__name__
            doc = srv.workspace.text_documents.get("file:///c15.txt")
            return {"term": term, "handled": len(handled), "echoed": echoed, "thread_echoed": len(techoed),
                    "text": None if doc is None else doc.source, "version": None if doc is None else doc.version,
                    "shutdown": priv.shutdown_flag(srv.protocol)}, W, srv

        base, W0, _ = run(None, OSError, True)
        nwrites = W0.calls
        S = {"term": "normal", "handled": len(msgs), "echoed": [1, 2], "thread_echoed": 1, "text": "final \U0001F60B\n", "version": 3,
             "shutdown": True}
        n += 1
        if base != S or nwrites < 5:
            viol.append(self._viol({"k": "failing-writer", "from": None}, dict(base, writes=nwrites), S))
        excs = [BrokenPipeError, ConnectionResetError, OSError, ValueError]
        for k in range(1, nwrites + 2):
            for exc in excs:
                for flavour in ("default-hook", "quiet-hook", "raising-hook"):
                    for ei, entry in enumerate(("_start_io_async", "_start_io_sync")):
                        if chk.quick and (k + excs.index(exc) + ei) % 2:
                            continue                # quick tier: alternate the two wrappers
                        if c02.HANGS >= c02.MAX_HANGS:
                            return viol[:3], n
                        n += 1
                        getattr(chk, "progress", lambda d: None)({"k": "failing-writer", "from": k, "exc": exc.__name__,
                                                                  "hook": flavour, "entry": entry})
                        impl, W, srv = run(k, exc, flavour == "quiet-hook", flavour == "raising-hook", entry)
                        bad = impl != S
                        extra = {}
                        if flavour != "default-hook":
                            # the hook is called once per failed write, with the writer's exception
                            failed = W.calls - W.ok
                            extra = {"hook_calls": len(srv.hook_calls), "failed_writes": failed}
                            if len(srv.hook_calls) != failed or W.calls != nwrites:
                                bad = True
                        if bad:
                            viol.append(self._viol({"k": "failing-writer", "from": k, "exc": exc.__name__,
                                                    "hook": flavour, "entry": entry}, dict(impl, **extra), S))
        return viol[:3], n

    # -- a server object started AGAIN after a disconnect: the second session counts like the first
    def check_restart(self, chk):
        """pygls stops a TCP / stdio server on every disconnect; starting the same object again (a fresh
        port / fresh pipes) must serve the next client: every complete frame handled once, released, returns.
        (Model/Wrappers.v: every wrapper run starts from `fresh`, in particular from an unset stop flag.)"""
        from pygls.lsp.server import LanguageServer
        msgs = lsp_session()
        data = b"".join(py_frame(*m) for m in msgs)
        ends = frame_ends(msgs)
        viol, n = [], 0

        def tcp_session(srv, handled, prefix, how, bound=15.0):
            port = self._free_port()
            res = {}

            def serve():
                try:
                    srv.start_tcp("127.0.0.1", port)
                    res["ret"] = "returns"
                except BaseException as e:      # noqa
                    res["ret"] = "raise:" + type(e).__name__
            th = threading.Thread(target=serve, daemon=True)
            th.start()
            before = len(handled)
            sock, end = None, time.time() + 10
            while sock is None:
                try:
                    sock = socket.create_connection(("127.0.0.1", port), timeout=2)
                except OSError:
                    if time.time() > end or not th.is_alive():
                        break
                    time.sleep(0.02)
            if sock is not None:
                try:
                    sock.sendall(prefix)
                    want = before + complete_in(msgs, len(prefix))
                    end = time.time() + 3
                    while len(handled) < want and time.time() < end and th.is_alive():
                        time.sleep(0.005)
                    if how == "rst":
                        sock.setsockopt(socket.SOL_SOCKET, socket.SO_LINGER, struct.pack("ii", 1, 0))
                    else:
                        sock.shutdown(socket.SHUT_WR)
                        sock.settimeout(bound)
                        while sock.recv(65536):
                            pass
                except OSError:
                    pass                        # a server that hangs up on us: judged by what it handled
                finally:
                    sock.close()
            th.join(bound)
            ev = priv.stop_event(srv)
            return {"ret": res.get("ret", "hang") if not th.is_alive() else "hang", "handled": len(handled) - before,
                    "stop_set": bool(ev is not None and ev.is_set())}

        firsts = [("fin", len(data)), ("rst", ends[2] - 9), ("fin", 20), ("fin", 0)]
        if chk.quick:
            firsts = firsts[:3]
        for how, cut in firsts:
            srv = LanguageServer("c15-restart", "1")
            handled = []
            orig = srv.protocol.handle_message
            srv.protocol.handle_message = lambda m, _o=orig, _h=handled: (_h.append(1), _o(m))[1]
            for rnd, (h, c) in enumerate([(how, cut), ("fin", len(data)), ("fin", ends[4])]):
                n += 1
                impl = tcp_session(srv, handled, data[:c], h)
                S = {"ret": "returns", "handled": complete_in(msgs, c), "stop_set": True}
                if impl != S:
                    viol.append(self._viol({"k": "restart", "entry": "start_tcp", "round": rnd + 1,
                                            "first": [how, cut], "close": h, "cut": c}, impl, S))
                    break
        # the synchronous IO server, twice on the same object with fresh streams
        srv = LanguageServer("c15-restart", "1")
        handled = []
        orig = srv.protocol.handle_message
        srv.protocol.handle_message = lambda m, _o=orig, _h=handled: (_h.append(1), _o(m))[1]
        for rnd, c in enumerate((ends[3] + 5, len(data), ends[5])):
            n += 1
            before = len(handled)
            try:
                priv.start_io_sync(srv)(io.BytesIO(data[:c]), io.BytesIO())
                ret = "returns"
            except BaseException as e:      # noqa
                ret = "raise:" + type(e).__name__
            impl = {"ret": ret, "handled": len(handled) - before, "stop_set": priv.stop_event(srv).is_set()}
            S = {"ret": "returns", "handled": complete_in(msgs, c), "stop_set": True}
            if impl != S:
                viol.append(self._viol({"k": "restart", "entry": "start_io_sync", "round": rnd + 1, "cut": c}, impl, S))
                break
        return viol[:3], n

    # -- (3) real start_tcp / stdio servers in subprocesses, connection cut at sampled offsets, FIN and RST
    def check_real_servers(self, chk):
        msgs = lsp_session()
        data = b"".join(py_frame(*m) for m in msgs)
        ncut = chk.n(4, 50)
        cuts = sample_cuts(msgs, ncut, chk.rng)
        if chk.quick:
            ends = frame_ends(msgs)
            cuts = [0, 20, ends[2] - 9, ends[3]]       # before the first byte, in a header, in a body, between frames
        jobs = []
        for cut in cuts:
            jobs += [("tcp", "fin", cut), ("tcp", "rst", cut), ("stdio", "close", cut)]
        jobs.append(("tcp", "overlong-line", 0))      # the loop raises ValueError inside the connection callback
        # @thread handlers queued behind one worker when the peer disconnects: every complete frame is still handled
        slow = [(0, b"", jbody({"jsonrpc": "2.0", "method": "t/slow", "params": {"i": i}})) for i in range(6)]
        sdata = b"".join(py_frame(*m) for m in slow)
        jobs.append(("tcp", "fin-backlog", len(sdata)))
        jobs.append(("tcp", "fin-backlog", frame_ends(slow)[3] + 7))
        # the client stops reading: the server's writes fail with a real BrokenPipeError, inbound messages still count
        jobs.append(("stdio", "stdout-broken", len(data)))
        env = dict(os.environ, PYTHONPATH=core.REPO, PYTHONHASHSEED="0")
        env.pop("PYTHONUNBUFFERED", None)      # the child's sys.stdout.buffer must be a real BufferedWriter
        results = [None] * len(jobs)
        lock = threading.Lock()
        it = iter(range(len(jobs)))

        def worker():
            while True:
                with lock:
                    i = next(it, None)
                if i is None:
                    return
                try:
                    if jobs[i][1] == "fin-backlog":
                        results[i] = self._real_case(jobs[i], slow, sdata, env)
                    else:
                        results[i] = self._real_case(jobs[i], msgs, data, env)
                except Exception as e:      # noqa
                    results[i] = {"harness-error": type(e).__name__ + ": " + str(e)[:200]}
        ths = [threading.Thread(target=worker, daemon=True) for _ in range(4)]
        for t in ths:
            t.start()
        for t in ths:
            t.join(240)
        viol = []
        for job, impl in zip(jobs, results):
            ms = slow if job[1] == "fin-backlog" else msgs
            S = {"handled": complete_in(ms, job[2]), "returned": True, "stop_set": True, "pool_down": True,
                 "exit_status": 0, "thread_done": complete_in(ms, job[2]) if job[1] == "fin-backlog" else 0}
            if job[1] == "stdout-broken" and isinstance(impl, dict):
                impl = dict(impl, exit_status=0)       # the interpreter's own flush of the dead stdout may set 120
            if impl != S:
                viol.append(self._viol({"k": "real-server", "transport": job[0], "close": job[1], "cut": job[2]}, impl, S))
        return viol[:3], len(jobs)

    @staticmethod
    def _free_port():
        s = socket.socket()
        s.bind(("127.0.0.1", 0))
        p = s.getsockname()[1]
        s.close()
        return p

    def _real_case(self, job, msgs, data, env, bound=15.0):
        transport, how, cut = job
        prefix = data[:cut]
        want = complete_in(msgs, cut)
        lines = []

        def pump(f):
            for ln in iter(f.readline, b""):
                lines.append(ln.decode("utf-8", "replace").strip())
        handled = lambda: sum(1 for x in list(lines) if x == "H")

        def wait_handled(t):
            end = time.time() + t
            while time.time() < end and handled() < want:
                time.sleep(0.01)
        if transport == "tcp":
            port = self._free_port()
            p = subprocess.Popen([core.PY, SERVER_SCRIPT, "tcp", str(port)], env=env, stdin=subprocess.DEVNULL,
                                 stdout=subprocess.DEVNULL, stderr=subprocess.PIPE)
        else:
            p = subprocess.Popen([core.PY, SERVER_SCRIPT, "stdio"], env=env, stdin=subprocess.PIPE,
                                 stdout=subprocess.PIPE, stderr=subprocess.PIPE)
        th = threading.Thread(target=pump, args=(p.stderr,), daemon=True)
        th.start()
        drain = None
        try:
            if transport == "tcp":
                sock, end = None, time.time() + 10
                while sock is None:
                    try:
                        sock = socket.create_connection(("127.0.0.1", port), timeout=2)
                    except OSError:
                        if time.time() > end or p.poll() is not None:
                            raise
                        time.sleep(0.03)
                sock.sendall(prefix if how != "overlong-line" else b"X" * 70000 + b"\n")
                wait_handled(5)
                time.sleep(0.05)
                if how in ("fin", "overlong-line", "fin-backlog"):
                    sock.shutdown(socket.SHUT_WR)
                    sock.settimeout(bound)
                    try:
                        while sock.recv(65536):        # read everything: the server closes its side after the loop
                            pass
                    except OSError:
                        pass
                    sock.close()
                else:
                    # responses (if any) are left unread; SO_LINGER 0 makes close() send RST
                    sock.setsockopt(socket.SOL_SOCKET, socket.SO_LINGER, struct.pack("ii", 1, 0))
                    sock.close()
            else:
                if how == "stdout-broken":
                    p.stdout.close()
                else:
                    drain = threading.Thread(target=lambda: p.stdout.read(), daemon=True)
                    drain.start()
                p.stdin.write(prefix)
                p.stdin.flush()
                wait_handled(5)
                time.sleep(0.05)
                p.stdin.close()
            try:
                rc = p.wait(bound)
            except subprocess.TimeoutExpired:
                rc = None
        finally:
            if p.poll() is None:
                p.kill()
                p.wait(10)
            th.join(5)
            if drain is not None:
                drain.join(5)
            for f in (p.stderr, p.stdout, p.stdin):
                try:
                    if f is not None:
                        f.close()
                except Exception:
                    pass
        ret = [x for x in lines if x.startswith("RETURNED") or x.startswith("RAISED")]
        last = ret[-1] if ret else ""
        return {"handled": handled(), "returned": last.startswith("RETURNED"), "stop_set": "stop=1" in last,
                "pool_down": "pool=1" in last, "exit_status": rc if rc is not None else "still-running",
                "thread_done": sum(1 for x in lines if x == "T")}

    def distribution(self, cases):
        d = {}
        for c in cases:
            key = f"{c['kind']}/{c.get('end', 'eof')}"
            d[key] = d.get(key, 0) + 1
        d["cut-inside-frame"] = sum(1 for c in cases if self.nontrivial(c))
        return d


PROPERTY = C15
