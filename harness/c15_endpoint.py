"""C15, last clause, endpoint tie (companion of Proofs/C15Endpoint.v `failing_writer_core`).

Scenarios with sync / async / thread handlers, notifications, cancels, an outgoing request, shutdown,
under a saturating schedule (no model needed: an event that is not enabled is a no-op), are run through
the REAL endpoint (harness/sched.py: real run_async, real LanguageServer) once with a working writer
and once per failure point k = 0 .. number of writes; the failing run is judged against the working
one by the clauses of the theorem:
  inbound side equal after EVERY event (handler log, in-flight tables, shutdown, exit, closed, alive,
  quiescent), out = first k frames, non-internal reports identical, and - blocking writer with a
  quiet / raising hook - one additional report per failed write."""
import core
import sched


def B(k, o, n=0, early=False, r="prop"):
    b = {"k": k, "o": o, "r": r}
    if k == "async":
        b["n"] = n
    if k == "thread":
        b["early"] = early
    return b


def scenario(rng):
    ids = [0, 1, 2, "a", "", 7]
    rng.shuffle(ids)
    msgs, used, tag = [], [], 0
    for _ in range(rng.randint(2, 5)):
        x = rng.random()
        if x < 0.6 and ids:
            i = ids.pop()
            used.append(i)
            k = rng.choice(["sync", "async", "thread"])
            o = rng.choice([["ret", 5], ["ret", 0], ["raise"], ["rpc", -32001], ["unser"]])
            m = ["user", B(k, o, n=rng.choice([0, 1, 2]), early=rng.random() < 0.2, r=rng.choice(["prop", "swallow"]))]
            if rng.random() < 0.15:
                m = ["unknown", 1]
            msgs.append(["recv", {"t": "req", "id": i, "ver": True, "ps": rng.choice(["ok"] * 5 + ["bad"]), "m": m}])
        elif x < 0.8:
            tag += 1
            k = rng.choice(["sync", "async", "thread"])
            msgs.append(["recv", {"t": "notif", "tag": tag, "ver": True, "ps": "ok",
                                  "m": ["user", B(k, rng.choice([["ret", 1], ["raise"]]), n=1)]}])
        elif x < 0.9 and used:
            tag += 1
            msgs.append(["recv", {"t": "notif", "tag": 100 + tag, "ver": True, "ps": "ok", "m": ["cancel", rng.choice(used)]}])
        else:
            msgs.append(["recv", {"t": "garbage", "v": rng.randint(0, 7)}])
    if rng.random() < 0.3:
        msgs.insert(rng.randint(0, len(msgs)), ["send", "o1"])
    if rng.random() < 0.4 and ids:
        msgs.append(["recv", {"t": "req", "id": ids.pop(), "ver": True, "ps": "ok", "m": ["shutdown", None]}])
    # saturating schedule: some internal events between arrivals, then rounds of everything
    internal = [["task", t] for t in range(5)] + [["cb", t] for t in range(5)] + \
               [["jstart", j] for j in range(5)] + [["jfin", j] for j in range(5)] + [["write"], ["write"]]
    evs = []
    for m in msgs:
        evs.append(m)
        for _ in range(rng.randint(0, 3)):
            evs.append(rng.choice(internal))
    for _ in range(4):
        evs.extend(internal)
    return evs


INBOUND = ("hlog", "futs", "rtypes", "shutdown", "exit", "closed", "alive", "quiescent")


def check(chk):
    rng = chk.rng
    viol, n = [], 0
    for a in range(chk.n(24, 200)):
        evs = scenario(rng)
        writer = "blocking" if a % 3 else "awaitable"
        hook = ["quiet", "raises", "default"][a % 3] if writer == "blocking" else ["quiet", "default"][a % 2]
        cfg = {"writer": writer, "hook": hook, "wfail": None}
        base = sched.run_case({"cfg": cfg, "evs": evs})
        n += 1
        if "anomalies" in base:
            viol.append({"case": {"k": "failing-writer-endpoint", "cfg": cfg, "evs": evs}, "impl": base["anomalies"],
                         "S": "no anomaly", "verdict": "violation"})
            continue
        out = [f for o in base["obs"] for f in o["out"]]
        errs = [e for o in base["obs"] for e in o["errs"]]
        ks = list(range(0, len(out) + 1))
        if len(ks) > 5:
            ks = [0, 1] + rng.sample(ks[2:-1], 2) + [ks[-1]]
        for k in ks:
            n += 1
            ck = dict(cfg, wfail=k)
            r = sched.run_case({"cfg": ck, "evs": evs})
            why = None
            if "anomalies" in r:
                why = "anomalies"
            else:
                for j, (x, y) in enumerate(zip(r["obs"], base["obs"])):
                    if any(core.canon(x[f]) != core.canon(y[f]) for f in INBOUND):
                        why = "inbound side differs after event %d" % j
                        break
                outk = [f for o in r["obs"] for f in o["out"]]
                errk = [e for o in r["obs"] for e in o["errs"]]
                if why is None and core.canon(outk) != core.canon(out[:k]):
                    why = "out is not the first k frames"
                if why is None and [e for e in errk if e != "internal"] != [e for e in errs if e != "internal"]:
                    why = "non-internal reports differ"
                if why is None and writer == "blocking" and hook != "default":
                    if len(errk) != len(errs) + max(0, len(out) - k):
                        why = "not one extra report per failed write"
            if why:
                viol.append({"case": {"k": "failing-writer-endpoint", "cfg": ck, "evs": evs}, "impl": why,
                             "S": "failing_writer_core", "verdict": "violation"})
    return viol[:3], n
