"""C16 growth census (observed only): does anything pygls owns grow with the number of requests served?

Run as a script in a FRESH interpreter (default warning filters, no -W): one process serves, on real
endpoints driven by harness/sched.py, the same all-answered history shape at length n and at length 2n
(after a warm-up that is repeated until the census stops changing: lazily initialised entries, bounded
caches filling up) and compares a CENSUS of everything pygls owns that is not per-connection:

  * for every module in sys.modules whose name starts with `pygls`: the element counts of the containers
    reachable from the module's globals and from the attributes of the classes it defines, to depth 2
    (dict / list / set / frozenset / deque / weak collections: len; functools caches: cache_info().currsize;
    `__warningregistry__` is a module global like any other);
  * the same for the instance attributes of the run's server, protocol and feature manager (and of the
    pygls objects they hold).

Output (JSON on stdout): per history class of the quantifier ({sync, async, thread} x {return, raise,
cancelled} incoming; outgoing x {result, error, duplicate}) the census entries that differ between the
n-run and the 2n-run, by dotted path; whether the warm-up reached a fixed point; the warning filters in
force.  Nothing here is specific to a module or an attribute name.
"""
import collections
import inspect
import json
import sys
import warnings
import weakref

_FILTERS = list(warnings.filters)              # the interpreter's own defaults, before any harness import
import sched                                   # noqa: E402  (sets simplefilter("ignore") for its own noise)
warnings.filters[:] = _FILTERS                 # back to the real defaults: pygls is judged under them
if hasattr(warnings, "_filters_mutated"):
    warnings._filters_mutated()

CONTAINERS = (dict, list, set, frozenset, collections.deque, weakref.WeakValueDictionary,
              weakref.WeakKeyDictionary, weakref.WeakSet)
DEPTH = 2


def _size(v):
    if hasattr(v, "cache_info") and callable(getattr(v, "cache_info")):
        try:
            return int(v.cache_info().currsize)
        except Exception:      # noqa
            return None
    if isinstance(v, CONTAINERS):
        try:
            return len(v)
        except Exception:      # noqa
            return None
    return None


def _is_pygls_obj(v):
    m = getattr(type(v), "__module__", "") or ""
    return m.startswith("pygls") and not inspect.isclass(v) and not inspect.ismodule(v) and not callable(v)


def _walk(path, v, depth, out, seen):
    if id(v) in seen:
        return
    n = _size(v)
    if n is not None:
        out[path] = n
    if depth <= 0:
        return
    seen.add(id(v))
    if isinstance(v, dict):
        items = list(v.items())[:64]
        for k, x in items:
            if isinstance(x, CONTAINERS) or _is_pygls_obj(x) or hasattr(x, "cache_info"):
                _walk("%s[%s]" % (path, type(k).__name__ if not isinstance(k, str) else repr(k)[:40]), x, depth - 1, out, seen)
    elif isinstance(v, (list, tuple, collections.deque)):
        for a, x in enumerate(list(v)[:16]):
            if isinstance(x, CONTAINERS) or _is_pygls_obj(x):
                _walk("%s[%d]" % (path, a), x, depth - 1, out, seen)
    elif _is_pygls_obj(v):
        try:
            attrs = dict(vars(v))
        except TypeError:
            attrs = {}
        for k, x in attrs.items():
            if isinstance(x, CONTAINERS) or _is_pygls_obj(x) or hasattr(x, "cache_info"):
                _walk("%s.%s" % (path, k), x, depth - 1, out, seen)


def census(server):
    out = {}
    for name, mod in sorted(sys.modules.items()):
        if not name.startswith("pygls") or mod is None:
            continue
        seen = set()
        for g, v in list(vars(mod).items()):
            if inspect.ismodule(v):
                continue
            if inspect.isclass(v):
                if getattr(v, "__module__", None) != name:
                    continue
                for a, x in list(vars(v).items()):
                    if isinstance(x, CONTAINERS) or hasattr(x, "cache_info"):
                        _walk("%s.%s.%s" % (name, g, a), x, DEPTH, out, seen)
                continue
            if isinstance(v, CONTAINERS) or hasattr(v, "cache_info") or _is_pygls_obj(v):
                _walk("%s.%s" % (name, g), v, DEPTH, out, seen)
    if server is not None:
        seen = set()
        _walk("<server>", server, DEPTH + 1, out, seen)
        _walk("<protocol>", server.protocol, DEPTH + 1, out, seen)
        _walk("<feature manager>", server.protocol.fm, DEPTH + 1, out, seen)
    return out


# ------------------------------------------------------------------ history classes
def B(k, o, n=0, r="prop"):
    b = {"k": k, "o": o, "r": r}
    if k == "async":
        b["n"] = n
    if k == "thread":
        b["early"] = False
    return b


def req(i, b):
    return ["recv", {"t": "req", "id": i, "ver": True, "ps": "ok", "m": ["user", b], "np": False}]


def can(i):
    return ["recv", {"t": "notif", "tag": 1, "ver": True, "ps": "ok", "m": ["cancel", i]}]


def resp(i, err):
    return ["recv", {"t": "resp", "id": i, "ver": True, "err": err, "ps": "ok"}]


CLASSES = ["sync/return", "sync/raise", "async/return", "async/raise", "async/cancelled", "thread/return",
           "thread/raise", "thread/cancelled", "outgoing/result", "outgoing/error", "outgoing/duplicate-result",
           "outgoing/duplicate-error", "unknown-method", "undecodable-params"]


def block(cls, k, t, j):
    """Events of the k-th request of a class (ids are fresh per request, as a peer's are); returns the events
    and how many tasks / jobs they create."""
    i = k if k % 2 else "id-%d" % k
    kind, _, what = cls.partition("/")
    if cls == "unknown-method":
        return [["recv", {"t": "req", "id": i, "ver": True, "ps": "ok", "m": ["unknown", 0], "mn": k, "np": False}]], 0, 0
    if cls == "undecodable-params":
        return [["recv", {"t": "req", "id": i, "ver": True, "ps": "bad", "m": ["unknown", 0], "np": False}]], 0, 0
    if kind == "sync":
        return [req(i, B("sync", ["ret", k] if what == "return" else ["raise"]))], 0, 0
    if kind == "async":
        if what == "cancelled":
            return [req(i, B("async", ["ret", k], n=1)), ["task", t], can(i), ["task", t], ["cb", t]], 1, 0
        return [req(i, B("async", ["ret", k] if what == "return" else ["raise"], n=1)), ["task", t], ["task", t], ["cb", t]], 1, 0
    if kind == "thread":
        if what == "cancelled":
            return [req(i, B("thread", ["ret", k])), can(i), ["jstart", j]], 0, 1
        return [req(i, B("thread", ["ret", k] if what == "return" else ["raise"])), ["jstart", j], ["jfin", j]], 0, 1
    oid = "out-%d" % k if k % 2 else 10 ** 6 + k
    if what == "result":
        return [["send", oid], resp(oid, False)], 0, 0
    if what == "error":
        return [["send", oid], resp(oid, True)], 0, 0
    if what == "duplicate-result":
        return [["send", oid], resp(oid, False), resp(oid, False)], 0, 0
    return [["send", oid], resp(oid, True), resp(oid, True)], 0, 0


def serve(classes, n, hook="quiet", base=0):
    """One endpoint serves n requests of each class in turn; returns the census at the end (everything
    answered: both tables are required to be empty as well)."""
    s = sched.Sched({"writer": "blocking", "hook": hook, "wfail": None}, {}, "protected", reg="ls")
    try:
        t = j = 0
        for k in range(n):
            for cls in classes:
                evs, dt, dj = block(cls, base + k, t, j)
                for e in evs:
                    s.do(e)
                t, j = t + dt, j + dj
        tables = len(s.table_futs()) + len(s.table_rtypes())
        return census(s.server), tables
    finally:
        s.close()


def diff(a, b):
    return {k: [a.get(k), b.get(k)] for k in sorted(set(a) | set(b)) if a.get(k) != b.get(k)}


def main():
    n = int(sys.argv[1]) if len(sys.argv) > 1 else 50
    out = {"n": n, "warnoptions": list(sys.warnoptions),
           "filters": [[f[0], getattr(f[2], "__name__", str(f[2]))] for f in warnings.filters][:12]}
    # warm-up to a fixed point: every class once on a fresh endpoint, again and again (bounded caches fill up
    # - the default-sized lru_cache keyed by (protocol, method) takes one row per endpoint, 128 of them -,
    # lazily created entries appear) until the census of three consecutive runs is the same
    prev, same, runs = None, 0, 0
    while runs < 400 and same < 3:
        c, _ = serve(CLASSES, 1, base=10 ** 4 + runs * 10)
        same = same + 1 if c == prev else 0
        prev = c
        runs += 1
    out["warmup_runs"] = runs
    out["warmup_stable"] = same >= 3
    if not out["warmup_stable"]:
        c2, _ = serve(CLASSES, 2, base=10 ** 5)
        out["warmup_growing"] = diff(prev, c2)
    res = {}
    for a, cls in enumerate(CLASSES):
        hook = "default" if a % 2 else "quiet"
        c1, t1 = serve([cls], n, hook, base=0)
        c2, t2 = serve([cls], 2 * n, hook, base=10 ** 3)
        res[cls] = {"grown": diff(c1, c2), "tables": [t1, t2], "census_entries": len(c1)}
    out["classes"] = res
    print(json.dumps(out))


if __name__ == "__main__":
    main()
