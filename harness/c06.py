"""C06 - a bad message is contained and does not disturb its neighbours.

Three layers, all against the REAL pygls of $VERIF_REPO:

 1. scheduler cases (harness/sched.py): a schedule that contains marked (bad / contained) frames is
    run event by event through the real `run_async`; the extracted model (bin/c06_driver, Model/Endpoint.v
    + Spec/ContainSpec.v) gives the observation after every event (impl = M), the report each event
    owes the error hook (clause iii) and the ERASED schedule - the same schedule without the marked
    frames and without the steps that belong to them.  The erased schedule is run through the real
    endpoint too, and after every event the two real runs must agree on everything that does not
    belong to the marked messages (clause ii: core_of B (with) = obs (without)); the loop must be
    alive in both.  The `error_handler` handed to `run_async` is NOT chosen by the harness: it is
    captured from the real call site (the async entry point of `JsonRPCServer.start_io` run against in-memory streams with
    `pygls.server.run_async` replaced by a recorder), so a call site that passes the bare
    `report_server_error` shows up as a dead loop under a raising hook.
 2. whole-stream cases: the same vocabulary restricted to synchronous handlers, as ONE byte stream
    through `io_.run` (BytesIO / pipe) and through `run_async` + `StdinAsyncReader` over a pipe, with
    the handler captured from the two private entry points of start_io (located by harness/priv.py).
 3. extra_checks: the seven call sites (captured handler called with a raising hook), and end-to-end
    runs - real `start_tcp`, real `start_io` over pipes, real `JsonRPCClient.start_io` against a scripted
    subprocess - with a raising hook, judged directly: every neighbour answered, loop ends normally.
"""
import asyncio
import copy
import io
import json
import logging
import os
import socket
import subprocess
import sys
import threading
import time
import types

import core
import priv
import sched

logging.disable(logging.CRITICAL)

ESRC = ["request", "notification", "jsonrpc", "internal"]


def B(k, o, n=0, early=False, r="prop"):
    b = {"k": k, "o": o, "r": r}
    if k == "async":
        b["n"] = n
    if k == "thread":
        b["early"] = early
    return b


# ------------------------------------------------------------------ what a failing handler raises
class _BadStr(Exception):
    def __str__(self):
        raise RuntimeError("__str__ failed")

    __repr__ = __str__


def _noted():
    e = ValueError("with notes")
    if hasattr(e, "add_note"):
        e.add_note("first note")
        e.add_note("second\nnote")
    return e


def _group():
    try:
        return ExceptionGroup("several", [ValueError("a"), OSError(5, "b")])       # noqa: F821 (3.11+)
    except NameError:
        return RuntimeError("no ExceptionGroup")


def _bare_assert():
    try:
        assert False
    except AssertionError as e:
        return e


def _stop_async():
    return StopAsyncIteration()


# the model has ONE constructor for "the handler raises" (ORaise): containment must not depend on the
# class, the arguments or the text of the exception.  Every entry is an Exception (BaseExceptions that are
# not Exceptions - SystemExit, KeyboardInterrupt, asyncio.CancelledError - propagate by design: EXC_EXCLUDED)
EXC = {
    "runtime-msg": lambda: RuntimeError("scripted failure"),
    "no-args": lambda: RuntimeError(),
    "bare-assert": _bare_assert,
    "several-args": lambda: ValueError("a", 2, None),
    "int-arg": lambda: Exception(5),
    "dict-arg": lambda: Exception({"k": [1, 2]}),
    "bytes-arg": lambda: Exception(b"\xff\x00"),
    "non-ascii": lambda: RuntimeError("d\u00e9faut \U0001F60B\nsecond line\r\n\ttab \x00"),
    "broken-pipe": lambda: BrokenPipeError(32, "Broken pipe"),
    "conn-reset": lambda: ConnectionResetError("reset"),
    "conn-refused": lambda: ConnectionRefusedError(),
    "conn-aborted": lambda: ConnectionAbortedError("aborted"),
    "oserror": lambda: OSError(5, "Input/output error"),
    "timeout": lambda: TimeoutError("timed out"),
    "keyerror": lambda: KeyError("x"),
    "indexerror": lambda: IndexError(),
    "attributeerror": lambda: AttributeError("'NoneType' object has no attribute 'x'"),
    "typeerror": lambda: TypeError("bad type"),
    "valueerror": lambda: ValueError(""),
    "stop-iteration": lambda: StopIteration(3),
    "stop-async-iteration": _stop_async,
    "str-raises": lambda: _BadStr("x"),
    "notes": _noted,
    "group": _group,
    "incomplete-read": lambda: asyncio.IncompleteReadError(b"ab", 5),
    "unicode-error": lambda: UnicodeDecodeError("utf-8", b"\xff", 0, 1, "invalid start byte"),
    "recursion": lambda: RecursionError("maximum recursion depth exceeded"),
    "memory": lambda: MemoryError(),
    "pygls-error": lambda: __import__("pygls.exceptions", fromlist=["x"]).PyglsError("pygls"),
}
EXC_NAMES = sorted(EXC)
# JSON-RPC errors a handler raises on purpose keep their own code (the model's ORaiseRpc code)
RPC_EXC = {
    -32001: lambda ex: ex.JsonRpcException("scripted rpc failure", -32001),
    -32602: lambda ex: ex.JsonRpcInvalidParams("bad params"),
    -32601: lambda ex: ex.JsonRpcMethodNotFound.of("x/y"),
    -32603: lambda ex: ex.JsonRpcInternalError(),
    -32800: lambda ex: ex.JsonRpcRequestCancelled("cancelled by the handler"),
    -32803: lambda ex: ex.JsonRpcRequestFailed("failed") if hasattr(ex, "JsonRpcRequestFailed") else ex.JsonRpcException("f", -32803),
}
EXC_EXCLUDED = ["SystemExit", "KeyboardInterrupt", "asyncio.CancelledError", "GeneratorExit"]


def raise_outcome(b):
    """What a scripted handler does at its end (replaces sched.Sched._outcome: same vocabulary plus the
    optional key "x": which exception an ["raise"] outcome raises)."""
    o = b["o"]
    if o[0] == "ret":
        return o[1]
    if o[0] == "unser":
        return object()
    if o[0] == "raise":
        raise EXC[b.get("x", "runtime-msg")]()
    import pygls.exceptions as ex
    mk = RPC_EXC.get(o[1])
    raise (mk(ex) if mk else ex.JsonRpcException("scripted rpc failure", o[1]))


# ------------------------------------------------------------------ the handler the call sites pass
class _Captured(Exception):
    pass


def capture_server_handler(server, site="io_async", include_headers=True):
    """Run the real call site with the read loop replaced by a recorder; returns the object the
    call site passes as `error_handler`.  The call site replaces the writer, the stop event and (start_io)
    creates and closes a pool: writer (with `include_headers` as the caller had set it - the flag itself
    cannot be read back through the public API), stop event and an absent pool are put back."""
    import pygls.server as ps
    box = {}
    proto = server.protocol
    saved_writer, saved_stop, saved_pool = proto.writer, priv.stop_event(server), priv.thread_pool_slot(server)
    start_async, start_sync = priv.start_io_async(server), priv.start_io_sync(server)

    async def rec_async(*a, **kw):
        box["h"] = kw.get("error_handler", a[4] if len(a) > 4 else None)

    def rec_sync(*a, **kw):
        box["h"] = kw.get("error_handler", a[4] if len(a) > 4 else None)

    orig = (ps.run_async, ps.run, ps.run_websocket)
    try:
        asyncio.get_event_loop_policy()
        if site == "io_async":
            ps.run_async = rec_async
            start_async(io.BytesIO(b""), io.BytesIO())
        elif site == "io_sync":
            ps.run = rec_sync
            try:
                start_sync(io.BytesIO(b""), io.BytesIO())
            except ValueError:
                pass                      # asyncio.run(None): the sync loop has already returned
        elif site == "tcp":
            ps.run_async = rec_async
            o_start = asyncio.start_server

            class _W:
                def close(self):
                    pass

            async def fake_start_server(cb, h, p, **kw):
                await cb(asyncio.StreamReader(), _W())
                raise asyncio.CancelledError()
            asyncio.start_server = fake_start_server
            try:
                server.start_tcp("127.0.0.1", 0)
            finally:
                asyncio.start_server = o_start
        elif site == "ws":
            ps.run_websocket = rec_async
            with _FakeWebsockets() as fw:
                async def serve(cb, h, p, **kw):
                    await cb(object())
                    raise asyncio.CancelledError()
                fw.server.serve = serve
                server.start_ws("127.0.0.1", 0)
        else:
            raise ValueError(site)
    finally:
        ps.run_async, ps.run, ps.run_websocket = orig
        proto.set_writer(saved_writer, include_headers=include_headers)
        priv.set_stop_event(server, saved_stop)
        if saved_pool is None:
            priv.set_thread_pool(server, None)   # the call site's shutdown() closed the pool it had created: start afresh
        try:
            asyncio.set_event_loop(None)
        except Exception:
            pass
    if "h" not in box:
        raise sched.HarnessError("call site %s did not reach the read loop" % site)
    return box["h"]


class _FakeWebsockets:
    """`websockets` is not installed: a stand-in package so that start_ws reaches its call of
    run_websocket (which is replaced by a recorder anyway)."""
    NAMES = ["websockets", "websockets.asyncio", "websockets.asyncio.server", "websockets.asyncio.client",
             "websockets.exceptions"]

    def __enter__(self):
        self.saved = {n: sys.modules.get(n) for n in self.NAMES}
        mods = {n: types.ModuleType(n) for n in self.NAMES}
        mods["websockets"].asyncio = mods["websockets.asyncio"]
        mods["websockets.asyncio"].server = mods["websockets.asyncio.server"]
        mods["websockets.asyncio"].client = mods["websockets.asyncio.client"]
        mods["websockets.exceptions"].ConnectionClosed = type("ConnectionClosed", (Exception,), {})
        mods["websockets"].exceptions = mods["websockets.exceptions"]
        sys.modules.update(mods)
        self.server, self.client = mods["websockets.asyncio.server"], mods["websockets.asyncio.client"]
        return self

    def __exit__(self, *a):
        for n, m in self.saved.items():
            if m is None:
                sys.modules.pop(n, None)
            else:
                sys.modules[n] = m


def capture_client_handler(client, site="io"):
    import pygls.client as pc
    box = {}

    async def rec_async(*a, **kw):
        box["h"] = kw.get("error_handler", a[4] if len(a) > 4 else None)

    class _Proc:
        stdout, stdin, stderr = object(), object(), object()
        pid, returncode = 0, 0

        async def wait(self):
            return 0

    orig = (pc.run_async, pc.run_websocket)
    o_exec, o_conn = asyncio.create_subprocess_exec, asyncio.open_connection
    loop = asyncio.new_event_loop()
    try:
        pc.run_async = pc.run_websocket = rec_async

        async def fake_exec(*a, **kw):
            return _Proc()

        async def fake_conn(*a, **kw):
            return object(), object()
        asyncio.create_subprocess_exec, asyncio.open_connection = fake_exec, fake_conn

        async def go():
            if site == "io":
                await client.start_io("x")
            elif site == "tcp":
                await client.start_tcp("h", 1)
            else:
                with _FakeWebsockets() as fw:
                    async def connect(uri, **kw):
                        return object()
                    fw.client.connect = connect
                    await client.start_ws("h", 1)
            await asyncio.gather(*priv.async_tasks(client))
        loop.run_until_complete(go())
    finally:
        pc.run_async, pc.run_websocket = orig
        asyncio.create_subprocess_exec, asyncio.open_connection = o_exec, o_conn
        loop.close()
    if "h" not in box:
        raise sched.HarnessError("client call site %s did not reach the read loop" % site)
    return box["h"]


class Sched6(sched.Sched):
    """sched.Sched whose read loop gets the error handler of the real call site."""
    def __init__(self, cfg, chained=None):
        import pygls.io_ as pio
        real = pio.run_async

        def with_site_handler(stop_event, reader, protocol, logger=None, error_handler=None):
            h = capture_server_handler(self.server, "io_async")
            priv.set_stop_event(self.server, stop_event)  # as in start_io: the loop runs on the server's stop event
            return real(stop_event, reader, protocol, logger, h)
        pio.run_async = with_site_handler
        try:
            super().__init__(cfg, chained, "protected")
        finally:
            pio.run_async = real

    @staticmethod
    def _outcome(b):
        return raise_outcome(b)


def run_sched(case):
    s = Sched6(case["cfg"], sched.chained_of(case))
    obs = []
    try:
        s.observe()
        for e in case["evs"]:
            s.do(e)
            obs.append(s.observe())
        r = {"obs": obs}
        if s.anomalies:
            r["anomalies"] = s.anomalies
        return r
    finally:
        s.close()


# ------------------------------------------------------------------ whole-stream runs (run / StdinAsyncReader)
def stream_wire(f, idx):
    """Body bytes of a frame for the whole-stream runs: as sched.wire, but a user handler finds its
    scripted behaviour through params (there is no per-frame context in a free-running loop)."""
    body = sched.wire(f)
    if f["t"] in ("req", "notif") and f.get("ps") == "ok" and f["m"][0] == "user":
        o = json.loads(body)
        o["params"] = {"k": idx}
        body = json.dumps(o).encode()
    return body


def run_stream(case):
    """All events are arrivals of frames with synchronous handlers: one byte stream through a real loop.
    loop = sync   : io_.run, handler of the sync entry point of JsonRPCServer.start_io
           pool   : io_.run_async + StdinAsyncReader over a pipe, handler of the async entry point
           client : io_.run_async + StreamReader on a JsonRPCClient, handler of JsonRPCClient.start_io"""
    from pygls.lsp.server import LanguageServer
    from pygls.client import JsonRPCClient
    import pygls.io_ as pio
    loopkind = case["loop"]
    cfg = case["cfg"]
    frames = [e[1] for e in case["evs"]]
    errs, hlog, writes = [], [], []
    depth = [0]

    def hook(sup, error, source):
        depth[0] += 1
        try:
            if depth[0] == 1:
                errs.append(sched.SRC.get(getattr(source, "__name__", ""), str(source)))
            if cfg["hook"] == "default":
                return sup(error, source)
            if cfg["hook"] == "raises":
                raise RuntimeError("scripted hook failure")
        finally:
            depth[0] -= 1

    if loopkind == "client":
        class Client(JsonRPCClient):
            def report_server_error(self, error, source):
                return hook(super().report_server_error, error, source)
        srv = Client()
    else:
        class Server(LanguageServer):
            def report_server_error(self, error, source):
                return hook(super().report_server_error, error, source)
        srv = Server("c06", "1")

    outcome = raise_outcome

    @srv.feature("t/sync")
    def h(params):
        k = params["k"] if isinstance(params, dict) else params.k
        f = frames[k]
        who = ["req", f["id"]] if f["t"] == "req" else ["not", f["tag"]]
        hlog.append([who, "user", "start", "loop"])
        hlog.append([who, "user", "end", "loop"])
        return outcome(f["m"][1])

    class W:
        def write(self, data):
            writes.append(bytes(data))

        def close(self):
            pass
    data = b"".join(b"Content-Length: %d\r\n\r\n" % len(b) + b
                    for b in (stream_wire(f, i) for i, f in enumerate(frames)))
    stop = threading.Event()
    priv.set_stop_event(srv, stop)      # as in start_io: the loop runs on the endpoint's own stop event
    term = "normal"
    if loopkind == "sync":
        handler = capture_server_handler(srv, "io_sync")
        srv.protocol.set_writer(W())
        priv.set_stop_event(srv, stop)
        try:
            if case.get("rd") == "pipe":
                r, w = os.pipe()
                t = threading.Thread(target=_pipe_write, args=(w, data), daemon=True)
                t.start()
                rd = os.fdopen(r, "rb")
                try:
                    pio.run(stop, rd, srv.protocol, error_handler=handler)
                finally:
                    rd.close()
                    t.join(10)
            else:
                pio.run(stop, io.BytesIO(data), srv.protocol, error_handler=handler)
        except Exception as e:        # noqa
            term = "raise:" + type(e).__name__
    elif loopkind == "client":
        handler = capture_client_handler(srv, "io")      # (the stand-in server process "exits": the client sets its stop event)
        srv.protocol.set_writer(W())
        stop = threading.Event()
        priv.set_stop_event(srv, stop)
        loop = asyncio.new_event_loop()
        try:
            reader = asyncio.StreamReader(loop=loop)
            reader.feed_data(data)
            reader.feed_eof()
            try:
                loop.run_until_complete(asyncio.wait_for(
                    pio.run_async(stop, reader, srv.protocol, error_handler=handler), 30))
            except Exception as e:    # noqa
                term = "raise:" + type(e).__name__
        finally:
            loop.close()
    else:
        handler = capture_server_handler(srv, "io_async")
        srv.protocol.set_writer(W())
        priv.set_stop_event(srv, stop)
        from concurrent.futures import ThreadPoolExecutor
        pool = ThreadPoolExecutor(max_workers=1)
        r, w = os.pipe()
        t = threading.Thread(target=_pipe_write, args=(w, data), daemon=True)
        t.start()
        rd = os.fdopen(r, "rb")
        loop = asyncio.new_event_loop()
        try:
            reader = pio.StdinAsyncReader(rd, pool)
            try:
                loop.run_until_complete(asyncio.wait_for(
                    pio.run_async(stop, reader, srv.protocol, error_handler=handler), 30))
            except Exception as e:    # noqa
                term = "raise:" + type(e).__name__
        finally:
            loop.close()
            rd.close()
            t.join(10)
            pool.shutdown(wait=False)
    return {"out": [sched.decode_frame(d) for d in writes], "hlog": hlog, "errs": errs,
            "futs": list(priv.request_futures(srv.protocol).keys()),
            "rtypes": list(priv.result_types(srv.protocol).keys()),
            "shutdown": priv.shutdown_flag(srv.protocol), "term": term}


def _pipe_write(w, data):
    try:
        mv = memoryview(data)
        while mv:
            n = os.write(w, mv[:4096])
            mv = mv[n:]
    except OSError:
        pass
    finally:
        try:
            os.close(w)
        except OSError:
            pass


@priv.in_worker
def _run_one(case):
    try:
        raises = case["cfg"]["hook"] == "raises"
        quiet = dict(case["cfg"], hook="quiet")
        if case.get("loop", "sched") == "sched":
            a = run_sched({"cfg": case["cfg"], "evs": case["evs"]})
            b = run_sched({"cfg": case["cfg"], "evs": case["erased"]})
            r = {"with": a, "without": b}
            if raises:      # clause (iv), judged on two real runs: a hook that raises is a hook that does nothing
                r["quiet"] = run_sched({"cfg": quiet, "evs": case["evs"]})
            return r
        a = run_stream(case)
        b = run_stream(dict(case, evs=case["erased"]))
        r = {"with": a, "without": b}
        if raises:
            r["quiet"] = run_stream(dict(case, cfg=quiet))
        return r
    except priv.Unresolvable:       # a failure of the harness, not an observation of pygls
        raise
    except BaseException as ex:     # noqa
        return ["raise", type(ex).__name__, str(ex)[:300]]


# ------------------------------------------------------------------ model side
def enc_who(w):
    return [0] + sched.enc_id(w[1]) if w[0] == "req" else [1, w[1]]


def encode_c06(case):
    toks = sched.enc_cfg(case["cfg"]) + [len(case["bad"])]
    for w in case["bad"]:
        toks += enc_who(w)
    toks.append(len(case["evs"]))
    for m, e in zip(case["marks"], case["evs"]):
        toks += [1 if m else 0] + sched.enc_ev(e)
    return "c06 " + " ".join(map(str, toks))


def _dec_obs(c):
    o = {"out": c.list(lambda: sched._dec_oframe(c)), "hlog": c.list(lambda: sched._dec_hentry(c)),
         "errs": c.list(lambda: ESRC[c.int()]),
         "futs": c.list(c.id), "rtypes": c.list(c.id), "shutdown": bool(c.int())}
    x = c.int()
    o["exit"] = None if x < 0 else x
    o["closed"], o["storm"], undef = bool(c.int()), bool(c.int()), bool(c.int())
    o["quiescent"] = bool(c.int())
    o["alive"] = o["exit"] is None
    o["hlog"] = [h for h in o["hlog"] if h[1] != "builtin"]
    return o, undef


def parse_c06(case, toks):
    c = sched._Cur(toks)
    obs, owed, erased, counts, undef = [], [], [], [], False
    for e in case["evs"]:
        o, u = _dec_obs(c)
        undef = undef or u
        obs.append(o)
        x = c.int()
        owed.append(None if x < 0 else ESRC[x])
        k = c.int()
        counts.append(k)
        if k:
            d = sched.dec_ev(c)
            erased.append(e if d[0] in ("recv", "send", "write", "exitcb") else d)
    m = c.int()
    obs2 = []
    for _ in range(m):
        o, u = _dec_obs(c)
        obs2.append(o)
    wf, cfg_ok, vresp = bool(c.int()), bool(c.int()), bool(c.int())
    return {"obs": obs, "owed": owed, "erased": erased, "counts": counts, "obs2": obs2, "wf": wf,
            "cfg_ok": cfg_ok, "undef": undef, "vresp": vresp}


def model(cases):
    outs = core.run_driver("C06", [encode_c06(c) for c in cases])
    return [parse_c06(c, o) for c, o in zip(cases, outs)]


def query(cmd, cases):
    if not cases:
        return []
    outs = core.run_driver("C06", [sched.encode_case(c, cmd) for c in cases])
    return [sched.parse_evs(o) for o in outs]


# ------------------------------------------------------------------ observation algebra (Python side of core_of / obs)
def cumulate(obs):
    """Per-event deltas -> cumulative logs after every event."""
    out, hlog, errs, res = [], [], [], []
    for o in obs:
        out = out + o["out"]
        hlog = hlog + o["hlog"]
        errs = errs + o["errs"]
        res.append({"out": out, "hlog": hlog, "errs": errs, "futs": o["futs"], "rtypes": o["rtypes"],
                    "shutdown": o["shutdown"], "exit": o["exit"], "closed": o["closed"], "alive": o["alive"]})
    return res


EMPTY = {"out": [], "hlog": [], "errs": [], "futs": [], "rtypes": [], "shutdown": False, "exit": None,
         "closed": False, "alive": True}


def core_view(cum, bad):
    """What is observed when everything that belongs to the `bad` messages is ignored."""
    badk = {core.canon(w) for w in bad}

    def own_id(i):
        return core.canon(["req", i]) in badk
    out = [f for f in cum["out"] if not (f[0] == "notif" and f[1] == "showMessage")
           and not (f[0] == "resp" and own_id(f[1]))]
    hlog = [h for h in cum["hlog"] if core.canon(h[0]) not in badk]
    futs = [i for i in cum["futs"] if not own_id(i)]
    return {"out": out, "hlog": hlog, "futs": futs, "rtypes": cum["rtypes"], "shutdown": cum["shutdown"],
            "exit": cum["exit"], "closed": cum["closed"], "alive": cum["alive"]}


def aligned_views(obs_with, obs_without, counts, bad):
    """[(core of the run with the marked frames, obs of the erased run)] after every event."""
    cw, co = cumulate(obs_with), cumulate(obs_without)
    res, n = [], 0
    for k, c in enumerate(counts):
        n += c
        a = core_view(cw[k], bad)
        b = core_view(co[n - 1] if n else EMPTY, [])
        res.append((a, b))
    return res


# ------------------------------------------------------------------ catalogue
def catalogue(rid, tag, unknown_ids=("zz", 901)):
    """(name, frame, who it owns or None): every member of the `bad` catalogue of the statement."""
    req = lambda **kw: dict({"t": "req", "id": rid, "ver": True, "ps": "ok", "m": ["user", B("sync", ["ret", 1])]}, **kw)
    nt = lambda **kw: dict({"t": "notif", "tag": tag, "ver": True, "ps": "ok", "m": ["user", B("sync", ["ret", 1])]}, **kw)
    rw, nw = ["req", rid], ["not", tag]
    cat = []
    names = ["not-json", "array", "scalar", "empty-object", "no-jsonrpc-member", "jsonrpc-only", "bad-utf8", "null"]
    for v, n in enumerate(names):
        cat.append(("garbage/" + n, {"t": "garbage", "v": v}, None))
    cat.append(("version/req", req(ver=False), rw))
    cat.append(("version/notif", nt(ver=False), nw))
    cat.append(("version/resp", {"t": "resp", "id": unknown_ids[0], "ver": False, "err": True, "ps": "ok"}, None))
    cat.append(("params/req-bad", req(ps="bad", m=["unknown", 0]), rw))
    cat.append(("params/req-bad-missing", req(ps="bad", m=["unknown", 0], np=True), rw))
    cat.append(("params/req-fail", req(ps="fail", m=["unknown", 0]), rw))
    cat.append(("params/notif-bad", nt(ps="bad", m=["unknown"]), nw))
    cat.append(("params/notif-fail", nt(ps="fail", m=["unknown"]), nw))
    cat.append(("resp/unknown-result", {"t": "resp", "id": unknown_ids[1], "ver": True, "err": False, "ps": "ok"}, None))
    cat.append(("resp/unknown-error", {"t": "resp", "id": unknown_ids[0], "ver": True, "err": True, "ps": "ok"}, None))
    cat.append(("resp/unknown-error-bad", {"t": "resp", "id": unknown_ids[1], "ver": True, "err": True, "ps": "bad"}, None))
    for o in (["raise"], ["rpc", -32001]):
        on = o[0]
        for k, kw in (("sync", {}), ("async0", {"n": 0}), ("async2", {"n": 2}), ("thread", {}), ("thread-early", {"early": True})):
            kind = k.rstrip("02").split("-")[0]
            cat.append(("raise/notif-%s-%s" % (k, on), nt(m=["user", B(kind, o, **kw)]), nw))
            cat.append(("raise/req-%s-%s" % (k, on), req(m=["user", B(kind, o, **kw)]), rw))
    cat.append(("raise/req-unknown-method", req(m=["unknown", 1]), rw))
    cat.append(("raise/req-unknown-command", req(m=["command", None, None]), rw))
    cat.append(("raise/req-command-sync", req(m=["command", B("sync", ["raise"]), None]), rw))
    cat.append(("raise/req-command-async", req(m=["command", B("async", ["raise"], n=1), None]), rw))
    cat.append(("raise/notif-builtin", nt(m=["builtin", True, None]), nw))
    # user handlers registered ON BUILT-IN methods (call_user_feature): the built-in runs first, then the
    # user feature through _execute_notification; its failure must not touch the built-in's reply
    for k, kw in (("sync", {}), ("async", {"n": 1}), ("thread", {}), ("thread-early", {"early": True})):
        kind = k.split("-")[0]
        for o in (["raise"], ["rpc", -32001]):
            ub = B(kind, o, **kw)
            cat.append(("chained/req-initialize-%s-%s" % (k, o[0]), req(m=["builtin", False, ub]), rw))
            cat.append(("chained/req-command-%s-%s" % (k, o[0]), req(m=["command", B("sync", ["ret", 3]), ub]), rw))
            cat.append(("chained/notif-initialized-%s-%s" % (k, o[0]), nt(m=["builtin", False, ub]), nw))
    cat.append(("chained/req-command-async-under-async", req(m=["command", B("async", ["ret", 3], n=1), B("async", ["raise"], n=0)]), rw))
    cat.append(("chained/notif-failing-builtin", nt(m=["builtin", True, B("sync", ["raise"])]), nw))
    return cat


def normalise_chained(items):
    """A user feature registered under a built-in's name exists for the whole case: every frame of
    that method carries a chained behaviour of the SAME kind (the first one seen); outcomes stay per
    frame (frames that had none get a returning one)."""
    has_init = any(e[0] == "recv" and e[1]["t"] == "req" and (e[1].get("m") or [""])[0] == "builtin" for _m, e in items)
    slot = {"shutdown": 1, "exit": 1, "builtin": 2, "command": 2}
    kinds = {}
    frames = []
    for _m, e in items:
        if e[0] != "recv":
            continue
        f = e[1]
        if has_init and f["t"] == "notif" and f.get("ps") == "ok" and f["m"][0] == "builtin" and f["m"][1]:
            # textDocument/didClose of a never-opened document only fails while no `initialize` has created the workspace
            f["m"] = ["user", B("sync", ["raise"])]
        if f["t"] in ("req", "notif") and f.get("ps", "ok") == "ok" and f["m"][0] in slot:
            frames.append(f)
            u = f["m"][slot[f["m"][0]]]
            if u:
                kinds.setdefault(sched.frame_method(f), (u["k"], u.get("n", 0), u.get("early", False)))
    for f in frames:
        name = sched.frame_method(f)
        if name not in kinds:
            continue
        k = kinds[name]
        u = f["m"][slot[f["m"][0]]] or {"o": ["ret", 1], "r": "prop"}
        u = dict(u, k=k[0])
        u.pop("n", None)
        u.pop("early", None)
        if k[0] == "async":
            u["n"] = k[1]
        if k[0] == "thread":
            u["early"] = k[2]
        f["m"][slot[f["m"][0]]] = u
    return items


SYNC_ONLY = lambda f: all(b["k"] == "sync" for b in C06._behavs(["recv", f]))


# ------------------------------------------------------------------ end-to-end runs (extra_checks)
def _fr(body):
    return b"Content-Length: %d\r\n\r\n" % len(body) + body


def _j(o):
    return json.dumps(o).encode()


E2E_BAD = [
    ("not-json", b"not json", "JsonRpcException"),
    ("bad-utf8", b'"\xff\xfe"', "JsonRpcException"),
    ("truncated", b'{"jsonrpc": "2.0", "id": 5, "meth', "JsonRpcException"),
    ("array", b"[1, 2]", "JsonRpcException"),
    ("null", b"null", "JsonRpcException"),
    ("no-jsonrpc", b'{"id": 1, "method": "t/echo"}', "JsonRpcException"),
    ("version", _j({"jsonrpc": "1.0", "id": 70, "method": "t/echo", "params": {"x": 70}}), "JsonRpcException"),
    ("unknown-resp", _j({"jsonrpc": "2.0", "id": "zz", "error": {"code": -32001, "message": "m"}}), "JsonRpcException"),
    ("unknown-result", _j({"jsonrpc": "2.0", "id": "zy", "result": 1}), "JsonRpcException"),
    ("bad-params", _j({"jsonrpc": "2.0", "id": 77, "method": "textDocument/hover", "params": {"bad": 1}}), "JsonRpcException"),
    ("raising-notif", _j({"jsonrpc": "2.0", "method": "t/boom", "params": {"x": 0}}), "FeatureNotificationError"),
    ("raising-async-notif", _j({"jsonrpc": "2.0", "method": "t/aboom", "params": {"x": 0}}), "FeatureNotificationError"),
    ("raising-request", _j({"jsonrpc": "2.0", "id": 78, "method": "t/boom", "params": {"x": 0}}), "FeatureRequestError"),
    ("raising-request-no-args", _j({"jsonrpc": "2.0", "id": 79, "method": "t/boom", "params": {"x": "no-args"}}), "FeatureRequestError"),
    ("raising-request-broken-pipe", _j({"jsonrpc": "2.0", "id": 80, "method": "t/boom", "params": {"x": "broken-pipe"}}), "FeatureRequestError"),
    ("raising-async-notif-conn-refused", _j({"jsonrpc": "2.0", "method": "t/aboom", "params": {"x": "conn-refused"}}), "FeatureNotificationError"),
    ("raising-notif-conn-reset", _j({"jsonrpc": "2.0", "method": "t/boom", "params": {"x": "conn-reset"}}), "FeatureNotificationError"),
]


def e2e_stream():
    data, want = _fr(_j({"jsonrpc": "2.0", "id": 100, "method": "t/echo", "params": {"x": 100}})), [100]
    for k, (_, body, _src) in enumerate(E2E_BAD):
        data += _fr(body)
        data += _fr(_j({"jsonrpc": "2.0", "id": 101 + k, "method": "t/echo", "params": {"x": 101 + k}}))
        want.append(101 + k)
    return data, want


def _read_frames(f, got, done, want):
    """Reader thread: collect result replies {id: result} until every wanted id has been seen."""
    try:
        while True:
            n = None
            while True:
                line = f.readline()
                if not line:
                    return
                if line in (b"\r\n", b"\n"):
                    break
                if line.lower().startswith(b"content-length:"):
                    n = int(line.split(b":", 1)[1])
            body = f.read(n) if n else b""
            try:
                o = json.loads(body)
            except ValueError:
                continue
            if isinstance(o, dict) and "id" in o and "method" not in o:
                got[core.canon(o["id"])] = o.get("result", ["error", (o.get("error") or {}).get("code")])
            if all(core.canon(i) in got for i in want):
                done.set()
    except Exception:       # noqa
        pass


def e2e_server(transport, hook):
    """Real start_io / start_tcp in a subprocess; returns what the neighbours got and what the hook saw."""
    script = os.path.join(core.ROOT, "harness", "servers", "c06_server.py")
    env = dict(os.environ, PYTHONPATH=core.REPO, PYTHONHASHSEED="0")
    data, want = e2e_stream()
    got, done = {}, threading.Event()
    if transport == "stdio":
        p = subprocess.Popen([core.PY, script, "stdio", hook], stdin=subprocess.PIPE, stdout=subprocess.PIPE,
                             stderr=subprocess.PIPE, env=env)
        t = threading.Thread(target=_read_frames, args=(p.stdout, got, done, want), daemon=True)
        t.start()
        p.stdin.write(data)
        p.stdin.flush()
        done.wait(20)
        p.stdin.close()
        try:
            p.wait(10)
            ended = "exit:%d" % p.returncode
        except subprocess.TimeoutExpired:
            p.kill()
            ended = "hang"
        err = p.stderr.read().decode(errors="replace")
    else:
        with socket.socket() as s0:
            s0.bind(("127.0.0.1", 0))
            port = s0.getsockname()[1]
        p = subprocess.Popen([core.PY, script, "tcp", str(port), hook], stdin=subprocess.DEVNULL,
                             stdout=subprocess.DEVNULL, stderr=subprocess.PIPE, env=env)
        sock = None
        for _ in range(100):
            try:
                sock = socket.create_connection(("127.0.0.1", port), timeout=1)
                break
            except OSError:
                time.sleep(0.05)
        ended = "no-connection"
        if sock is not None:
            sock.settimeout(20)
            f = sock.makefile("rb")
            t = threading.Thread(target=_read_frames, args=(f, got, done, want), daemon=True)
            t.start()
            sock.sendall(data)
            done.wait(20)
            ended = "alive" if p.poll() is None else "exit:%d" % p.returncode
            try:
                sock.shutdown(socket.SHUT_RDWR)
            except OSError:
                pass
            sock.close()
        try:
            p.wait(3)
        except subprocess.TimeoutExpired:
            p.terminate()
            try:
                p.wait(5)
            except subprocess.TimeoutExpired:
                p.kill()
        err = p.stderr.read().decode(errors="replace")
    lines = err.split("\n")
    return {"answered": {core.canon(i): got.get(core.canon(i)) for i in want},
            "hook": sorted(l[2:] for l in lines if l.startswith("E ")),
            "handled": [l[2:] for l in lines if l.startswith("H ")],
            "ended": ended, "start_returned": any(l.startswith("RETURNED") for l in lines),
            "start_raised": [l for l in lines if l.startswith("RAISED")]}


def e2e_expect(transport):
    data, want = e2e_stream()
    return {"answered": {core.canon(i): i for i in want}, "hook": sorted(src for _, _, src in E2E_BAD),
            "handled": [str(i) for i in want], "ended": "exit:0" if transport == "stdio" else "alive"}


def e2e_client(hook):
    """Real JsonRPCClient.start_io against a scripted peer process."""
    from pygls.client import JsonRPCClient
    notes, calls = [], []

    class Client(JsonRPCClient):
        def report_server_error(self, error, source):
            calls.append(getattr(source, "__name__", str(source)))
            if hook == "raises":
                raise RuntimeError("scripted hook failure")

    client = Client()

    @client.feature("t/note")
    def note(params):
        notes.append(params["x"] if isinstance(params, dict) else params.x)

    bad = [b"not json", b"[1, 2]", _j({"jsonrpc": "1.0", "method": "t/note", "params": {"x": 99}}),
           _j({"jsonrpc": "2.0", "id": "zz", "error": {"code": 1, "message": "m"}}), b'"\xff\xfe"']
    data = b""
    for k, b in enumerate(bad):
        data += _fr(b) + _fr(_j({"jsonrpc": "2.0", "method": "t/note", "params": {"x": k}}))
    peer = os.path.join(core.ROOT, "harness", "servers", "c06_peer.py")
    res = {"stop": "returned"}

    async def go():
        await client.start_io(core.PY, peer, data.hex())
        for _ in range(200):
            if len(notes) >= len(bad) or any(t.done() for t in priv.async_tasks(client)[:1]):
                break
            await asyncio.sleep(0.02)
        res["reader_alive"] = not priv.async_tasks(client)[0].done()
        proc = priv.process(client)
        try:
            proc.stdin.close()
        except Exception:       # noqa
            pass
        try:
            await asyncio.wait_for(client.stop(), 15)
        except Exception as e:  # noqa
            res["stop"] = "raise:" + type(e).__name__
    loop = asyncio.new_event_loop()
    try:
        loop.run_until_complete(go())
    finally:
        try:
            proc = priv.process(client)
            if proc is not None and proc.returncode is None:
                proc.kill()
        except Exception:       # noqa
            pass
        loop.close()
    res.update({"notes": notes, "hook": len(calls)})
    return res, {"notes": list(range(len(bad))), "hook": len(bad), "stop": "returned", "reader_alive": True}


LSP_EXC = ["no-args", "broken-pipe", "runtime-msg", "conn-refused", "keyerror", "str-raises", "bare-assert", "group", "oserror"]


def lsp_session(kind, hook):
    """A real LanguageServer session in which user handlers registered ON the built-in methods all raise
    (`kind`: sync / async / thread): replies, workspace text and hook calls."""
    from pygls.lsp.server import LanguageServer
    import pygls.io_ as pio
    calls = []

    class Server(LanguageServer):
        def report_server_error(self, error, source):
            calls.append(getattr(source, "__name__", str(source)))
            if hook == "raises":
                raise RuntimeError("scripted hook failure")

    srv = Server("c06-lsp", "1")
    names = ["initialize", "initialized", "textDocument/didOpen", "textDocument/didChange", "textDocument/didClose",
             "$/setTrace", "workspace/executeCommand", "shutdown", "workspace/didChangeWorkspaceFolders"]
    ran = []
    for name in names:
        if kind == "async":
            async def h(*a, _n=name):
                ran.append(_n)
                raise EXC[LSP_EXC[names.index(_n) % len(LSP_EXC)]]()
        else:
            def h(*a, _n=name):
                ran.append(_n)
                raise EXC[LSP_EXC[names.index(_n) % len(LSP_EXC)]]()
            if kind == "thread":
                h = srv.thread()(h)
        srv.feature(name)(h)

    @srv.command("c.ok")
    def cmd(*a):
        return 41

    @srv.feature("t/echo")
    def echo(params):
        return params["x"] if isinstance(params, dict) else params.x
    writes = []

    class W:
        def write(self, data):
            writes.append(bytes(data))

        def close(self):
            pass
    uri = "file:///c06.txt"
    msgs = [
        {"id": 1, "method": "initialize", "params": {"capabilities": {}, "processId": None, "rootUri": None}},
        {"method": "initialized", "params": {}},
        {"method": "textDocument/didOpen", "params": {"textDocument": {"uri": uri, "languageId": "t", "version": 1, "text": "one\n"}}},
        {"id": 2, "method": "t/echo", "params": {"x": 2}},
        {"method": "textDocument/didChange", "params": {"textDocument": {"uri": uri, "version": 2}, "contentChanges": [{"text": "two\n"}]}},
        {"method": "$/setTrace", "params": {"value": "verbose"}},
        {"id": 3, "method": "workspace/executeCommand", "params": {"command": "c.ok", "arguments": []}},
        {"id": 4, "method": "t/echo", "params": {"x": 4}},
        {"id": 5, "method": "shutdown"},
    ]
    data = b"".join(_fr(_j(dict(m, jsonrpc="2.0"))) for m in msgs)
    handler = capture_server_handler(srv, "io_async")
    srv.protocol.set_writer(W())
    stop = threading.Event()
    priv.set_stop_event(srv, stop)
    loop = asyncio.new_event_loop()
    term = "normal"
    try:
        reader = asyncio.StreamReader(loop=loop)
        reader.feed_data(data)
        reader.feed_eof()

        async def go():
            await pio.run_async(stop, reader, srv.protocol, error_handler=handler)
            for _ in range(100):        # let handler tasks / pool jobs and their callbacks finish
                await asyncio.sleep(0.005)
                if len(ran) >= 7 and not [t for t in asyncio.all_tasks() if t is not asyncio.current_task()]:
                    break
        try:
            loop.run_until_complete(asyncio.wait_for(go(), 20))
        except Exception as e:      # noqa
            term = "raise:" + type(e).__name__
    finally:
        try:
            if priv.thread_pool_slot(srv):
                priv.thread_pool_slot(srv).shutdown(wait=True)
        except Exception:           # noqa
            pass
        loop.close()
    doc = srv.workspace.text_documents.get(uri)
    replies = sorted((core.canon(f) for f in (sched.decode_frame(d) for d in writes) if f[0] == "resp"))
    return {"term": term, "replies": replies, "text": None if doc is None else doc.source,
            "version": None if doc is None else doc.version, "shutdown": priv.shutdown_flag(srv.protocol),
            "user_handlers_run": sorted(ran), "hook_calls": sorted(calls)}


def hook_call_sites():
    """Static sweep of the pygls tree: every textual use of report_server_error, classified (evidence only,
    not judged; the name of the protecting wrapper is the one harness/priv.py resolved)."""
    import re
    wrapper = priv.name_of("server.error_handler")      # `_report_server_error` at the pinned commit
    w = re.escape(wrapper)
    root = os.path.join(core.REPO, "pygls")
    res = {"protected_calls": [], "handler_arguments": [], "definitions": [], "inside_protecting_wrapper": [], "UNPROTECTED_calls": []}
    for d, _, fs in os.walk(root):
        for fn in sorted(fs):
            if not fn.endswith(".py"):
                continue
            p = os.path.join(d, fn)
            lines = open(p, encoding="utf-8").read().split("\n")
            cur = None
            for n, line in enumerate(lines, 1):
                m = re.match(r"\s*(?:async\s+)?def\s+(\w+)", line)
                if m:
                    cur = m.group(1)
                if ("report_server_error" not in line and wrapper not in line) or line.strip().startswith("#"):
                    continue
                where = "%s:%d" % (os.path.relpath(p, core.REPO), n)
                if re.search(r"def\s+(?:%s|report_server_error)\b" % w, line):
                    res["definitions"].append(where)
                elif re.search(r"(?:\.|\b)%s\(" % w, line):
                    res["protected_calls"].append(where)
                elif re.search(r"error_handler\s*=\s*self\.%s\b" % w, line):
                    res["handler_arguments"].append(where)
                elif cur == wrapper:
                    res["inside_protecting_wrapper"].append(where)
                elif re.search(r"report_server_error\(", line) or re.search(r"=\s*\S*report_server_error\b", line):
                    res["UNPROTECTED_calls"].append(where)
    return res


def odd_exception_probe():
    """Evidence only (not judged): what the unchanged code does when a handler raises a BaseException that
    is not an Exception, and the F32 class.  alive / own reply / reports, good neighbour answered?"""
    saved = dict(EXC)
    hook = threading.excepthook
    threading.excepthook = lambda a: None
    res = {}
    try:
        EXC["cancelled-error"] = lambda: asyncio.CancelledError()
        EXC["generator-exit"] = lambda: GeneratorExit()
        EXC["system-exit"] = lambda: SystemExit(3)
        g = lambda i: ["recv", {"t": "req", "id": i, "ver": True, "ps": "ok", "m": ["user", B("sync", ["ret", i])]}]
        probes = [(x, k, "req") for x in ("cancelled-error", "generator-exit", "system-exit") for k in ("sync", "async", "thread")]
        for x, k, t in probes:
            bad = ["recv", {"t": "req", "id": 1000, "ver": True, "ps": "ok", "m": ["user", dict(B(k, ["raise"], n=0), x=x)]}]
            evs = [g(1), bad, ["task", 0], ["cb", 0], ["jstart", 0], ["jfin", 0], g(2)]
            try:
                r = run_sched({"cfg": {"writer": "blocking", "hook": "quiet", "wfail": None}, "evs": evs})
                out = [f for o in r["obs"] for f in o["out"]]
                res["%s/%s-request" % (x, k)] = {
                    "loop_alive": r["obs"][-1]["alive"], "exit": r["obs"][-1]["exit"],
                    "own_reply": [f[2:] for f in out if f[0] == "resp" and f[1] == 1000],
                    "neighbour_2_answered": any(f[0] == "resp" and f[1] == 2 for f in out),
                    "reports": [e for o in r["obs"] for e in o["errs"]]}
            except BaseException as e:      # noqa
                res["%s/%s-request" % (x, k)] = "harness: " + type(e).__name__
        bad = ["recv", {"t": "notif", "tag": 500, "ver": True, "ps": "ok", "m": ["user", B("sync", ["rpc", -32601])]}]
        r = run_sched({"cfg": {"writer": "blocking", "hook": "quiet", "wfail": None}, "evs": [g(1), bad, g(2)]})
        res["F32 JsonRpcMethodNotFound raised by a sync notification handler"] = {
            "reports": [e for o in r["obs"] for e in o["errs"]], "loop_alive": r["obs"][-1]["alive"]}
    finally:
        EXC.clear()
        EXC.update(saved)
        threading.excepthook = hook
    return res


def site_table():
    """Behaviour of the handler each call site passes, with a hook that raises: 1 = its call returns."""
    from pygls.lsp.server import LanguageServer
    from pygls.client import JsonRPCClient
    from pygls.exceptions import JsonRpcException

    class S(LanguageServer):
        def report_server_error(self, error, source):
            raise RuntimeError("scripted hook failure")

    class C(JsonRPCClient):
        def report_server_error(self, error, source):
            raise RuntimeError("scripted hook failure")
    res = []
    for kind, site in (("s", "io_async"), ("s", "io_sync"), ("s", "tcp"), ("s", "ws"), ("c", "io"), ("c", "tcp"), ("c", "ws")):
        try:
            h = capture_server_handler(S("x", "1"), site) if kind == "s" else capture_client_handler(C(), site)
        except priv.Unresolvable:       # a failure of the harness, not a property of the call site
            raise
        except BaseException as e:      # noqa
            res.append("capture-failed:" + type(e).__name__)
            continue
        try:
            h(ValueError("x"), JsonRpcException)
            res.append(1)
        except Exception:               # noqa
            res.append(0)
    return res


F30 = "F30-other-version-response-to-outstanding-id"
GOOD_IDS = [0, 1, 2, 2 ** 53, "", "0", "a", 7]
BAD_RIDS = [1000, "b1", 1001, "b2"]
OUT_IDS = ["o1", 900]


def _near_pairs():
    """(explicit id of our outstanding request, id of the stray response): near-misses under every plausible
    normalisation of an id (JSON-RPC ids are typed and compared exactly). 1 vs 1.0 / True are excluded (equal
    as dict keys in Python: listed candidate)."""
    base = [1, 0, 7, 10, 900, 2 ** 53, "1", "0", "01", "007", "a", "A", "ab", "Req-1", "o1", ""]
    norm = [
        ("int->str", lambda i: str(i) if isinstance(i, int) else None),
        ("str->int", lambda i: int(i) if isinstance(i, str) and i.isdigit() and str(int(i)) == i else None),
        ("str->int-lenient", lambda i: int(i) if isinstance(i, str) and i.isdigit() and str(int(i)) != i else None),
        ("int->padded", lambda i: "0" + str(i) if isinstance(i, int) else None),
        ("strip-zeros", lambda i: str(int(i)) if isinstance(i, str) and i.isdigit() and str(int(i)) != i else None),
        ("upper", lambda i: i.upper() if isinstance(i, str) and i.upper() != i else None),
        ("lower", lambda i: i.lower() if isinstance(i, str) and i.lower() != i else None),
        ("swapcase", lambda i: i.swapcase() if isinstance(i, str) and i.swapcase() != i else None),
        ("space-before", lambda i: " " + i if isinstance(i, str) else None),
        ("space-after", lambda i: i + " " if isinstance(i, str) else None),
        ("space-around", lambda i: " " + str(i) + " "),
        ("tab-newline", lambda i: "\t" + i + "\n" if isinstance(i, str) else None),
        ("empty<->0", lambda i: 0 if i == "" else "" if isinstance(i, int) and i == 0 else None),
    ]
    pairs, seen = [], set()
    for i in base:
        for n, fn in norm:
            j = fn(i)
            if j is None or (type(j), j) == (type(i), i):
                continue
            # both directions: the stray id is the normal form of the pending one, and the reverse
            for a, b in ((i, j), (j, i)):
                k = (type(a).__name__, a, type(b).__name__, b)
                if k not in seen:
                    seen.add(k)
                    pairs.append((n, a, b))
    return pairs


NEAR_PAIRS = _near_pairs()


class C06(core.Property):
    id = "C06"
    modules = ["Proofs.C06Lists", "Proofs.C06Sim", "Proofs.C06Sim2", "Proofs.C06Sim3", "Proofs.C06Sim4",
               "Proofs.C06Sim5", "Proofs.C06Proofs", "Props.C06"]
    obligations = ["body_consumed_whatever", "Fr.neighbours_unchanged_framing", "Fr.framing_in_sync",
                   "R_init", "R_core", "hook_l", "send_response_l", "send_response_b", "cancel_ref_l", "cancel_ref_b",
                   "lsp_shutdown_b", "handle_request_l", "handle_request_b", "recv_l", "recv_b",
                   "bad_step_core", "step_core_congruence", "step_sim", "run_sim", "noninterference",
                   "neighbours_unchanged", "alive_unchanged", "recv_report", "loop_cb_report", "job_finish_report",
                   "one_report_each", "owed_sound", "ext_step", "hook_raise_contained", "sites_protected",
                   "stream_contained", "C06_stream", "C06", "C06_partial", "C06_refuted_version_response", "C06_refuted",
                   "contained_full_split", "catalogue_reports", "C06_nonvacuous",
                   "C06_nonvacuous_duplicate", "C06_outside_awaitable_default", "C06_outside_header_limit",
                   "C06_pinned_bare_handler", "C06_unknown_notification"]
    coq_targets = ["Props/C06.vo", "Extract/ExtractC06.vo"]
    rule = ("a case is a schedule of good messages (sync / async / thread requests and notifications, cancels, an "
            "outgoing request and its response, shutdown) with 1-3 marked frames of the bad catalogue at chosen "
            "positions, under a model-guided random interleaving ended by a drain; it is run with and without the "
            "marked frames through the real run_async (handler captured from the real call site); whole-stream "
            "variants go through run and StdinAsyncReader; non-trivial = a marked frame strictly between two good "
            "arrivals or while a good request is in flight")
    trusted_base = ["Coq 8.16.1 kernel incl. vm_compute (Examples)",
                    "extraction with ExtrOcamlBasic only + ocaml/c06_driver.ml + conv_io/n/z/nat",
                    "harness/sched.py (scheduler) and harness/c06.py (generators, call-site capture, observation algebra)",
                    "modelled not verified: asyncio task semantics, concurrent.futures.Future, json / cattrs as the "
                    "oracle POk/PBad/PFail, which bytes make a body garbage",
                    priv.trusted(sched.PRIVATE + ["server.stop_event", "server.start_io_sync", "server.start_io_async", "client.stop_event", "client.async_tasks", "client.process", "client.error_handler"])]
    private = sched.PRIVATE + ["server.stop_event", "server.start_io_sync", "server.start_io_async", "client.stop_event", "client.async_tasks", "client.process", "client.error_handler"]
    assumptions = ["ids of marked requests are not used by outgoing requests or unmarked frames (wf)",
                   "a working transport (c_wfail = None) and not (awaitable writer with the default hook) for clause (ii)",
                   "header lines within the reader's limit and Content-Length within int()'s digit limit (C02_outside_limit)"]

    @staticmethod
    def _behavs(ev):
        if ev[0] != "recv":
            return []
        m = ev[1].get("m") or []
        return [x for x in m[1:] if isinstance(x, dict)]

    # ---------------------------------------------------------------- scenarios
    def _gbehav(self, rng, sync_only=False):
        k = "sync" if sync_only else rng.choice(["sync", "async", "async", "thread", "thread"])
        o = rng.choice([["ret", rng.choice([0, 1, 7, -3])]] * 5 + [["raise"], ["rpc", -32001]] + ([] if sync_only else [["unser"]]))
        return B(k, o, n=rng.choice([0, 1, 1, 2]), early=rng.random() < 0.2, r=rng.choice(["prop", "prop", "swallow"]))

    @staticmethod
    def vary(rng, f):
        """Give every raising behaviour of a frame an exception shape / a JSON-RPC error class."""
        for b in C06._behavs(["recv", f]):
            if b["o"][0] == "raise":
                b["x"] = rng.choice(EXC_NAMES)
            elif b["o"][0] == "rpc":
                codes = sorted(RPC_EXC)
                if f["t"] == "notif" and b["k"] == "sync":
                    # finding candidate F32: _handle_notification takes a JsonRpcMethodNotFound raised BY the
                    # handler for "unknown method" (logged, not reported): kept out of the judged dimension,
                    # probed and recorded in the evidence (base_and_odd_exception_probe)
                    codes.remove(-32601)
                b["o"] = ["rpc", rng.choice(codes)]
        return f

    def _ubehav(self, rng):
        """The user feature registered under a built-in's name (None: none): mostly raising."""
        if rng.random() < 0.4:
            return None
        k = rng.choice(["sync", "sync", "async", "thread"])
        return B(k, rng.choice([["raise"], ["raise"], ["rpc", -32001], ["ret", 1]]), n=rng.choice([0, 1]),
                 early=rng.random() < 0.3)

    def _good(self, rng, nmsg, sync_only=False, allow_shutdown=True):
        ids = list(GOOD_IDS)
        rng.shuffle(ids)
        msgs, used, tag = [], [], 0
        for _ in range(nmsg):
            x = rng.random()
            if x < 0.5 and ids:
                i = ids.pop()
                used.append(i)
                y = rng.random()
                if y < 0.65:
                    m = ["user", self._gbehav(rng, sync_only)]
                elif y < 0.75 or sync_only:
                    m = ["unknown", rng.choice([0, 1])]
                elif y < 0.9:
                    m = ["command", self._gbehav(rng), self._ubehav(rng)]
                else:
                    m = ["builtin", False, self._ubehav(rng)]
                msgs.append(["recv", {"t": "req", "id": i, "ver": True, "ps": "ok", "m": m}])
            elif x < 0.8:
                tag += 1
                y = rng.random()
                m = ["user", self._gbehav(rng, sync_only)] if y < 0.7 else ["unknown"] if y < 0.85 or sync_only else ["builtin", False, self._ubehav(rng)]
                msgs.append(["recv", {"t": "notif", "tag": tag, "ver": True, "ps": "ok", "m": m}])
            elif x < 0.9 and used:
                tag += 1
                msgs.append(["recv", {"t": "notif", "tag": 100 + tag, "ver": True, "ps": "ok",
                                      "m": ["cancel", rng.choice(used)]}])
            elif not sync_only and not any(e[0] == "send" for e in msgs):
                oid = rng.choice(OUT_IDS)
                msgs.append(["send", oid])
                msgs.append(["recv", {"t": "resp", "id": oid, "ver": True, "err": rng.random() < 0.4, "ps": "ok"}])
            else:
                tag += 1
                msgs.append(["recv", {"t": "notif", "tag": tag, "ver": True, "ps": "ok", "m": ["unknown"]}])
        if allow_shutdown and rng.random() < 0.2 and ids:
            msgs.insert(rng.randint(max(0, len(msgs) - 2), len(msgs)),
                        ["recv", {"t": "req", "id": ids.pop(), "ver": True, "ps": "ok", "m": ["shutdown", None if sync_only else self._ubehav(rng)]}])
        for e in msgs:
            if e[0] == "recv":
                self.vary(rng, e[1])
        return msgs

    def _members(self, rng, k, sync_only=False):
        """k catalogue members with pairwise distinct names of their own."""
        res = []
        for j in range(k):
            cat = catalogue(BAD_RIDS[j], 500 + j, ("zz%d" % j, 901 + j))
            if sync_only:
                cat = [c for c in cat if SYNC_ONLY(c[1]) and c[1].get("m", [""])[0] != "command"
                       and c[1].get("m", [""])[0] != "builtin"]
            name, f, who = rng.choice(cat)
            res.append((name, self.vary(rng, copy.deepcopy(f)), who))
        return res

    def _place(self, good, members, positions):
        """Insert the members (marked) at the given positions of the good arrival list."""
        items = [(0, g) for g in good]
        for (name, f, who), p in sorted(zip(members, positions), key=lambda x: -x[1]):
            items.insert(p, (1, ["recv", f]))
        bad = [w for (_, _, w) in members if w]
        return normalise_chained(copy.deepcopy(items)), bad

    def _with_dup(self, rng, items):
        """A duplicate of the good response, marked, somewhere after it."""
        for a, (m, e) in enumerate(items):
            if e[0] == "recv" and e[1]["t"] == "resp" and not m:
                items.insert(rng.randint(a + 1, len(items)), (1, copy.deepcopy(e)))
                return True
        return False

    def _interleave(self, chk, scens, maxlen=70, drain=True):
        rng = chk.rng
        st = [{"cfg": cfg, "evs": [], "marks": [], "rest": normalise_chained(copy.deepcopy(list(items))), "bad": bad,
               "cat": cat, "done": False} for cfg, items, bad, cat in scens]
        for _ in range(maxlen):
            live = [s for s in st if not s["done"]]
            if not live:
                break
            en = query("enabled", live)
            for s, (evs, _q) in zip(live, en):
                x = rng.random()
                if s["rest"] and (not evs or x < 0.45):
                    m, e = s["rest"].pop(0)
                    s["evs"].append(e)
                    s["marks"].append(m)
                elif evs and x < 0.97:
                    s["evs"].append(rng.choice(evs))
                    s["marks"].append(0)
                elif evs or s["rest"]:
                    s["evs"].append(rng.choice([["task", rng.randint(0, 3)], ["cb", rng.randint(0, 3)],
                                                ["jstart", rng.randint(0, 2)], ["jfin", rng.randint(0, 2)],
                                                ["write"], ["exitcb"]]))
                    s["marks"].append(0)
                else:
                    s["done"] = True
        for s in st:
            for m, e in s["rest"]:
                s["evs"].append(e)
                s["marks"].append(m)
        cases = [{"loop": "sched", "cfg": s["cfg"], "evs": s["evs"], "marks": s["marks"], "bad": s["bad"], "cat": s["cat"]}
                 for s in st]
        if drain:
            dr = query("drain", cases)
            for c, (evs, _q) in zip(cases, dr):
                c["evs"] = c["evs"] + evs
                c["marks"] = c["marks"] + [0] * len(evs)
        return cases

    def _cfg(self, rng, k=None):
        hook = ["default", "quiet", "raises"][k % 3] if k is not None else rng.choice(["default", "quiet", "raises", "raises"])
        writer = "blocking" if (hook == "default" and rng.random() < 0.9) or rng.random() < 0.6 else "awaitable"
        return {"writer": writer, "hook": hook, "wfail": None}

    def finish(self, cases):
        """Ask the model for the erased schedule of every case."""
        for c, m in zip(cases, model(cases)):
            c["erased"] = m["erased"]
        return cases

    def corpus(self):
        cases = []
        cdir = os.path.join(core.ROOT, "corpus", self.id)
        if os.path.isdir(cdir):
            for f in sorted(os.listdir(cdir)):
                if f.endswith(".json"):
                    cases.extend(json.load(open(os.path.join(cdir, f))))
        return cases

    def gen_positions(self, chk):
        """Every catalogue member at every position of fixed good sequences, the three hooks."""
        rng = chk.rng
        scens = []
        ngood = chk.n(2, 8)
        for g in range(ngood):
            good = self._good(rng, rng.randint(2, 4), allow_shutdown=(g % 4 == 3))
            cat = catalogue(1000, 500)
            for ci, (name, f, who) in enumerate(cat):
                for p in range(len(good) + 1):
                    if chk.quick and (ci + p + g) % 3:
                        continue
                    items, bad = self._place(good, [(name, self.vary(rng, copy.deepcopy(f)), who)], [p])
                    scens.append((self._cfg(rng, ci + p + g), items, bad, [name]))
        return self._interleave(chk, scens)

    def gen_exceptions(self, chk):
        """Every exception shape x {sync, async, thread} x {request, notification} (thorough: x every
        raising catalogue member incl. the chained ones), between two good requests, three hooks."""
        rng = chk.rng
        scens = []
        g1 = ["recv", {"t": "req", "id": 1, "ver": True, "ps": "ok", "m": ["user", B("async", ["ret", 5], n=1)]}]
        g2 = ["recv", {"t": "req", "id": 2, "ver": True, "ps": "ok", "m": ["user", B("sync", ["ret", 6])]}]
        cat = [c for c in catalogue(1000, 500) if any(b["o"][0] == "raise" for b in self._behavs(["recv", c[1]]))]
        if chk.quick:
            cat = [c for c in cat if c[0] in ("raise/req-sync-raise", "raise/req-async2-raise", "raise/req-thread-raise",
                                              "raise/notif-sync-raise", "raise/notif-async0-raise", "raise/notif-thread-raise",
                                              "chained/req-initialize-sync-raise")]
        a = 0
        for x in EXC_NAMES:
            for name, f, who in cat:
                f = copy.deepcopy(f)
                for b in self._behavs(["recv", f]):
                    if b["o"][0] == "raise":
                        b["x"] = x
                items, bad = self._place([g1, g2], [(name, f, who)], [1])
                scens.append((self._cfg(rng, a), items, bad, [name, "exc/" + x]))
                a += 1
        for code in sorted(RPC_EXC):
            for kind in ("sync", "async", "thread"):
                f = {"t": "req", "id": 1000, "ver": True, "ps": "ok", "m": ["user", B(kind, ["rpc", code], n=1)]}
                items, bad = self._place([g1, g2], [("raise/req-%s-rpc" % kind, f, ["req", 1000])], [1])
                scens.append((self._cfg(rng, a), items, bad, ["raise/req-%s-rpc" % kind, "exc/rpc%d" % code]))
                a += 1
        return self._interleave(chk, scens)

    def gen_random(self, chk, n):
        rng = chk.rng
        scens = []
        for a in range(n):
            good = self._good(rng, rng.randint(2, 5))
            k = rng.choice([1, 1, 2, 2, 3])
            members = self._members(rng, k)
            items, bad = self._place(good, members, [rng.randint(0, len(good)) for _ in members])
            cat = [m[0] for m in members]
            if rng.random() < 0.15 and self._with_dup(rng, items):
                cat.append("resp/duplicate")
            scens.append((self._cfg(rng), items, bad, cat))
        return self._interleave(chk, scens)

    def gen_pairs(self, chk):
        """k = 2: all ordered pairs of catalogue members at all positions of short good sequences (thorough)."""
        rng = chk.rng
        scens = []
        good = self._good(rng, 3, allow_shutdown=False)
        c1, c2 = catalogue(1000, 500, ("zz0", 901)), catalogue("b2", 501, ("zz1", 902))
        for a, m1 in enumerate(c1):
            for b, m2 in enumerate(c2):
                p1, p2 = rng.randint(0, len(good)), rng.randint(0, len(good))
                items, bad = self._place(good, [m1, m2], [p1, p2])
                scens.append((self._cfg(rng, a + b), items, bad, [m1[0], m2[0]]))
        return self._interleave(chk, scens)

    def gen_finding(self, chk, n):
        """F30: a marked response of another JSON-RPC version that names the outstanding request."""
        rng = chk.rng
        scens = []
        for a in range(n):
            good = self._good(rng, rng.randint(1, 3), allow_shutdown=False)
            good = [g for g in good if g[0] != "send" and not (g[0] == "recv" and g[1]["t"] == "resp")]
            oid = rng.choice(OUT_IDS)
            items = [(0, g) for g in good]
            p = rng.randint(0, len(items))
            items[p:p] = [(0, ["send", oid]),
                          (1, ["recv", {"t": "resp", "id": oid, "ver": False, "err": rng.random() < 0.5, "ps": "ok"}]),
                          (0, ["recv", {"t": "resp", "id": oid, "ver": True, "err": rng.random() < 0.3, "ps": "ok"}])]
            scens.append(({"writer": "blocking", "hook": rng.choice(["quiet", "raises", "default"]), "wfail": None},
                          items, [], ["version/resp-known-id"]))
        return self._interleave(chk, scens)

    def gen_near_miss(self, chk):
        """A response to an id nobody asked about, next to an outstanding request of ours whose explicit id is a
        near-miss of it (NEAR_PAIRS): result- and error-shaped strays, before / after the request goes out and
        after its genuine answer; the genuine answer follows. S: each stray is reported once, the request is
        resolved by its genuine answer only (the erased run)."""
        rng = chk.rng
        scens = []
        pairs = list(NEAR_PAIRS)
        if chk.quick:
            # every normalisation at least three times, every pair of the int<->str families
            keep = [p for p in pairs if p[0] in ("int->str", "str->int", "empty<->0")]
            by = {}
            for p in pairs:
                by.setdefault(p[0], []).append(p)
            for n in sorted(by):
                keep += [p for p in rng.sample(by[n], min(4, len(by[n]))) if p not in keep]
            pairs = keep
        shapes = [("result", False, "ok"), ("error", True, "ok"), ("error-bad", True, "bad")]
        a = 0
        for n, oid, sid in pairs:
            for sh, (sname, serr, sps) in enumerate(shapes):
                if sname == "error-bad" and (a % 4):
                    a += 1
                    continue
                good = self._good(rng, rng.randint(1, 3), allow_shutdown=False)
                good = [g for g in good if g[0] != "send" and not (g[0] == "recv" and g[1]["t"] == "resp")]
                stray = lambda: (1, ["recv", {"t": "resp", "id": sid, "ver": True, "err": serr, "ps": sps}])
                other = lambda: (1, ["recv", {"t": "resp", "id": sid, "ver": True, "err": not serr, "ps": "ok"}])
                genuine = (0, ["recv", {"t": "resp", "id": oid, "ver": True, "err": (a % 5 == 0), "ps": "ok"}])
                mid = [(0, ["send", oid]), stray()]
                v = a % 6
                if v == 1:
                    mid = [stray()] + mid           # also before the request exists
                elif v == 2:
                    mid.append(other())             # both shapes while it is outstanding
                mid.append(genuine)
                if v == 3:
                    mid.append(stray())             # and once it has been answered
                items = [(0, g) for g in good]
                p = rng.randint(0, len(items))
                items[p:p] = mid
                tag = 700
                for q in (p, p + len(mid) + 1):     # a good neighbour on each side
                    tag += 1
                    items.insert(q, (0, ["recv", {"t": "notif", "tag": tag, "ver": True, "ps": "ok",
                                                  "m": ["user", B("sync", ["ret", 1])]}]))
                cat = ["resp/near-miss-" + sname, "near/" + n]
                scens.append((self._cfg(rng, a), items, [], cat))
                a += 1
        return self._interleave(chk, scens)

    def gen_streams(self, chk, n):
        rng = chk.rng
        cases = []
        for a in range(n):
            good = self._good(rng, rng.randint(2, 5), sync_only=True)
            good = [g for g in good if g[0] == "recv"]
            members = self._members(rng, rng.choice([1, 2, 3]), sync_only=True)
            items, bad = self._place(good, members, [rng.randint(0, len(good)) for _ in members])
            loop = ["sync", "pool", "client", "sync"][a % 4]
            hook = ["default", "quiet", "raises"][a % 3]
            if loop == "client":
                # the base client knows no LSP types (no params validation), no shutdown, and its default hook is silent
                hook = ["raises", "quiet"][(a // 4) % 2]
                keep = lambda e: e[1].get("ps", "ok") == "ok" and (e[1].get("m") or [""])[0] != "shutdown"
                items = [(m, e) for m, e in items if keep(e)]
                bad = [w for w in bad if any(m and core.canon(w) == core.canon(
                    ["req", e[1].get("id")] if e[1]["t"] == "req" else ["not", e[1].get("tag")]) for m, e in items)]
            c = {"loop": loop, "cfg": {"writer": "blocking", "hook": hook, "wfail": None},
                 "evs": [e for _, e in items], "marks": [m for m, _ in items], "bad": bad, "cat": [m[0] for m in members]}
            if loop == "sync" and a % 2:
                c["rd"] = "pipe"
            cases.append(c)
        return cases

    def generate(self, chk):
        cases = list(self.corpus())
        cases += self.gen_positions(chk)
        cases += self.gen_exceptions(chk)
        cases += self.gen_random(chk, chk.n(800, 12000))
        cases += self.gen_streams(chk, chk.n(200, 3000))
        cases += self.gen_finding(chk, chk.n(10, 100))
        cases += self.gen_near_miss(chk)
        if not chk.quick:
            cases += self.gen_pairs(chk)
        return self.finish(cases)

    # ---------------------------------------------------------------- implementation
    def run_impl(self, chk, cases):
        if len(cases) < 40:
            return priv.collect(_run_one(c) for c in cases)
        import multiprocessing as mp
        with mp.get_context("fork").Pool(4) as pool:
            return priv.collect(pool.map(_run_one, cases, chunksize=8))

    # ---------------------------------------------------------------- model
    def model_input(self, case):
        return encode_c06(case)

    @staticmethod
    def _agg(obs):
        cum = cumulate(obs)
        last = cum[-1] if cum else EMPTY
        return {"out": last["out"], "hlog": last["hlog"], "errs": last["errs"], "futs": last["futs"],
                "rtypes": last["rtypes"], "shutdown": last["shutdown"], "term": "normal"}

    def model_output(self, case, toks):
        m = parse_c06(case, toks)
        guard = m["wf"] and m["cfg_ok"] and not m["undef"]
        # C01's finding F18 (a pool thread answering through an awaitable writer): outside C06, compared but not judged
        f18 = case["cfg"]["writer"] == "awaitable" and any(
            e[0] == "recv" and e[1]["t"] == "req" and e[1].get("ps") == "ok" and
            any(isinstance(b, dict) and b["k"] == "thread" for b in (e[1]["m"][1:2] if e[1]["m"][0] in ("user", "command") else []))
            for e in case["evs"])
        if f18:
            guard = False
        owed = list(m["owed"])
        if case.get("loop", "sched") == "sched":
            M = {"with": {"obs": m["obs"]}, "without": {"obs": m["obs2"]}}
        else:
            M = {"with": self._agg(m["obs"]), "without": self._agg(m["obs2"])}
        if case["cfg"]["hook"] == "raises":
            M["quiet"] = M["with"]          # hook_raise_contained
        S = {"owed": owed, "counts": m["counts"], "erased": m["erased"]}
        if not guard and not f18 and m["vresp"] and m["cfg_ok"] and not m["undef"]:
            # outside the guard, inside the full statement: the recorded finding F30
            return {"M": M, "S": S, "guard": False, "klass": F30}
        return {"M": M, "S": S if guard else None, "guard": guard, "klass": None}

    @staticmethod
    def _no_show(x):
        """The hook's own window/showMessage output is not a property-level observable of C06 (the statement's
        `core` drops it: e.g. the default hook fails on an exception whose __str__ raises, and is contained)."""
        if isinstance(x, dict):
            return {k: ([f for f in v if not (isinstance(f, list) and f[:2] == ["notif", "showMessage"])] if k == "out"
                        else C06._no_show(v)) for k, v in x.items()}
        if isinstance(x, list):
            return [C06._no_show(v) for v in x]
        return x

    def same(self, case, impl, M):
        return core.canon(self._no_show(impl)) == core.canon(self._no_show(M))

    def satisfies(self, case, impl, S):
        """impl |= S, judged on the two REAL runs: (ii) after every event the run with the marked frames,
        ignoring what belongs to them, equals the run without them; the read loop is alive in both;
        (iii) every event that owes a report produced exactly that one call of the hook."""
        if not isinstance(impl, dict) or "with" not in impl:
            return False
        if core.canon(S["erased"]) != core.canon(case["erased"]):
            return False
        w, o = impl["with"], impl["without"]
        if case["cfg"]["hook"] == "raises" and core.canon(self._no_show(impl.get("quiet"))) != core.canon(self._no_show(w)):
            return False
        if case.get("loop", "sched") != "sched":
            a = core_view(dict(w, exit=None, closed=False, alive=w["term"] == "normal"), case["bad"])
            b = core_view(dict(o, exit=None, closed=False, alive=o["term"] == "normal"), [])
            if a != b or w["term"] != "normal":
                return False
            return w["errs"] == [x for x in S["owed"] if x is not None]
        if "anomalies" in w or "anomalies" in o:
            return False
        if len(w["obs"]) != len(case["evs"]) or len(o["obs"]) != len(case["erased"]):
            return False
        for a, b in aligned_views(w["obs"], o["obs"], S["counts"], case["bad"]):
            if a != b:
                return False
        for ob, x in zip(w["obs"], S["owed"]):
            if x is not None and ob["errs"] != [x]:
                return False
        return True

    def nontrivial(self, case):
        evs, marks = case["evs"], case["marks"]
        arr = [(m, e) for m, e in zip(marks, evs) if e[0] in ("recv", "send")]
        for a, (m, e) in enumerate(arr):
            if m and any(not x for x, _ in arr[:a]) and any(not x for x, _ in arr[a + 1:]):
                return True
        return False

    def shrink(self, case):
        evs, marks = case["evs"], case["marks"]
        n = len(evs)
        cands = []
        for k in (n // 2, n // 4):
            if 0 < k < n:
                cands.append((evs[:n - k], marks[:n - k]))
        for a in range(n - 1, -1, -1):
            cands.append((evs[:a] + evs[a + 1:], marks[:a] + marks[a + 1:]))
        for e, m in cands:
            c = dict(case, evs=e, marks=m)
            try:
                self.finish([c])
            except Exception:
                continue
            yield c

    def search(self, chk):
        cases = self.finish(self.gen_random(chk, 300) + self.gen_streams(chk, 60))
        res = core.evaluate(self, chk, cases)
        return [r for r in res if r["S"] is not None and not self.satisfies(r["case"], r["impl"], r["S"])
                and r["verdict"] != "known:" + F30][:1]

    def extra_checks(self, chk):
        viol = []
        cov = {}
        # the seven call sites against Model/Contain.v `passes`
        toks = core.run_driver("C06", ["sites"])[0]
        model_sites = [int(x) for x in toks[:7]]
        impl_sites = site_table()
        cov["call_sites"] = dict(zip(["server.start_io (async entry)", "server.start_io (sync entry)", "server.start_tcp",
                                      "server.start_ws", "client.start_io", "client.start_tcp", "client.start_ws"], impl_sites))
        if impl_sites != model_sites:
            viol.append({"case": {"k": "call-sites"}, "impl": impl_sites, "S": model_sites, "verdict": "violation"})
        # extraction + driver against the kernel: the erased schedule of Example C06_nonvacuous
        san = [c for c in self.corpus() if c.get("note", "").startswith("sanity:")]
        if san:
            m = model(san[:1])[0]
            e = san[0]["evs"]
            want = [e[0], ["task", 0], e[8], ["task", 0], ["jstart", 0], e[14], ["jfin", 0], ["task", 0], ["cb", 0], e[18]]
            errs = [x for o in m["obs"] for x in o["errs"]]
            cov["sanity_vm_compute_vs_driver"] = 1
            if (core.canon(m["erased"]) != core.canon(want) or not m["wf"]
                    or errs != ["jsonrpc", "request", "notification", "jsonrpc"]):
                viol.append({"case": {"k": "sanity"}, "impl": {"erased": m["erased"], "errs": errs, "wf": m["wf"]},
                             "S": {"erased": want}, "verdict": "violation", "suffix": "no-failing-input-found"})
        # end to end
        runs = 0
        for transport in ("stdio", "tcp"):
            for hook in (("raises", "quiet", "default") if not chk.quick else ("raises", "default")):
                got = e2e_server(transport, hook)
                want = e2e_expect(transport)
                runs += 1
                ok = (got["answered"] == want["answered"] and got["hook"] == want["hook"] and
                      got["handled"] == want["handled"] and got["ended"] == want["ended"] and not got["start_raised"])
                if not ok:
                    viol.append({"case": {"k": "e2e-server", "transport": transport, "hook": hook,
                                          "bad": [n for n, _, _ in E2E_BAD]}, "impl": got, "S": want, "verdict": "violation"})
        for hook in ("raises", "quiet"):
            got, want = e2e_client(hook)
            runs += 1
            if got != want:
                viol.append({"case": {"k": "e2e-client", "hook": hook}, "impl": got, "S": want, "verdict": "violation"})
        # user handlers ON built-in methods, all raising: a raising hook must behave as a quiet one, the
        # built-in's reply and its workspace effect included
        for kind in ("sync", "async", "thread"):
            q, r = lsp_session(kind, "quiet"), lsp_session(kind, "raises")
            runs += 2
            want = {"term": "normal", "text": "two\n", "version": 2, "shutdown": True}
            bad = q != r or any(q.get(k2) != v for k2, v in want.items()) or len(q["user_handlers_run"]) < 7 \
                or not any('"result"' in x and "[\"resp\",1," in x for x in q["replies"])
            if bad:
                viol.append({"case": {"k": "lsp-session-chained-handlers", "kind": kind}, "impl": {"quiet": q, "raises": r},
                             "S": dict(want, note="identical under both hooks; initialize / executeCommand / shutdown answered with their results"),
                             "verdict": "violation"})
        cov["hook_call_sites"] = hook_call_sites()
        cov["exception_shapes_judged"] = EXC_NAMES + ["rpc%d" % c for c in sorted(RPC_EXC)]
        cov["exception_classes_excluded"] = EXC_EXCLUDED
        try:
            cov["base_and_odd_exception_probe"] = odd_exception_probe()
        except Exception as e:      # noqa
            cov["base_and_odd_exception_probe"] = "probe failed: " + repr(e)
        cov["end_to_end_runs"] = runs
        cov["end_to_end_bad_frames_per_run"] = len(E2E_BAD)
        self.extra_coverage = dict(getattr(self, "extra_coverage", {}) or {}, **cov)
        return viol

    def distribution(self, cases):
        d = {}

        def add(k):
            d[k] = d.get(k, 0) + 1
        for c in cases:
            add("loop/" + c.get("loop", "sched"))
            add("hook/" + c["cfg"]["hook"])
            add("writer/" + c["cfg"]["writer"])
            add("marked/%d" % sum(1 for m in c["marks"] if m))
            add("len/%d" % (10 * (len(c["evs"]) // 10)))
            for n in c.get("cat", []):
                add("bad/" + n)
            for e in c["evs"]:
                for b in self._behavs(e):
                    if b["o"][0] == "raise":
                        add("exc/" + b.get("x", "runtime-msg"))
        return d


PROPERTY = C06
