#!/usr/bin/env python3
"""Regenerated files of C18: coq/Gen/AstUris.v, the PyMini translation of the source text of
_normalize_win_path, to_fs_path and uri_scheme in pygls/uris.py (harness/gen_ast.py, fail-closed).  Run by
`make setup` and, through C18.regenerate, on every check."""
import os, sys
sys.path.insert(0, os.path.dirname(os.path.abspath(__file__)))
import gen_ast


def main():
    return gen_ast.gen_uris()


if __name__ == "__main__":
    print("gen_c18:", os.path.relpath(main(), gen_ast.ROOT))
