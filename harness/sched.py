"""sched.py - deterministic scheduler harness: drives the REAL pygls endpoint one event at a time.

Reusable by every endpoint property (C01, C08, C09, C16, C06, C14).  The vocabulary is that of
coq/Model/Endpoint.v; `encode_case` produces the driver line for bin/c01_driver and `parse_run`
decodes its answer into the same observation shape that `Sched.observe` produces.

Case   {"cfg": {"writer": "blocking"|"awaitable", "hook": "default"|"quiet"|"raises", "wfail": None|k},
        "evs": [event, ...], "reg": "plain"|"ls"|"ann" (optional: how the scripted handlers are
        registered - plain, first parameter `ls`, first parameter annotated with the server class; the
        last two go through feature_manager.wrap_with_server; not seen by the model)}
Event  ["recv", frame] | ["task", t] | ["cb", t] | ["jstart", j] | ["jfin", j] | ["write"] |
       ["exitcb"] | ["send", id] | ["send", id, "react", resp-frame] | ["scancel", id] | ["ocancel", o]
         (a reactive send: blocking writer only, the peer's response is dispatched INSIDE writer.write of
          the request; for the model it is the two events ["send", id], ["recv", resp-frame])
         (the last two are Model/EndpointX.v's ServerCancel i = cancel() on the in-flight future i without
          popping it, and OutCancel o = the caller cancels the o-th future send_request returned)
         t / j = index of the handler task / pool work item in creation order
Frame  (a request / notification of class "unknown" may carry "mn": index into UNKNOWN_NAMES = the method name
        on the wire; the model does not see it)
       {"t": "garbage", "v": 0..5}
       {"t": "req",   "id": id, "ver": bool, "ps": "ok"|"bad"|"fail", "m": rmethod, "np": bool}
       {"t": "notif", "tag": n, "ver": bool, "ps": ..., "m": nmethod}
       {"t": "resp",  "id": id, "ver": bool, "err": bool, "ps": ...}
         id = JSON int or JSON string; np = the `params` member is omitted
rmethod ["unknown", v] | ["user", b] | ["shutdown", ub] | ["builtin", fails, ub] | ["command", b|None, ub]
nmethod ["unknown"] | ["user", b] | ["cancel", id] | ["exit", ub] | ["builtin", fails, ub]
behav  {"k": "sync"|"async"|"thread", "n": suspension points, "early": bool,
        "o": ["ret", v] | ["unser"] | ["raise"] | ["rpc", code], "r": "prop"|"swallow"}
ub     behav of the user feature registered under the built-in's name, or None

Observation after every event (`observe`):
  {"out":   new frames handed to the writer: ["resp", id, "result", v] | ["resp", id, "error", code] |
            ["resp", id, "malformed", has_result, has_error] | ["notif", name] | ["req", id]
            (v = "null" | int | "obj"; name = "showMessage" | other method string),
   "hlog":  new handler-log entries [who, part, phase, site]; who = ["req", id] | ["not", tag];
            part = "builtin"|"user"|"command"; phase = "start"|"end"|"cancel"; site = "loop"|"pool",
   "errs":  new report_server_error calls, by source class: "request"|"notification"|"jsonrpc"|"internal",
   "futs": key list of the in-flight futures table, "rtypes": key list of the result-type table,
   "shutdown": bool, "exit": None | status, "closed": bool, "storm": bool, "alive": bool,
   "quiescent": no handler task, queued callback, pool item or awaitable write is left}

Technique (DESIGN.md Appendix E): a private event loop whose task factory builds
`asyncio.tasks._PyTask`, so that every handle in `loop._ready` can be attributed; after each event
everything in `loop._ready` is moved into harness-owned pending tables ("ready-queue
interposition"); an event re-injects exactly one handle and runs one loop iteration.  The read
loop is the real `pygls.io_.run_async` over a real `asyncio.StreamReader`.  The pool is a duck-typed
object installed with priv.set_thread_pool; work items run on real non-loop threads up to a harness gate.
"""
import asyncio
import concurrent.futures
import gc
import json
import logging
import threading
import warnings
import weakref

import priv

# The stepped loop runs Python tasks (asyncio.tasks._PyTask, see above).  The PUBLIC names asyncio.Future / asyncio.Task
# normally denote the C classes of the _asyncio accelerator, of which a _PyTask is NOT an instance: library code that
# asks `isinstance(x, asyncio.Future)` (pygls/client.py does) would then not recognise the harness's tasks.  So the
# whole process runs in the configuration of an interpreter without the accelerator: the public names denote the
# Python classes, and loop.create_future() / wrap_future() build them too.
asyncio.futures.Future = asyncio.futures._PyFuture
asyncio.Future = asyncio.futures._PyFuture
asyncio.tasks.Task = asyncio.tasks._PyTask
asyncio.Task = asyncio.tasks._PyTask

logging.disable(logging.CRITICAL)
warnings.simplefilter("ignore")

SRC = {"FeatureRequestError": "request", "FeatureNotificationError": "notification",
       "JsonRpcException": "jsonrpc", "JsonRpcInternalError": "internal"}
USER_METHOD = {"sync": "t/sync", "async": "t/async", "thread": "t/thread"}
COMMAND = {"sync": "c.sync", "async": "c.async", "thread": "c.thread"}
GARBAGE = [b"not json", b"[1, 2]", b"3", b"{}", b'{"id": 1, "method": "t/sync"}', b'{"jsonrpc": "2.0"}',
           b'"\xff\xfe"', b"null"]
REG_SHAPES = ["plain", "ls", "ann"]
BUILTIN_OK = "initialized"
BUILTIN_FAIL = "textDocument/didClose"


class HarnessError(Exception):
    pass


# ------------------------------------------------------------------ what a raising handler raises
# The model has ONE constructor for "the handler raises an ordinary exception" (ORaise -> -32603 reply, hook):
# the reply must not depend on the class, the arguments or the text of the exception.  Catalogue shared with
# harness/c06.py (EXC) and harness/c07.py (OTHER_SHAPES), plus arguments that JSON cannot encode.  Every
# entry is an Exception; BaseExceptions that are not (SystemExit, KeyboardInterrupt, asyncio.CancelledError,
# GeneratorExit) propagate by design and are not ORaise (C06 records them as candidates).
class _BadStr(Exception):
    def __str__(self):
        raise RuntimeError("__str__ failed")

    __repr__ = __str__


def _noted():
    e = ValueError("with notes")
    if hasattr(e, "add_note"):
        e.add_note("first note")
        e.add_note("second\nnote")
    return e


def _group():
    try:
        return ExceptionGroup("several", [ValueError("a"), OSError(5, "b")])       # noqa: F821 (3.11+)
    except NameError:
        return RuntimeError("no ExceptionGroup")


def _chained():
    try:
        try:
            raise KeyError("inner")
        except KeyError as e:
            raise ValueError("outer") from e
    except ValueError as e:
        return e


EXC_SHAPES = {
    "runtime-msg": lambda: RuntimeError("scripted failure"),
    "no-args": lambda: RuntimeError(),
    "several-args": lambda: ValueError("a", 2, None),
    "int-arg": lambda: Exception(5),
    "dict-arg": lambda: Exception({"k": [1, 2]}),
    "bytes-arg": lambda: Exception(b"\xff\x00"),
    "set-arg": lambda: Exception({1, 2}),
    "object-arg": lambda: Exception(object()),
    "path-arg": lambda: KeyError(__import__("pathlib").Path("/no/such/file")),
    "non-ascii": lambda: RuntimeError("d\u00e9faut \U0001F60B\nsecond line\r\n\ttab \x00"),
    "broken-pipe": lambda: BrokenPipeError(32, "Broken pipe"),
    "conn-reset": lambda: ConnectionResetError("reset"),
    "conn-refused": lambda: ConnectionRefusedError(),
    "oserror": lambda: OSError(5, "Input/output error"),
    "timeout": lambda: TimeoutError("timed out"),
    "keyerror": lambda: KeyError("x"),
    "indexerror": lambda: IndexError(),
    "valueerror-empty": lambda: ValueError(""),
    "stop-iteration": lambda: StopIteration(3),
    "str-raises": lambda: _BadStr("x"),
    "notes": _noted,
    "group": _group,
    "chained": _chained,
    "incomplete-read": lambda: asyncio.IncompleteReadError(b"ab", 5),
    "unicode-error": lambda: UnicodeDecodeError("utf-8", b"\xff", 0, 1, "invalid start byte"),
    "recursion": lambda: RecursionError("maximum recursion depth exceeded"),
    "memory": lambda: MemoryError(),
}


# what a Sched reaches of pygls' private state (keys of harness/priv.py; the properties built on this
# module list them in `Property.private`, core resolves them before a case runs)
PRIVATE = ["protocol.request_futures", "protocol.result_types", "protocol.shutdown_flag",
           "server.thread_pool", "server.error_handler"]


class _Sentinel:
    """An object that belongs to one handler invocation (C16: must be collectable once it is answered)."""
    __slots__ = ("__weakref__",)


# ------------------------------------------------------------------ frames on the wire
# Names of methods nobody handles (frame member "mn" = index; the model has ONE class for them, RUnknown /
# NUnknown: a request is answered -32601 whatever the name, a notification is ignored): the `$/` namespace,
# prefixes and extensions of registered names, the empty string, names that differ from a registered one
# only by case / a trailing slash / a trailing blank, a very long name, non-ASCII names
UNKNOWN_NAMES = ["t/none", "$/unknownRequest", "$/", "$/cancelRequestx", "$/progress/x", "textDocument/hoverx",
                 "textDocument/", "workspace/executeCommandx", "workspace", "", " ", "Shutdown", "SHUTDOWN", "shutdown/",
                 "initialize ", "Exit", "t/sync/", "T/SYNC", "t/Sync", "/t/sync", "x/" + "a" * 5000,
                 "t/\u00e9\u00df\u4e16\U0001F60B", "\u0000", "rpc.discover"]


def frame_method(f):
    """Method string of a request / notification frame, and the name a chained user feature has."""
    m = f["m"]
    k = m[0]
    if k == "unknown" and f.get("mn") is not None:
        return UNKNOWN_NAMES[f["mn"] % len(UNKNOWN_NAMES)]
    if f["t"] == "req":
        if k == "unknown":
            return "textDocument/hover" if m[1] == 2 else "t/none"
        if k == "user":
            return USER_METHOD[m[1]["k"]]
        if k == "shutdown":
            return "shutdown"
        if k == "builtin":
            return "initialize"
        if k == "command":
            return "workspace/executeCommand"
    else:
        if k == "unknown":
            return "t/none"
        if k == "user":
            return USER_METHOD[m[1]["k"]]
        if k == "cancel":
            return "$/cancelRequest"
        if k == "exit":
            return "exit"
        if k == "builtin":
            return BUILTIN_FAIL if m[1] else BUILTIN_OK
    raise HarnessError("bad frame " + repr(f))


def chained_behav(f):
    m = f.get("m")
    if not m:
        return None
    if m[0] in ("shutdown", "exit"):
        return m[1]
    if m[0] in ("builtin", "command"):
        return m[2]
    return None


def cancel_wire_id(i, cv):
    """`cv` = how an integer cancel id is spelled on the wire: as a JSON float (1 -> 1.0) or a JSON
    boolean (1 -> true, 0 -> false); Python's dict treats them as the key 1 / 0."""
    if cv == "float":
        return float(i)
    if cv == "bool":
        return bool(i)
    return i


# `$/cancelRequest` frames whose id is not an int or a string ("cv" member of a notification frame):
#   model POk + NUnknown (passes structuring, equals no key, nothing happens): null, a non-integral float
#   model PBad (reported once, loop alive): array, object (unhashable / not structurable), no `id`, no params
CANCEL_ODD = {"null": {"id": None}, "frac": {"id": 1.5}, "array": {"id": [1]}, "object": {"id": {"a": 1}},
              "noid": {}, "noparams": None}


def wire(f):
    """The body of the frame as the peer would send it."""
    t = f["t"]
    if t == "garbage":
        return GARBAGE[f["v"] % len(GARBAGE)]
    if t == "notif" and f.get("cv") in CANCEL_ODD:
        o = {"jsonrpc": "2.0" if f.get("ver", True) else "1.0", "method": "$/cancelRequest"}
        if CANCEL_ODD[f["cv"]] is not None:
            o["params"] = CANCEL_ODD[f["cv"]]
        return json.dumps(o).encode()
    ver = "2.0" if f.get("ver", True) else "1.0"
    if t == "resp":
        o = {"jsonrpc": ver, "id": f["id"]}
        if f["err"]:
            o["error"] = {"code": "x"} if f["ps"] != "ok" else {"code": -32001, "message": "peer error"}
        else:
            o["result"] = 7
        return json.dumps(o).encode()
    o = {"jsonrpc": ver}
    if t == "req":
        o["id"] = f["id"]
    ps = f["ps"]
    if ps == "fail":
        o["method"] = ["unhashable"]           # lru_cache(get_message_type) raises TypeError
        o["params"] = {}
        return json.dumps(o).encode()
    if ps == "bad":
        if t == "req":
            o["method"] = "textDocument/hover"
        else:
            o["method"] = "textDocument/didOpen"
        if not f.get("np"):
            o["params"] = {"bad": 1}
        return json.dumps(o).encode()
    m = f["m"]
    o["method"] = frame_method(f)
    k = m[0]
    if t == "req":
        if k == "unknown":
            if m[1] == 2 and f.get("mn") is None:
                o["params"] = {"textDocument": {"uri": "file:///a.txt"}, "position": {"line": 0, "character": 0}}
            elif m[1] == 0:
                o["params"] = {"x": 1}
        elif k == "user":
            if not f.get("np"):
                o["params"] = {"x": 1}
        elif k == "builtin":
            o["params"] = {"capabilities": {}}
        elif k == "command":
            name = COMMAND[m[1]["k"]] if m[1] else "c.none"
            o["params"] = {"command": name, "arguments": [1]}
    else:
        if k == "user" or k == "unknown":
            if not f.get("np"):
                o["params"] = {"tag": f["tag"]}
        elif k == "cancel":
            o["params"] = {"id": cancel_wire_id(m[1], f.get("cv"))}
        elif k == "builtin":
            o["params"] = ({"textDocument": {"uri": "file:///never-opened.txt"}} if m[1] else {})
    return json.dumps(o).encode()


def canon_result(v):
    if v is None:
        return "null"
    if isinstance(v, bool):
        return "obj"
    if isinstance(v, int):
        return v
    return "obj"


def decode_frame(data):
    """Independent decoder of one `writer.write` argument: header + JSON body."""
    head, sep, body = data.partition(b"\r\n\r\n")
    if not sep:
        return ["undecodable"]
    n = None
    for line in head.split(b"\r\n"):
        if line.lower().startswith(b"content-length:"):
            n = int(line.split(b":", 1)[1])
    if n is None or n != len(body):
        return ["bad-length"]
    o = json.loads(body.decode("utf-8"))
    if not isinstance(o, dict) or o.get("jsonrpc") != "2.0":
        return ["not-jsonrpc"]
    if "method" in o:
        if "id" in o:
            return ["req", o["id"]]
        name = o["method"]
        return ["notif", "showMessage" if name == "window/showMessage" else name]
    hr, he = "result" in o, "error" in o
    if hr and not he:
        return ["resp", o.get("id"), "result", canon_result(o["result"])]
    if he and not hr:
        e = o["error"]
        return ["resp", o.get("id"), "error", e.get("code") if isinstance(e, dict) else None]
    return ["resp", o.get("id"), "malformed", hr, he]


# ------------------------------------------------------------------ the scheduler
class _Job:
    def __init__(self, fut, fn, args, ctx):
        self.fut, self.fn, self.args, self.ctx = fut, fn, args, ctx
        self.started = self.finished = self.dropped = False
        self.at_gate = threading.Event()
        self.release = threading.Event()
        self.thread = None


class _Pool:
    """Duck-typed executor installed as the server's pool (priv.set_thread_pool)."""
    def __init__(self, sched):
        self.s = sched

    def submit(self, fn, *args, **kw):
        s = self.s
        fut = concurrent.futures.Future()
        job = _Job(fut, fn, args, s.cur)
        s.jobs.append(job)
        s.open_jobs.append(job)
        part = getattr(fn, "_sched_part", None) or getattr(getattr(fn, "func", None), "_sched_part", None)
        b = (s.cur or {}).get("b", {}).get(part)
        if b and b.get("early"):
            job.release.set()
            s._start_job(job)
            s._finish_job(job)
        return fut

    def shutdown(self, *a, **kw):
        pass


class Sched:
    def __init__(self, cfg, chained=None, error_handler="protected", server_kwargs=None, reg="plain"):
        from pygls.lsp.server import LanguageServer
        from pygls.io_ import run_async
        self.cfg = cfg
        self.exc_salt, self.exc_count = 0, 0
        self.react = None
        self.reg = reg or "plain"           # registration shape of the scripted handlers: plain | ls | ann
        self.main = threading.current_thread()
        self.tls = threading.local()
        self.loop = asyncio.new_event_loop()
        self.loop.set_task_factory(self._factory)
        self.reader_task = None
        self.htasks, self.task_ctx, self.gates = [], {}, {}
        self.pending_steps, self.pending_cbs = {}, {}
        self.reader_handles, self.wq_handles, self.exit_handles = [], [], []
        self.wtasks, self.close_tasks = set(), set()
        self.jobs = []
        self.cur = None
        self.writes, self.hlog, self.errs = [], [], []
        self.nwrites, self.closed, self.storm, self.exit = 0, False, False, None
        self.hook_depth = threading.local()
        self.seen = [0, 0, 0]
        self.anomalies = []
        self.orphans = []
        self.out_futs = []                   # futures returned by send_request, in order
        self.sentinels = []                  # weak references to the sentinels created inside handlers
        self.open_tasks, self.open_jobs = set(), []
        S = self

        class Server(LanguageServer):
            def report_server_error(self, error, source):
                d = getattr(S.hook_depth, "d", 0)
                S.hook_depth.d = d + 1
                try:
                    if d == 0:
                        S.errs.append(SRC.get(getattr(source, "__name__", ""), str(source)))
                    else:
                        S.storm = True
                    if S.cfg["hook"] == "default":
                        return super().report_server_error(error, source)
                    if S.cfg["hook"] == "raises":
                        raise RuntimeError("scripted hook failure")
                finally:
                    S.hook_depth.d = d

        self.server = Server("sched", "v1", **(server_kwargs or {}))      # e.g. protocol_cls= (C14)
        self.protocol = self.server.protocol
        priv.set_thread_pool(self.server, _Pool(self))
        self._register(chained or {})
        self.writer = _BlockingWriter(self) if cfg["writer"] == "blocking" else _AwaitableWriter(self)
        self.protocol.set_writer(self.writer)
        self.stop_event = threading.Event()
        asyncio.set_event_loop(None)
        self.reader = asyncio.StreamReader(loop=self.loop)
        handler = (priv.error_handler(self.server) if error_handler == "protected"
                   else self.server.report_server_error)
        self._loop_handler = handler
        self.reader_task = self.loop.create_task(
            run_async(self.stop_event, self.reader, self.protocol, error_handler=handler))
        self._collect()
        self._run_reader()

    # ---- the two private tables and the shutdown flag (located by harness/priv.py)
    def table_futs(self):
        return list(priv.request_futures(self.protocol).keys())

    def table_rtypes(self):
        return list(priv.result_types(self.protocol).keys())

    def flag_shutdown(self):
        return priv.shutdown_flag(self.protocol)

    # ---- handlers
    def _register(self, chained):
        S = self

        Srv = type(self.server)

        def mk(kind, part):
            # three registration shapes (pygls.feature_manager.wrap_with_server): a plain callable is
            # registered as it is; one whose first parameter is named `ls`, or is annotated with the
            # server's class, is wrapped (async: a coroutine that awaits it; sync/thread: a partial)
            if S.reg == "ls":
                if kind == "async":
                    async def h(ls, *args):
                        return await S._h_async(part)
                elif kind == "thread":
                    def h(ls, *args):
                        return S._h_thread(part)
                else:
                    def h(ls, *args):
                        return S._h_sync(part)
            elif S.reg == "ann":
                if kind == "async":
                    async def h(server: Srv, *args):
                        return await S._h_async(part)
                elif kind == "thread":
                    def h(server: Srv, *args):
                        return S._h_thread(part)
                else:
                    def h(server: Srv, *args):
                        return S._h_sync(part)
            else:
                if kind == "async":
                    async def h(*args):
                        return await S._h_async(part)
                elif kind == "thread":
                    def h(*args):
                        return S._h_thread(part)
                else:
                    def h(*args):
                        return S._h_sync(part)
            h._sched_part = part
            return h

        srv = self.server
        for kind in ("sync", "async", "thread"):
            f = mk(kind, "user")
            if kind == "thread":
                f = srv.thread()(f)
            srv.feature(USER_METHOD[kind])(f)
            g = mk(kind, "command")
            if kind == "thread":
                g = srv.thread()(g)
            srv.command(COMMAND[kind])(g)
        for name, kind in chained.items():
            f = mk(kind, "user")
            if kind == "thread":
                f = srv.thread()(f)
            srv.feature(name)(f)

    def _site(self):
        return "loop" if threading.current_thread() is self.main else "pool"

    def _log(self, ctx, part, phase):
        self.hlog.append([ctx["who"], part, phase, self._site()])

    def _exception(self, b):
        """The exception an ["raise"] outcome raises: `b["x"]` names a shape of EXC_SHAPES, else the shape
        is derived from the case (its length) and the number of raising handlers so far - every check
        that drives its cases through run_case covers the catalogue."""
        # "str-raises" only on request: the default reporter formats the exception, which raises, so its
        # window/showMessage is not sent (contained by _report_server_error - C06's subject, not the model's)
        names = [n for n in sorted(EXC_SHAPES) if n != "str-raises"]
        x = b.get("x")
        if x is None:
            x = names[(self.exc_salt + self.exc_count) % len(names)]
            self.exc_count += 1
        return EXC_SHAPES[x]()

    def _outcome(self, b):
        o = b["o"]
        if o[0] == "ret":
            return o[1]
        if o[0] == "unser":
            return object()
        if o[0] == "raise":
            raise self._exception(b)
        from pygls.exceptions import JsonRpcException
        raise JsonRpcException("scripted rpc failure", o[1])

    def _sentinel(self):
        obj = _Sentinel()
        self.sentinels.append(weakref.ref(obj))
        return obj

    def _h_sync(self, part):
        ctx = self.cur
        b = ctx["b"][part]
        keep = self._sentinel()              # a local of the handler frame
        self._log(ctx, part, "start")
        self._log(ctx, part, "end")
        return self._outcome(b)

    async def _h_async(self, part):
        task = asyncio.current_task()
        ctx = self.task_ctx[task]
        b = ctx["b"][part]
        keep = self._sentinel()
        self._log(ctx, part, "start")
        for _ in range(b.get("n", 0)):
            gate = self.loop.create_future()
            self.gates[task] = gate
            try:
                await gate
            except asyncio.CancelledError:
                self._log(ctx, part, "cancel")
                if b.get("r", "prop") == "prop":
                    raise
        self._log(ctx, part, "end")
        return self._outcome(b)

    def _h_thread(self, part):
        job = self.tls.job
        ctx = job.ctx
        b = ctx["b"][part]
        keep = self._sentinel()
        self._log(ctx, part, "start")
        job.at_gate.set()
        if not job.release.wait(20):
            self.anomalies.append("job never released")
        self._log(ctx, part, "end")
        return self._outcome(b)

    # ---- loop plumbing
    def _factory(self, loop, coro, **kw):
        task = asyncio.tasks._PyTask(coro, loop=loop, **kw)
        code = getattr(coro, "cr_code", None)
        if self.reader_task is None and getattr(code, "co_name", "") == "run_async":
            pass
        elif code is _AwaitableWriter._w.__code__:
            self.wtasks.add(task)
        elif code is _AwaitableWriter._c.__code__:
            self.wtasks.add(task)
            self.close_tasks.add(task)
        else:
            self.htasks.append(task)
            self.task_ctx[task] = self.cur
            self.open_tasks.add(task)
        return task

    def _collect(self):
        """Move every ready handle into the harness tables."""
        ready = self.loop._ready
        while ready:
            h = ready.popleft()
            if h._cancelled:
                continue
            cb = h._callback
            owner = getattr(cb, "__self__", None)
            if owner is self.loop:
                continue                      # our own loop.stop left behind by a SystemExit
            if isinstance(owner, asyncio.tasks._PyTask):
                if owner is self.reader_task or self.reader_task is None:
                    self.reader_handles.append(h)
                elif owner in self.wtasks:
                    self.wq_handles.append(h)
                else:
                    self.pending_steps[owner] = h
                continue
            arg = h._args[0] if h._args else None
            if arg in self.close_tasks:
                self.exit_handles.append(h)
            elif isinstance(arg, asyncio.tasks._PyTask) and arg in self.task_ctx:
                self.pending_cbs[arg] = h
            else:
                raise HarnessError("unattributable handle %r" % (h,))

    def _run_handle(self, h):
        loop = self.loop
        if loop._ready:
            raise HarnessError("ready queue not empty")
        loop._ready.append(h)
        loop.call_soon(loop.stop)
        try:
            loop.run_forever()
        except SystemExit as e:
            self.exit = e.code if isinstance(e.code, int) else 0
        self._collect()

    def _run_reader(self):
        while self.reader_handles and self.exit is None:
            self._run_handle(self.reader_handles.pop(0))

    # ---- pool plumbing
    def _start_job(self, job):
        if job.started or job.dropped or job.fut is None:
            return False
        if job.fut.cancelled():
            # a worker dequeues a cancelled work item once, notifies and drops it
            job.dropped = True
            job.fut.set_running_or_notify_cancel()
            return False
        if not job.fut.set_running_or_notify_cancel():
            job.dropped = True
            return False
        job.started = True

        def body():
            self.tls.job = job
            try:
                res = job.fn(*job.args)
            except BaseException as e:          # noqa
                job.fut.set_exception(e)
            else:
                job.fut.set_result(res)
        job.thread = threading.Thread(target=body, daemon=True)
        job.thread.start()
        if not job.at_gate.wait(20):
            self.anomalies.append("job never reached its gate")
        return True

    def _finish_job(self, job):
        if not job.started or job.finished:
            return False
        job.finished = True
        job.release.set()
        job.thread.join(60)
        if job.thread.is_alive():
            self.anomalies.append("job thread did not finish")
        # the harness must not keep the finished work item (its future, exception, frames) alive
        job.thread = job.fn = job.args = job.ctx = None
        job.fut = None
        return True

    # ---- writer back end
    def _do_write(self, data):
        if self.closed:
            raise ValueError("write to closed transport")
        n = self.nwrites
        self.nwrites += 1
        k = self.cfg.get("wfail")
        if k is not None and n >= k:
            raise OSError("scripted write failure")
        self.writes.append(bytes(data))
        if self.react is not None:
            # reactive transport (in-process pipe, loopback peer): the peer's answer to the request being
            # written is dispatched while send_request is still inside writer.write(), on the same thread
            frame = decode_frame(bytes(data))
            if frame[0] == "req" and json.dumps(frame[1]) == json.dumps(self.react[0]):
                body, self.react = self.react[1], None
                try:
                    self.protocol.handle_message(json.loads(body, object_hook=self.protocol.structure_message))
                except Exception as exc:        # noqa - what the read loop does
                    from pygls.exceptions import JsonRpcException
                    self._loop_handler(exc, JsonRpcException)

    # ---- events
    def do(self, e):
        if self.exit is not None:
            return
        k = e[0]
        if k == "recv":
            self._recv(e[1])
        elif k == "task":
            self._task_step(e[1])
        elif k == "cb":
            t = self.htasks[e[1]] if e[1] < len(self.htasks) else None
            h = self.pending_cbs.pop(t, None) if t is not None else None
            if h is not None:
                self._run_handle(h)
                if self.exit is None:
                    # answered: the harness forgets the task so that only pygls could keep it alive
                    self.htasks[e[1]] = None
                    self.task_ctx.pop(t, None)
                    self.gates.pop(t, None)
                    self.pending_steps.pop(t, None)
                del h, t
        elif k == "jstart":
            if e[1] < len(self.jobs):
                self._start_job(self.jobs[e[1]])
        elif k == "jfin":
            if e[1] < len(self.jobs):
                self._finish_job(self.jobs[e[1]])
        elif k == "write":
            if self.wq_handles:
                self._run_handle(self.wq_handles.pop(0))
        elif k == "exitcb":
            if self.exit_handles:
                self._run_handle(self.exit_handles.pop(0))
        elif k == "send":
            if len(e) > 2 and self.cfg["writer"] == "blocking":
                # ["send", id, "react", resp-frame]: the answer arrives during the write
                self.react = (e[1], wire(e[3]))
            self._user_send(e[1])
            self.react = None
        elif k == "scancel":
            self._server_cancel(e[1])
        elif k == "ocancel":
            if e[1] < len(self.out_futs) and self.out_futs[e[1]] is not None:
                self.out_futs[e[1]].cancel()       # the caller gives up on the future send_request returned
        else:
            raise HarnessError("unknown event " + repr(e))
        if self.loop._ready:
            self._collect()

    def _ctx(self, f):
        t = f["t"]
        who = ["req", f["id"]] if t == "req" else ["not", f.get("tag", 0)]
        b = {}
        m = f.get("m")
        if m:
            if m[0] == "user":
                b["user"] = m[1]
            elif m[0] == "command":
                b["command"] = m[1]
            u = chained_behav(f)
            if u:
                b["user"] = u
        return {"who": who, "b": b}

    def _recv(self, f):
        if self.reader_task.done():
            return
        body = wire(f)
        self.cur = self._ctx(f)
        try:
            self.reader.feed_data(b"Content-Length: %d\r\n\r\n" % len(body) + body)
            self._collect()
            self._run_reader()
        finally:
            self.cur = None
        if self.exit is None and not self.reader_task.done() and len(self.reader._buffer):
            self.anomalies.append("reader did not consume the frame")

    def _task_step(self, t):
        if t >= len(self.htasks):
            return
        task = self.htasks[t]
        if task is None or task.done():
            return
        h = self.pending_steps.pop(task, None)
        if h is None:
            gate = self.gates.get(task)
            if gate is None or gate.done():
                self.anomalies.append("task %d has neither a pending handle nor a gate" % t)
                return
            gate.set_result(None)
            self._collect()
            h = self.pending_steps.pop(task, None)
            if h is None:
                self.anomalies.append("task %d did not wake up" % t)
                return
        self._run_handle(h)

    def _user_send(self, i):
        # send_request is user code running on the loop thread: run it as a loop callback
        h = self.loop.call_soon(lambda: self.out_futs.append(self.protocol.send_request("t/out", {"x": 1}, msg_id=i)))
        self.loop._ready.remove(h)
        self._run_handle(h)

    def _server_cancel(self, i):
        """Server-side cancellation: cancel() on the future stored under key i, WITHOUT popping it
        (what lsp_shutdown does to every entry, applied to one)."""
        def go():
            fut = priv.request_futures(self.protocol).get(i)
            if fut is not None:
                fut.cancel()
        h = self.loop.call_soon(go)
        self.loop._ready.remove(h)
        self._run_handle(h)

    # ---- observation
    def quiescent(self):
        self.open_tasks = {t for t in self.open_tasks if not t.done()}
        self.open_jobs = [j for j in self.open_jobs
                          if not (j.finished or (not j.started and j.fut is not None and j.fut.cancelled()))]
        return not (self.open_tasks or self.open_jobs or self.pending_cbs or self.wq_handles or self.exit_handles)

    def alive_sentinels(self):
        """Sentinels of handler invocations that the garbage collector cannot reclaim right now."""
        gc.collect()
        self.sentinels = [w for w in self.sentinels if w() is not None]
        return len(self.sentinels)

    def observe(self):
        a, b, c = self.seen
        self.seen = [len(self.writes), len(self.hlog), len(self.errs)]
        return {"out": [decode_frame(d) for d in self.writes[a:]],
                "hlog": [list(x) for x in self.hlog[b:]],
                "errs": list(self.errs[c:]),
                "futs": self.table_futs(), "rtypes": self.table_rtypes(),
                "shutdown": self.flag_shutdown(), "exit": self.exit, "closed": self.closed,
                "storm": self.storm, "quiescent": self.quiescent(),
                "alive": self.exit is None and not self.reader_task.done()}

    def close(self):
        """Release every parked thread, drop what is still pending, close the loop."""
        for job in self.jobs:
            job.release.set()
        for job in self.jobs:
            if job.thread is not None:
                job.thread.join(5)
        try:
            self.loop._ready.clear()
            for t in [self.reader_task] + [x for x in self.htasks if x is not None] + list(self.wtasks):
                if t is None or t.done():
                    continue
                t._log_destroy_pending = False
                try:
                    t.get_coro().close()
                except BaseException:       # noqa
                    pass
            for c in self.orphans:
                try:
                    c.close()
                except BaseException:       # noqa
                    pass
            self.loop._ready.clear()
        finally:
            self.loop.close()


class _BlockingWriter:
    def __init__(self, s):
        self.s = s

    def write(self, data):
        self.s._do_write(data)

    def close(self):
        self.s.closed = True


class _AwaitableWriter:
    def __init__(self, s):
        self.s = s

    def write(self, data):
        c = self._w(data)
        self.s.orphans.append(c)       # closed at the end if ensure_future never took it
        return c

    async def _w(self, data):
        self.s._do_write(data)

    def close(self):
        c = self._c()
        self.s.orphans.append(c)
        return c

    async def _c(self):
        self.s.closed = True


def chained_of(case):
    """Which user features have to be registered under built-in names for this case."""
    ch = {}
    for e in case["evs"]:
        if e[0] == "recv":
            f = e[1]
            u = chained_behav(f)
            if u and f.get("ps", "ok") == "ok":
                ch[frame_method(f)] = u["k"]
    return ch


def case_reg(case):
    return case.get("reg") or REG_SHAPES[len(case["evs"]) % 3]


def run_case(case, error_handler="protected"):
    """Realise the event list on a fresh real LanguageServer; one observation per event.
    `case["gc"]` (optional): event indices after which the sentinels still alive are counted."""
    # registration shape: the case says, else it is derived from the case (so that every property that
    # drives its cases through run_case covers the three shapes)
    reg = case_reg(case)
    s = Sched(case["cfg"], chained_of(case), error_handler, reg=reg)
    s.exc_salt = len(case["evs"]) * 5 + len(json.dumps(case["evs"][:1]))
    obs = []
    gcs = set(case.get("gc") or [])
    alive = []
    try:
        s.observe()
        for k, e in enumerate(case["evs"]):
            s.do(e)
            obs.append(s.observe())
            if k in gcs:
                alive.append([k, s.alive_sentinels()])
        out = {"obs": obs}
        if gcs:
            out["gc"] = alive
        if s.anomalies:
            out["anomalies"] = s.anomalies
        return out
    finally:
        s.close()


# ------------------------------------------------------------------ model side: encode / decode
def enc_id(i):
    if isinstance(i, str):
        return [1, len(i)] + [ord(ch) for ch in i]
    return [0, int(i)]


def enc_behav(b):
    k = b["k"]
    out = [0] if k == "sync" else [1, b.get("n", 0)] if k == "async" else [2, 1 if b.get("early") else 0]
    o = b["o"]
    out += {"ret": lambda: [0, o[1]], "unser": lambda: [1], "raise": lambda: [2], "rpc": lambda: [3, o[1]]}[o[0]]()
    out.append(0 if b.get("r", "prop") == "prop" else 1)
    return out


def enc_optb(b):
    return [0] if not b else [1] + enc_behav(b)


PS = {"ok": 0, "bad": 1, "fail": 2}


def enc_frame(f):
    t = f["t"]
    if t == "garbage":
        return [0]
    v = 1 if f.get("ver", True) else 0
    if t == "req":
        m = f["m"]
        k = m[0]
        mm = ([0] if k == "unknown" else [1] + enc_behav(m[1]) if k == "user" else
              [2] + enc_optb(m[1]) if k == "shutdown" else
              [3, 1 if m[1] else 0] + enc_optb(m[2]) if k == "builtin" else
              [4] + enc_optb(m[1]) + enc_optb(m[2]))
        return [1, v] + enc_id(f["id"]) + [PS[f["ps"]]] + mm
    if t == "notif":
        m = f["m"]
        k = m[0]
        mm = ([0] if k == "unknown" else [1] + enc_behav(m[1]) if k == "user" else
              [2] + enc_id(m[1]) if k == "cancel" else [3] + enc_optb(m[1]) if k == "exit" else
              [4, 1 if m[1] else 0] + enc_optb(m[2]))
        return [2, v, f.get("tag", 0), PS[f["ps"]]] + mm
    return [3, v] + enc_id(f["id"]) + [1 if f["err"] else 0, PS[f["ps"]]]


def enc_ev(e):
    k = e[0]
    if k == "recv":
        return [0] + enc_frame(e[1])
    if k in ("task", "cb", "jstart", "jfin"):
        return [{"task": 1, "cb": 2, "jstart": 3, "jfin": 4}[k], e[1]]
    if k == "write":
        return [5]
    if k == "exitcb":
        return [6]
    if k == "scancel":
        return [8] + enc_id(e[1])      # EndpointX.ServerCancel: only the c16 driver understands 8 and 9
    if k == "ocancel":
        return [9, e[1]]
    return [7] + enc_id(e[1])


def enc_cfg(c):
    return [0 if c["writer"] == "blocking" else 1, {"default": 0, "quiet": 1, "raises": 2}[c["hook"]],
            -1 if c.get("wfail") is None else c["wfail"]]


def model_events(evs):
    """The model's event list: a reactive send is the send followed by the arrival of the answer."""
    out = []
    for e in evs:
        if e[0] == "send" and len(e) > 2:
            out.append(["send", e[1]])
            out.append(["recv", e[3]])
        else:
            out.append(e)
    return out


def encode_case(case, cmd="run"):
    evs = model_events(case["evs"])
    toks = enc_cfg(case["cfg"]) + [len(evs)]
    for e in evs:
        toks += enc_ev(e)
    return cmd + " " + " ".join(map(str, toks))


class _Cur:
    def __init__(self, toks):
        self.t, self.i = toks, 0

    def int(self):
        v = int(self.t[self.i])
        self.i += 1
        return v

    def id(self):
        if self.int() == 0:
            return self.int()
        n = self.int()
        return "".join(chr(self.int()) for _ in range(n))

    def list(self, f):
        return [f() for _ in range(self.int())]


def _dec_oframe(c):
    k = c.int()
    if k == 0:
        i = c.id()
        if c.int() == 0:
            r = c.int()
            v = "null" if r == 0 else c.int() if r == 1 else "obj"
            return ["resp", i, "result", v]
        return ["resp", i, "error", c.int()]
    if k == 1:
        m = c.int()
        return ["notif", "showMessage" if m == 0 else "other%d" % (m - 1)]
    return ["req", c.id()]


def _dec_hentry(c):
    who = ["req", c.id()] if c.int() == 0 else ["not", c.int()]
    return [who, ["builtin", "user", "command"][c.int()], ["start", "end", "cancel"][c.int()],
            ["loop", "pool"][c.int()]]


def dec_ev(c):
    k = c.int()
    if k in (1, 2, 3, 4):
        return [{1: "task", 2: "cb", 3: "jstart", 4: "jfin"}[k], c.int()]
    if k == 5:
        return ["write"]
    if k == 6:
        return ["exitcb"]
    if k == 7:
        return ["send", c.id()]
    return ["recv"]


def parse_run(toks, n):
    """Decode the answer of `run`: n observations and the summary."""
    c = _Cur(toks)
    obs, owed = [], []
    for _ in range(n):
        o = {"out": c.list(lambda: _dec_oframe(c)), "hlog": c.list(lambda: _dec_hentry(c)),
             "errs": c.list(lambda: ["request", "notification", "jsonrpc", "internal"][c.int()]),
             "futs": c.list(c.id), "rtypes": c.list(c.id), "shutdown": bool(c.int())}
        x = c.int()
        o["exit"] = None if x < 0 else x
        o["closed"], o["storm"], o["undef"] = bool(c.int()), bool(c.int()), bool(c.int())
        o["quiescent"] = bool(c.int())
        o["alive"] = o["exit"] is None
        obs.append(o)
        owed.append(c.list(c.id))
    summ = {"guard": bool(c.int()), "tie_guard": bool(c.int()), "f18": bool(c.int()), "exact": bool(c.int()), "quiescent": bool(c.int())}
    summ["ids"] = c.list(lambda: [c.id(), c.int(), c.int()])     # id, owed, replies in the model
    summ["owed"] = owed
    if c.i < len(c.t):
        # C08 driver: per request frame [id, natural payload, -32800 allowed?, natural allowed by allowedb?]
        def payload():
            if c.int() == 0:
                r = c.int()
                return ["result", "null" if r == 0 else c.int() if r == 1 else "obj"]
            return ["error", c.int()]
        summ["reqs"] = c.list(lambda: [c.id(), payload(), bool(c.int()), bool(c.int())])
    return obs, summ


def parse_evs(toks):
    c = _Cur(toks)
    evs = c.list(lambda: dec_ev(c))
    return evs, bool(c.int())
