#!/usr/bin/env python3
"""Regenerated files of C10: coq/Gen/AstWorkspace.v, the PyMini translation of the source text of class
Workspace in pygls/workspace/workspace.py (harness/gen_ast.py, fail-closed; update_notebook_document is not
translated).  Run by `make setup` and, through C10.regenerate, on every check."""
import os, sys
sys.path.insert(0, os.path.dirname(os.path.abspath(__file__)))
import gen_ast


def main():
    return gen_ast.gen_workspace()


if __name__ == "__main__":
    print("gen_c10:", os.path.relpath(main(), gen_ast.ROOT))
