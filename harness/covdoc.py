#!/usr/bin/env python3
"""Copies work/cov/anchored_coverage.json to notes/ and (re)writes the coverage bullet of DESIGN.md
(between the COVERAGE markers)."""
import json, os, shutil
ROOT = os.path.dirname(os.path.dirname(os.path.abspath(__file__)))
shutil.copy(os.path.join(ROOT, "work", "cov", "anchored_coverage.json"), os.path.join(ROOT, "notes", "anchored_coverage.json"))
d = json.load(open(os.path.join(ROOT, "notes", "anchored_coverage.json")))
rows = []
te = tt = 0
for k in sorted(d):
    e = d[k]; te += e["anchored_lines_executed"]; tt += e["anchored_lines"]
    miss = "; ".join(f"{q.split('.')[-1]}:{v}" for f, m in e["never_executed"].items() for q, v in m.items())
    rows.append(f"| {k} | {e['anchored_lines_executed']}/{e['anchored_lines']} | {miss[:150] or '-'} |")
txt = ("* *Anchored-line coverage of the correspondence runs.* The coverage script of the harness maps every code\n"
       "  range a property's `anchors.mechanism[].where` names to its enclosing functions, finds those functions in\n"
       "  the current source and runs the property's quick check under `coverage` (pools made serial,\n"
       "  spawned interpreters followed through `sitecustomize` where they inherit the environment; children\n"
       "  that leave through `os._exit` - the isolated entry-point families of C02/C15 - are not measured).\n"
       f"  Last run (`notes/anchored_coverage.json`): {te} of {tt} executable anchored lines executed by the\n"
       "  quick tier of the property that anchors them. The lines never executed by a property's own check\n"
       "  are error branches that belong to, and are executed by, another property's check (no transport /\n"
       "  write failure in `_send_data`: C03, C15; connection errors in `run_async`: C15, C17), the\n"
       "  `sys.exit` line of `lsp_exit` (the harness intercepts the exit), and `__eq__`/`__hash__` of\n"
       "  `JsonRpcException` (C05 compares fields). A mutation can only hide from the differential tie in\n"
       "  a line no case executes; this list was the work-list for the generators.\n\n"
       "  | prop | executed / anchored | never executed by this property's quick check |\n  |---|---|---|\n"
       + "\n".join("  " + r for r in rows) + "\n")
p = os.path.join(ROOT, "DESIGN.md"); s = open(p).read()
b, e = "<!-- COVERAGE:BEGIN -->\n", "<!-- COVERAGE:END -->\n"
if b in s:
    s = s[:s.index(b) + len(b)] + txt + s[s.index(e):]
else:
    mark = "* *Candidates.* `known_findings.json` has a second list"
    assert mark in s
    s = s.replace(mark, b + txt + e + mark)
open(p, "w").write(s)
print(te, tt)
