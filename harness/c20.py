"""C20 - progress tokens: one cancel, one future, one notification.

Implementation side: the real pygls.progress.Progress of a real LanguageServerProtocol with a
recording writer; client traffic (acks / rejects of window/workDoneProgress/create, the
window/workDoneProgress/cancel notification) goes through the real structure_message +
handle_message as in pygls/io_.py.  create_async coroutines are stepped by hand (send(None)) so
that the point where they continue after the ack is chosen by the script (event "resume").
Model side: Model/Progress.v (on Model/Outgoing.v) + Spec/ProgressSpec.v via bin/c20_driver.
"""
import asyncio, json, logging, os
import core
import priv
import c05

logging.disable(logging.CRITICAL)

TOKENS = [["i", 1], ["s", "1"], ["s", "t"]]
CREATE = "window/workDoneProgress/create"
KINDS = ["begin", "report", "end"]
# Member shapes of a JSON-RPC response as a peer may serialise it (key order = wire order).  The shape is a
# trailing annotation of a "res" / "err" event; the model sees only the event (an ack / a reject).
#   res: 0 = {jsonrpc,id,result}   1 = extra unknown member last   2 = extra unknown member first
#   err: 0 = {jsonrpc,id,error}    1 = "result": null BEFORE error 2 = "result": null AFTER error
#        3 = extra unknown member last   4 = id last (error, then id), "result": null first
RES_SHAPES = 3
ERR_SHAPES = 5


def wire_response(rid, shape, result=c05.MISSING, error=None):
    if error is None:
        core_members = [("jsonrpc", "2.0"), ("id", rid)] + ([("result", result)] if result != c05.MISSING else [])
        if shape == 1:
            core_members.append(("x-elapsed", 3))
        elif shape == 2:
            core_members.insert(0, ("x-elapsed", "3ms"))
        return dict(core_members)
    if shape == 1:
        return {"jsonrpc": "2.0", "id": rid, "result": None, "error": error}
    if shape == 2:
        return {"jsonrpc": "2.0", "id": rid, "error": error, "result": None}
    if shape == 3:
        return {"jsonrpc": "2.0", "id": rid, "error": error, "x-elapsed": 3}
    if shape == 4:
        return {"result": None, "jsonrpc": "2.0", "error": error, "id": rid}
    return {"jsonrpc": "2.0", "id": rid, "error": error}


_SHARED = {}
_EARLIER = {}          # id(future) -> future: cancellation futures seen in EARLIER cases of this process


def _shared():
    if not _SHARED:
        from pygls.lsp.server import LanguageServer
        from pygls.protocol import default_converter
        _SHARED["server"] = LanguageServer("c20", "v1")
        _SHARED["conv"] = default_converter()
    return _SHARED["server"], _SHARED["conv"]


def _value(kind, v):
    from lsprotocol import types
    if kind == 0:
        return types.WorkDoneProgressBegin(title=f"T{v}")
    if kind == 1:
        return types.WorkDoneProgressReport(message=f"R{v}")
    return types.WorkDoneProgressEnd(message=f"E{v}")


def _decode_value(val):
    k = KINDS.index(val["kind"])
    txt = val["title"] if k == 0 else val["message"]
    return k, int(txt[1:])


def canon_tok(x):
    if isinstance(x, bool) or not isinstance(x, (int, str)):
        return ["?", repr(x)]
    return ["i", x] if isinstance(x, int) else ["s", x]


def run_case(case):
    from pygls.protocol import LanguageServerProtocol
    from pygls.exceptions import JsonRpcException
    server, conv = _shared()
    loop = asyncio.new_event_loop()
    asyncio.set_event_loop(loop)
    proto = LanguageServerProtocol(server, conv)
    writer = c05._Writer()
    proto.set_writer(writer, include_headers=False)
    hooks = [0]
    server.report_server_error = lambda error, source: hooks.__setitem__(0, hooks[0] + 1)
    progress = proto.progress
    uuids, reqs, suspended, seen_futs = [], [], [], []
    refused = 0
    trace = []
    foreign = []

    error_handler = priv.error_handler(server)     # what the real call sites hand to the read loops

    def feed(obj):
        body = json.dumps(obj).encode("utf-8")
        try:
            proto.handle_message(json.loads(body, object_hook=proto.structure_message))
        except Exception as exc:
            error_handler(exc, JsonRpcException)

    def flush():
        loop.run_until_complete(asyncio.sleep(0))
        loop.run_until_complete(asyncio.sleep(0))

    def real_id(r):
        if r[0] == "u":
            return uuids[r[1]] if r[1] < len(uuids) else f"unissued-uuid-{r[1]}"
        return r[1]

    def canon_id(x):
        if isinstance(x, str) and x in uuids:
            return ["u", uuids.index(x)]
        return canon_tok(x)

    def note_request(before):
        written = [f for f in writer.frames if "id" in f and "method" in f]
        if len(written) > before:
            uuids.append(written[-1]["id"])

    def fstate(f):
        if f.cancelled():
            return 3
        if not f.done():
            return 0
        return 2 if f.exception() is not None else 1

    try:
        for e in case["evs"]:
            k = e[0]
            nreq = len([f for f in writer.frames if "id" in f and "method" in f])
            if k == "create":
                rq = c05._Req("p")
                cb = (lambda result, rq=rq: rq.calls.append(1)) if e[2] else None
                try:
                    rq.fut = progress.create(e[1][1], cb)
                    reqs.append(rq)
                    note_request(nreq)
                except Exception:
                    refused += 1
            elif k == "acreate":
                rq = c05._Req("a")
                coro = progress.create_async(e[1][1])
                try:
                    rq.fut = coro.send(None)          # runs up to `await`; yields the asyncio future
                    reqs.append(rq)
                    suspended.append((coro, rq))
                    note_request(nreq)
                except StopIteration:
                    refused += 1000                   # cannot happen: create_async always awaits
                except Exception:
                    refused += 1
            elif k == "resume":
                still = []
                for coro, rq in suspended:
                    if rq.fut.done():
                        try:
                            coro.send(None)
                            still.append((coro, rq))  # awaited something else: not in pygls
                        except StopIteration:
                            pass
                        except BaseException:
                            pass
                    else:
                        still.append((coro, rq))
                suspended = still
            elif k in ("begin", "report", "end"):
                kind = KINDS.index(k)
                getattr(progress, k)(e[1][1], _value(kind, e[2]))
            elif k == "ccancel":
                feed({"jsonrpc": "2.0", "method": "window/workDoneProgress/cancel", "params": {"token": e[1][1]}})
            elif k == "res":
                feed(wire_response(real_id(e[1]), e[3] if len(e) > 3 else 0, result=c05.PAYLOADS[e[2]]))
            elif k == "err":
                err = {"code": e[2], "message": c05.MSGS[e[3]]}
                if c05.DATA[e[4]] != c05.ABSENT:
                    err["data"] = c05.DATA[e[4]]
                feed(wire_response(real_id(e[1]), e[5] if len(e) > 5 else 0, error=err))
            elif k == "cancel":
                if e[1] < len(reqs):
                    reqs[e[1]].fut.cancel()
            flush()
            toks = []
            for t, f in progress.tokens.items():
                if not any(f is g for g in seen_futs):
                    if _EARLIER.get(id(f)) is f:
                        foreign.append(canon_tok(t))      # an object another Progress instance handed out
                    seen_futs.append(f)
                toks.append([canon_tok(t), bool(f.cancelled()), [i for i, g in enumerate(seen_futs) if g is f][0]])
            fk, rk = c05.table_keys(proto)
            trace.append({"futs": [[fstate(rq.fut), len(rq.calls)] for rq in reqs], "hooks": hooks[0],
                          "nout": len(writer.frames), "refused": refused,
                          "tokens": sorted([[t, c] for t, c, _ in toks], key=core.canon),
                          "fk": c05.sort_ids([canon_id(x) for x in fk]),
                          "rk": c05.sort_ids([canon_id(x) for x in rk]),
                          "x": {"seen": [bool(f.cancelled()) for f in seen_futs],
                                "idx": {core.canon(t): i for t, _, i in toks}, "foreign": list(foreign)}})
        out = []
        for f in writer.frames:
            if "id" in f and "method" in f:
                tok = (f.get("params") or {}).get("token", None)
                out.append(["req", canon_id(f["id"]), f["method"], canon_tok(tok)])
            elif f.get("method") == "$/progress":
                kind, v = _decode_value(f["params"]["value"])
                out.append(["progress", canon_tok(f["params"]["token"]), kind, v])
            else:
                out.append(["other", f.get("method")])
        for f in seen_futs:
            _EARLIER[id(f)] = f
        while len(_EARLIER) > 4096:
            _EARLIER.pop(next(iter(_EARLIER)))
        return {"trace": trace, "out": out}
    except Exception as ex:
        return ["raise", type(ex).__name__, str(ex)[:100]]
    finally:
        for coro, _ in suspended:
            try:
                coro.close()
            except BaseException:
                pass
        asyncio.set_event_loop(None)
        loop.close()


def enc_pev(e):
    k = e[0]
    if k in ("res", "err", "cancel"):
        return "0 " + c05.enc_ev(e)
    if k == "create":
        return f"1 {c05.enc_id(e[1])} {int(bool(e[2]))}"
    if k == "acreate":
        return f"2 {c05.enc_id(e[1])}"
    if k == "resume":
        return "3"
    if k in KINDS:
        return f"{4 + KINDS.index(k)} {c05.enc_id(e[1])} {e[2]}"
    if k == "ccancel":
        return f"7 {c05.enc_id(e[1])}"
    raise ValueError(k)


def strip_x(obs):
    if not isinstance(obs, dict):
        return obs
    return {"trace": [{k: v for k, v in d.items() if k != "x"} for d in obs["trace"]], "out": obs["out"]}


class C20(core.Property):
    id = "C20"
    modules = ["Proofs.ProgressProofs", "Props.C20"]
    obligations = ["cancel_token_frame", "unknown_token_noop", "create_registered_refused",
                   "create_unregistered_sends", "one_progress_each", "progress_frames_exact",
                   "PInv_upd", "PInv_complete", "PInv_step", "PInv_resume_key", "PInv_pstep", "PInv_prun",
                   "registered_iff_acked", "C20", "C20_nonvacuous"]
    coq_targets = ["Props/C20.vo", "Extract/ExtractC20.vo"]
    exhaustive = True
    rule = ("every sequence of length <= L over {create, create_async, client-ack, client-reject, begin, report, "
            "end, client-cancel, resume} x tokens {1, \"1\", \"t\"} (acks / rejects for every request issued so "
            "far, i.e. at every later point), L = 3 on the full alphabet + 4 on two tokens without end (quick) / 4 "
            "full + 5 on two tokens over create, create_async, begin, cancel, ack, reject, resume + random <= 8 "
            "(thorough); the reply to a create request is wire JSON through structure_message in every member shape "
            "(ack: plain / extra member last / first; reject: plain / \"result\": null before / after the error "
            "member / extra member / id last), the shapes taking turns over the enumeration, and exhaustively: one "
            "token x 3 ways of creating x every reply (shape x code {0, -32603, -32800, 1} x message {empty, m} x "
            "data {absent, object, 0}) then cancel, re-create, ack, cancel; two pending creates answered in the "
            "opposite order x every pair of replies; non-trivial = >= 2 tokens occur, or an ack arrives after "
            "another operation on its token")
    trusted_base = ["Coq 8.16.1 kernel incl. vm_compute (Examples)",
                    "extraction with ExtrOcamlBasic only + ocaml/c20_driver.ml + conv_io/conv_n/conv_nat",
                    "harness/c20.py + harness/c05.py (sequence enumeration, driver of the real Progress, oracle)",
                    "modelled not verified: dict get/setdefault/in, concurrent.futures.Future.cancel, "
                    "asyncio.wrap_future + await (a coroutine continues in a later loop step)",
                    priv.trusted(["protocol.request_futures", "protocol.result_types", "server.error_handler"])]
    private = ["protocol.request_futures", "protocol.result_types", "server.error_handler"]
    assumptions = ["create_async coroutines continue only when the loop runs (event resume)",
                   "tokens are JSON ints or strings"]

    # ---------------- generation ----------------
    def _enumerate(self, toks, L, ops, out, exact=False):
        turn = [0]                       # the wire shapes of the replies take turns over the enumeration

        def shape(mod):
            turn[0] += 1
            return turn[0] % mod

        def rec(seq, reg, pend, waiting, n, depth):
            if seq and (not exact or depth == L):
                out.append({"evs": list(seq)})
            if depth == L:
                return
            for t in toks:
                for op in ops:
                    if op in ("create", "acreate"):
                        e = [op, t, (depth + len(seq)) % 2] if op == "create" else [op, t]
                        key = core.canon(t)
                        if key in reg:
                            rec(seq + [e], reg, pend, waiting, n, depth + 1)
                        else:
                            p2 = dict(pend); p2[n] = (key, op == "acreate")
                            rec(seq + [e], reg, p2, waiting, n + 1, depth + 1)
                    elif op == "begin":
                        rec(seq + [[op, t, depth]], reg | {core.canon(t)}, pend, waiting, n, depth + 1)
                    elif op in ("report", "end"):
                        rec(seq + [[op, t, depth]], reg, pend, waiting, n, depth + 1)
                    elif op == "ccancel":
                        rec(seq + [[op, t]], reg, pend, waiting, n, depth + 1)
            rec(seq + [["resume"]], reg | set(waiting), pend, [], n, depth + 1)
            for j in range(n):
                p2 = dict(pend)
                ent = p2.pop(j, None)
                # ack (result null)
                ack = ["res", ["u", j], 1, shape(RES_SHAPES)]
                if ent is None:
                    rec(seq + [ack], reg, p2, waiting, n, depth + 1)
                elif ent[1]:
                    rec(seq + [ack], reg, p2, waiting + [ent[0]], n, depth + 1)
                else:
                    rec(seq + [ack], reg | {ent[0]}, p2, waiting, n, depth + 1)
                # reject (error; code 0 and empty message every other time)
                code, mi = (0, 0) if (j + depth) % 2 == 0 else (-32603, 1)
                rec(seq + [["err", ["u", j], code, mi, 0, shape(ERR_SHAPES)]], reg, p2, waiting, n, depth + 1)
        rec([], frozenset(), {}, [], 0, 0)

    def _replies(self, small=False):
        """Every reply a JSON-RPC peer may give to one create request: ack / reject x member shape x error body."""
        out = [["res", None, 1, sh] for sh in range(RES_SHAPES)]
        bodies = [(0, 0, 0), (-32603, 1, 0)] if small else \
            [(code, mi, di) for code in (0, -32603, -32800, 1) for mi in (0, 1) for di in (0, 1, 3)]
        for sh in range(ERR_SHAPES):
            for code, mi, di in bodies:
                out.append(["err", None, code, mi, di, sh])
        return out

    def _reply_shapes(self, out):
        """Wire shapes of the client's reply, exhaustive: (a) one token, every way of creating it, every reply,
        then cancel / re-create / ack / cancel; (b) two pending creates answered in the opposite order, every
        pair of (small) replies, then both cancels and both re-creates."""
        def at(r, j):
            return r[:1] + [["u", j]] + r[2:]

        def mk(op, t, cb):
            return [op, t, cb] if op == "create" else [op, t]
        modes = [("create", 1), ("create", 0), ("acreate", 0)]
        for t in TOKENS:
            for op, cb in modes:
                for i, r in enumerate(self._replies()):
                    for op2, cb2 in ((("create", 1), ("acreate", 0))[i % 2],):      # the re-create: taking turns
                        accepted = r[0] == "err"
                        evs = [mk(op, t, cb), at(r, 0), ["resume"], ["ccancel", t], mk(op2, t, cb2)]
                        if accepted:                     # S: a rejected token can be created again
                            evs += [at(["res", None, 1, 0], 1), ["resume"], ["ccancel", t]]
                        else:
                            evs += [["begin", t, 2], ["ccancel", t]]
                        out.append({"evs": evs})
        small = self._replies(small=True)
        for a, b in ((TOKENS[0], TOKENS[1]), (TOKENS[1], TOKENS[2])):
            for (op, cb), (op2, cb2) in ((modes[0], modes[2]), (modes[2], modes[1]), (modes[2], modes[2])):
                for ra in small:
                    for rb in small:
                        out.append({"evs": [mk(op, a, cb), mk(op2, b, cb2), at(rb, 1), at(ra, 0), ["resume"],
                                            ["ccancel", a], ["ccancel", b], mk("create", a, 1)]})

    def generate(self, chk):
        cases = []
        cdir = os.path.join(core.ROOT, "corpus", "C20")
        if os.path.isdir(cdir):
            for f in sorted(os.listdir(cdir)):
                if f.endswith(".json"):
                    cases.extend(json.load(open(os.path.join(cdir, f))))
        full_ops = ["create", "acreate", "begin", "report", "end", "ccancel"]
        red_ops = ["create", "acreate", "begin", "report", "ccancel"]
        self._enumerate(TOKENS, chk.n(3, 4), full_ops, cases)
        if chk.quick:
            self._enumerate(TOKENS[:2], 4, red_ops, cases, exact=True)
        else:
            self._enumerate(TOKENS[:2], 5, ["create", "acreate", "begin", "ccancel"], cases, exact=True)
        self._reply_shapes(cases)
        rng = chk.rng
        for _ in range(chk.n(1500, 30000)):
            cases.append(self._random(rng, rng.randint(5, 8)))
        return cases

    def _random(self, rng, L):
        evs, n = [], 0
        reg = set()
        pend, waiting = {}, []
        for _ in range(L):
            r = rng.random()
            t = rng.choice(TOKENS)
            key = core.canon(t)
            if r < 0.28:
                op = rng.choice(["create", "acreate"])
                evs.append([op, t, rng.randrange(2)] if op == "create" else [op, t])
                if key not in reg:
                    pend[n] = (key, op == "acreate"); n += 1
            elif r < 0.50 and n > 0:
                j = rng.randrange(n)
                ent = pend.pop(j, None)
                if rng.random() < 0.7:
                    evs.append(["res", ["u", j], 1, rng.randrange(RES_SHAPES)])
                    if ent is not None:
                        if ent[1]:
                            waiting.append(ent[0])
                        else:
                            reg.add(ent[0])
                else:
                    evs.append(["err", ["u", j], rng.choice(c05.CODES_INT32), rng.randrange(4), rng.randrange(6),
                                rng.randrange(ERR_SHAPES)])
            elif r < 0.60:
                evs.append(["resume"]); reg |= set(waiting); waiting = []
            elif r < 0.72:
                evs.append(["begin", t, rng.randrange(5)]); reg.add(key)
            elif r < 0.80:
                evs.append([rng.choice(["report", "end"]), t, rng.randrange(5)])
            elif r < 0.97:
                evs.append(["ccancel", t])
            elif n > 0:
                # the caller cancels the future returned by create (handles = order of the sent requests)
                evs.append(["cancel", rng.randrange(n)])
                # an ack after that no longer registers: keep the generator's bookkeeping in step
                # (only used to keep `u` references well-formed, so nothing to do)
        return {"evs": evs}

    # ---------------- implementation ----------------
    def run_impl(self, chk, cases):
        return [run_case(c) for c in cases]

    # ---------------- model ----------------
    def model_input(self, c):
        return f"prun {len(c['evs'])} " + " ".join(enc_pev(e) for e in c["evs"])

    def model_output(self, c, toks):
        t = c05.Toks(toks)

        def digest():
            futs = t.lst(lambda: [t.int(), t.int()])
            errs, nout, refused = t.int(), t.int(), t.int()
            tv = t.lst(lambda: [t.id(), bool(t.int())])
            fk, rk = t.lst(t.id), t.lst(t.id)
            return {"futs": futs, "hooks": errs, "nout": nout, "refused": refused,
                    "tokens": sorted(tv, key=core.canon), "fk": c05.sort_ids(fk), "rk": c05.sort_ids(rk)}
        trace = t.lst(digest)

        def wire():
            k = t.int()
            if k == 0:
                i = t.id(); m = t.int()
                a = t.id() if t.int() else None
                return ["req", i, c05.METHODS[m][0], a if a is not None else ["?", "None"]]
            tok = t.id(); kind = t.int(); v = t.int()
            return ["progress", tok, kind, v]
        out = t.lst(wire)
        spec = t.lst(lambda: ["progress", t.id(), t.int(), t.int()])
        return {"M": {"trace": trace, "out": out}, "S": {"progress": spec}, "guard": True, "klass": None}

    def same(self, c, impl, M):
        return strip_x(impl) == M

    def satisfies(self, c, impl, S):
        """The clauses of C20, judged on the implementation's own trace."""
        if not isinstance(impl, dict):
            return False
        if [o for o in impl["out"] if o[0] == "progress"] != S["progress"]:
            return False
        trace, evs = impl["trace"], c["evs"]
        prev = {"futs": [], "hooks": 0, "nout": 0, "refused": 0, "tokens": [], "x": {"seen": [], "idx": {}, "foreign": []}}
        begun, reg_expect, waiting = set(), set(), []
        created = []                     # per sent create request: (token key, async?)
        for e, d in zip(evs, trace):
            k = e[0]
            seen0, seen1 = prev["x"]["seen"], d["x"]["seen"]
            regs0 = {core.canon(t) for t, _ in prev["tokens"]}
            frames = impl["out"][prev["nout"]:d["nout"]]
            # one cancellation future per token: never shared between tokens, never one that another
            # Progress instance (an earlier server of this process) handed out, and born not cancelled
            idx1, idx0 = d["x"]["idx"], prev["x"]["idx"]
            if len(set(idx1.values())) != len(idx1) or d["x"].get("foreign"):
                return False
            flags0 = {core.canon(t): cf for t, cf in prev["tokens"]}
            for t, cf in d["tokens"]:
                key = core.canon(t)
                if idx0.get(key) != idx1[key]:
                    if cf:
                        return False                               # a freshly registered token is born cancelled
                elif k != "ccancel" or key != core.canon(e[1]):
                    if cf != flags0[key]:
                        return False                               # some other token's cancelled() changed
            changed = [i for i in range(len(seen0)) if seen0[i] != seen1[i]]
            if k == "ccancel":
                key = core.canon(e[1])
                target = prev["x"]["idx"].get(key)
                if any(i != target for i in changed):
                    return False                                   # some other future was touched
                if target is not None and not seen1[target]:
                    return False                                   # the named token's future not cancelled
                if frames or {core.canon(t) for t, _ in d["tokens"]} != regs0 or d["refused"] != prev["refused"]:
                    return False
            else:
                if changed:
                    return False                                   # only a client cancel cancels
            if k in ("create", "acreate"):
                key = core.canon(e[1])
                if key in regs0:
                    if d["refused"] != prev["refused"] + 1 or frames or len(d["futs"]) != len(prev["futs"]):
                        return False                               # must be refused and send nothing
                else:
                    if d["refused"] != prev["refused"] or len(frames) != 1 or len(d["futs"]) != len(prev["futs"]) + 1:
                        return False
                    f = frames[0]
                    if f[0] != "req" or f[2] != CREATE or core.canon(f[3]) != key:
                        return False
                    created.append((key, k == "acreate"))
            if k in KINDS:
                if frames != [["progress", e[1], KINDS.index(k), e[2]]]:
                    return False
                if k == "begin":
                    begun.add(core.canon(e[1]))
            if k == "res" and e[1][0] == "u" and e[1][1] < len(created) and c05.oracle(6, e[2])[0]:
                j = e[1][1]
                if prev["futs"][j][0] == 0:                        # first response while pending: the ack
                    if created[j][1]:
                        waiting.append(created[j][0])
                    else:
                        reg_expect.add(created[j][0])
            if k == "err" and e[1][0] == "u" and e[1][1] < len(created):
                j = e[1][1]
                if prev["futs"][j][0] == 0:                        # the reject of a pending create, in any wire shape:
                    if d["futs"][j] != [2, prev["futs"][j][1]]:    # the future / awaiter fails, on_created does not run
                        return False
            if k == "resume":
                reg_expect |= set(waiting); waiting = []
            # registered iff begun or create acknowledged with a result (and resumed)
            if {core.canon(t) for t, _ in d["tokens"]} != (begun | reg_expect):
                return False
            prev = d
        return True

    def nontrivial(self, c):
        evs = c["evs"]
        toks = {core.canon(e[1]) for e in evs if e[0] in ("create", "acreate", "begin", "report", "end", "ccancel")}
        if len(toks) >= 2:
            return True
        seen_other = False
        for e in evs:
            if e[0] == "res" and seen_other:
                return True
            if e[0] in ("begin", "ccancel", "create", "acreate") and any(x[0] in ("create", "acreate") for x in evs[:evs.index(e)]):
                seen_other = True
        return False

    def shrink(self, c):
        # no shrinking: histories are short, and a candidate would be judged in a process whose
        # module-level state (e.g. a cancellation future shared through a default argument) earlier
        # cases have already changed - the replay must fail on its own in a fresh process
        return []

    def distribution(self, cases):
        d = {}
        for c in cases:
            d[f"len={len(c['evs'])}"] = d.get(f"len={len(c['evs'])}", 0) + 1
            for e in c["evs"]:
                d["op:" + e[0]] = d.get("op:" + e[0], 0) + 1
                if e[0] in ("res", "err"):
                    sh = e[3] if e[0] == "res" and len(e) > 3 else e[5] if e[0] == "err" and len(e) > 5 else 0
                    d[f"wire:{e[0]}/{sh}"] = d.get(f"wire:{e[0]}/{sh}", 0) + 1
        return d


PROPERTY = C20


# ---------------------------------------------------------------------------------------------
# Second tie for class Progress (appended; harness/gen_ast.py, coq/Base/PyMini.v, Proofs/AstProgressEquiv.v):
# the SOURCE TEXT of Progress._check_token_registered / _register_token / create (+ its nested on_created,
# lambda-lifted) / create_async (split at its await) / begin / report / end is translated on every run by a
# fail-closed AST translator into a deep embedding in which calls on the protocol object and on the user
# callback are RECORDED, and the kernel re-checks that the methods do to Progress.tokens exactly what
# Model/Progress.v says (registered, register_token), raise when it says so and make exactly the recorded
# calls that the model's send_request / notify_progress / run_callbacks stand for.  Imported late
# ("Module::theorem") so that a broken translator tie does not hide the other obligations.
import sys as _sys
_sys.path.insert(0, os.path.dirname(os.path.abspath(__file__)))
import gen_c20 as _gen_c20

C20.obligations = list(C20.obligations) + ["Proofs.AstProgressEquiv::" + n for n in (
    "ast_progress_equiv", "ast_progress_model_link", "ast_progress_example")]
C20.coq_targets = list(C20.coq_targets) + ["Proofs/AstProgressEquiv.vo"]
C20.trusted_base = list(C20.trusted_base) + [
    "translator tie: harness/gen_ast.py (Python ast -> PyMini, fail-closed) and the PyMini semantics "
    "coq/Base/PyMini.v (hand-written meaning of the Python subset: dict membership / item assignment / "
    "setdefault over an association list, recorded calls, lambda-lifted nested def, coroutine split at its await)"]
_prev_regenerate = getattr(C20, "regenerate", None)


def _regenerate(self, chk):
    try:
        if _prev_regenerate is not None:
            _prev_regenerate(self, chk)
    finally:
        core.coq_make(["Props/C20.vo", "Extract/ExtractC20.vo"])     # the differential side first
        with core._Lock("coq"):                                      # coq/Gen is shared
            try:
                _gen_c20.main()
            finally:
                core._coq_make(["Proofs/AstProgressEquiv.vo"])


C20.regenerate = _regenerate
