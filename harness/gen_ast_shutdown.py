#!/usr/bin/env python3
"""Translator tie for LanguageServerProtocol.lsp_shutdown / lsp_exit (C09): source text -> coq/Gen/AstShutdown.v.

The two methods use a few constructs PyMini has no statement for.  They are NORMALISED here, on the parsed tree,
before gen_ast's translator sees them; every step is a structural match that fails closed (TranslateError ->
poisoned file) when the source has another shape:

  @lsp_method(types.X) / *args      the registration decorator is dropped (what it registers is checked by
                                    reflection) and so is the variadic parameter, which the body must not mention
  for x in list(self._request_futures.values())
                                    -> for x in self.<"_request_futures.values">: the state of the theorem holds
                                    the SNAPSHOT list(d.values()) (the futures in insertion order) in that field
  x.cancel()   (x the loop variable)-> recorded call "$method.cancel" [x]
  sys.exit(e)  (a statement)        -> recorded call "sys.exit" [e] followed by `return`: sys.exit raises
                                    SystemExit, the function has no try, so nothing after it runs
  fut.add_done_callback(lambda t: sys.exit(rc))
                                    -> recorded call "$method.add_done_callback(lambda:sys.exit)" [fut; rc]
                                    (fut a local, rc a local other than the lambda's parameter, never rebound)
"""
import ast, importlib, os, sys
sys.path.insert(0, os.path.dirname(os.path.abspath(__file__)))
import gen_ast
from gen_ast import translate_module, poison, TranslateError, fail

CLS = "LanguageServerProtocol"
SNAP = "_request_futures.values"
CANCEL = "$method.cancel"
DEFER = "$method.add_done_callback(lambda:sys.exit)"
_METHODS = {"lsp_shutdown": "SHUTDOWN", "lsp_exit": "EXIT"}


def _is_self_attr(e, attr):
    return isinstance(e, ast.Attribute) and e.attr == attr and isinstance(e.value, ast.Name) and e.value.id == "self"


def _mcall(name, args, like):
    mod, attr = name.split(".", 1)
    c = ast.Call(func=ast.Attribute(value=ast.Name(id=mod, ctx=ast.Load()), attr=attr, ctx=ast.Load()),
                 args=args, keywords=[])
    st = ast.Expr(value=c)
    for n in ast.walk(st):
        n.lineno = like.lineno
        n.col_offset = 0
    return st


def _is_sys_exit(v):
    return (isinstance(v, ast.Call) and isinstance(v.func, ast.Attribute) and v.func.attr == "exit"
            and isinstance(v.func.value, ast.Name) and v.func.value.id == "sys" and len(v.args) == 1
            and not v.keywords and not isinstance(v.args[0], ast.Starred))


def normalise(fn):
    """a copy of the FunctionDef in the shape gen_ast translates (see the module docstring)"""
    if not isinstance(fn, ast.FunctionDef):
        fail(fn, "not a plain def")
    a = fn.args
    # decorator: exactly @lsp_method(types.<X>)
    if len(fn.decorator_list) != 1:
        fail(fn, "expected exactly the @lsp_method(..) decorator")
    d = fn.decorator_list[0]
    if not (isinstance(d, ast.Call) and isinstance(d.func, ast.Name) and d.func.id == "lsp_method" and len(d.args) == 1
            and not d.keywords and isinstance(d.args[0], ast.Attribute) and isinstance(d.args[0].value, ast.Name)
            and d.args[0].value.id == "types" and d.args[0].attr == _METHODS[fn.name]):
        fail(d, f"decorator is not lsp_method(types.{_METHODS[fn.name]})")
    # parameters: (self, *args), args never mentioned
    if [p.arg for p in a.args] != ["self"] or a.vararg is None or a.kwarg or a.kwonlyargs or a.posonlyargs or a.defaults:
        fail(fn, "parameters other than (self, *args)")
    va = a.vararg.arg
    for n in ast.walk(fn):
        if isinstance(n, ast.Name) and n.id == va:
            fail(n, "the variadic parameter is used")
        if isinstance(n, (ast.Try, ast.With, ast.AsyncWith)):
            fail(n, "try / with around a sys.exit")
    stores = {}
    for n in ast.walk(fn):
        if isinstance(n, ast.Name) and isinstance(n.ctx, (ast.Store, ast.Del)):
            stores[n.id] = stores.get(n.id, 0) + 1

    def block(stmts, loopvar=None):
        out = []
        for s in stmts:
            # for x in list(self._request_futures.values()):
            if isinstance(s, ast.For) and isinstance(s.iter, ast.Call) and isinstance(s.iter.func, ast.Name) \
                    and s.iter.func.id == "list":
                it = s.iter
                ok = (len(it.args) == 1 and not it.keywords and isinstance(it.args[0], ast.Call)
                      and not it.args[0].args and not it.args[0].keywords
                      and isinstance(it.args[0].func, ast.Attribute) and it.args[0].func.attr == "values"
                      and _is_self_attr(it.args[0].func.value, "_request_futures")
                      and isinstance(s.target, ast.Name) and not s.orelse and loopvar is None)
                if not ok or "list" in stores:
                    fail(s, "loop other than `for x in list(self._request_futures.values())`")
                new_it = ast.Attribute(value=ast.Name(id="self", ctx=ast.Load()), attr=SNAP, ctx=ast.Load())
                for n in ast.walk(new_it):
                    n.lineno, n.col_offset = s.lineno, 0
                s2 = ast.For(target=s.target, iter=new_it, body=block(s.body, s.target.id), orelse=[])
                s2.lineno, s2.col_offset = s.lineno, s.col_offset
                out.append(s2)
                continue
            if isinstance(s, ast.Expr) and isinstance(s.value, ast.Call) and isinstance(s.value.func, ast.Attribute) \
                    and isinstance(s.value.func.value, ast.Name) and s.value.func.value.id != "self":
                v, recv, m = s.value, s.value.func.value.id, s.value.func.attr
                # x.cancel(), x the loop variable
                if m == "cancel" and recv == loopvar and not v.args and not v.keywords and stores.get(recv) == 1:
                    out.append(_mcall(CANCEL, [ast.Name(id=recv, ctx=ast.Load())], s))
                    continue
                # sys.exit(e): never returns
                if _is_sys_exit(v) and "sys" not in stores:
                    out.append(s)
                    r = ast.Return(value=None)
                    r.lineno, r.col_offset = s.lineno, s.col_offset
                    out.append(r)
                    continue
                # fut.add_done_callback(lambda t: sys.exit(rc))
                if m == "add_done_callback" and stores.get(recv) == 1 and len(v.args) == 1 and not v.keywords \
                        and isinstance(v.args[0], ast.Lambda):
                    lam = v.args[0]
                    la = lam.args
                    if (len(la.args) == 1 and not (la.vararg or la.kwarg or la.kwonlyargs or la.posonlyargs or la.defaults)
                            and _is_sys_exit(lam.body) and isinstance(lam.body.args[0], ast.Name)
                            and lam.body.args[0].id not in (la.args[0].arg, "sys") and stores.get(lam.body.args[0].id) == 1
                            and la.args[0].arg != "sys" and "sys" not in stores):
                        out.append(_mcall(DEFER, [ast.Name(id=recv, ctx=ast.Load()),
                                                  ast.Name(id=lam.body.args[0].id, ctx=ast.Load())], s))
                        continue
                    fail(s, "done callback other than `lambda t: sys.exit(<local>)`")
            if isinstance(s, ast.If):
                s2 = ast.If(test=s.test, body=block(s.body, loopvar), orelse=block(s.orelse, loopvar))
                s2.lineno, s2.col_offset = s.lineno, s.col_offset
                out.append(s2)
                continue
            if isinstance(s, (ast.For, ast.While)):
                fail(s, "loop outside the normalised shapes")
            out.append(s)
        return out

    new = ast.FunctionDef(
        name=fn.name, body=block(fn.body), decorator_list=[], returns=None, type_comment=None,
        args=ast.arguments(posonlyargs=[], args=list(a.args), vararg=None, kwonlyargs=[], kw_defaults=[], kwarg=None,
                           defaults=[]))
    new.lineno, new.col_offset = fn.lineno, fn.col_offset
    return new


def _reflect_shutdown():
    import asyncio, inspect
    m = importlib.import_module("pygls.protocol.language_server")
    if m.sys is not sys or m.inspect is not inspect or m.asyncio is not asyncio:
        raise TranslateError("sys / inspect / asyncio are not the standard modules")
    P = m.LanguageServerProtocol
    t = importlib.import_module("lsprotocol.types")
    if m.types is not t or t.SHUTDOWN != "shutdown" or t.EXIT != "exit":
        raise TranslateError("types.SHUTDOWN / types.EXIT")
    if getattr(P.lsp_shutdown, "method_name", None) != "shutdown" or getattr(P.lsp_exit, "method_name", None) != "exit":
        raise TranslateError("lsp_shutdown / lsp_exit are not registered under 'shutdown' / 'exit'")
    # list(d.values()) is the values in insertion order, a fresh list
    d = {3: "a", 1: "b", 2: "c"}
    snap = list(d.values())
    d.pop(1)
    if snap != ["a", "b", "c"]:
        raise TranslateError("list(d.values())")
    try:
        sys.exit(7)
        raise TranslateError("sys.exit returned")
    except SystemExit as e:
        if e.code != 7 or isinstance(e, Exception):
            raise TranslateError("SystemExit")


def gen_shutdown():
    imp = lambda mod: (lambda b: b == ("import", mod, None))
    orig = gen_ast.find_function
    cache = {}

    def find_function(tree, cls, name):
        fn = orig(tree, cls, name)
        if cls == CLS and name in _METHODS:
            if id(fn) not in cache:
                cache[id(fn)] = (fn, normalise(fn))
            return cache[id(fn)][1]
        return fn
    gen_ast.find_function = find_function
    try:
        return translate_module(
            "pygls.protocol.language_server", [(CLS, "lsp_shutdown"), (CLS, "lsp_exit")],
            {"sys": imp("sys"), "inspect": imp("inspect"), "asyncio": imp("asyncio"),
             "$method": lambda b: b is None},
            "AstShutdown.v", _reflect_shutdown,
            opts={"effects": {"writer"},
                  "effect_functions": {"sys.exit", "asyncio.ensure_future", CANCEL, DEFER}})
    except Exception as e:
        poison("AstShutdown.v", repr(e))
        raise
    finally:
        gen_ast.find_function = orig


if __name__ == "__main__":
    print(gen_shutdown())
