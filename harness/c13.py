"""C13 - typed payloads survive the wire for every LSP method.

Case kinds
  trip  one generated helper of BaseLanguageServer / BaseLanguageClient called on a real
        client-server pair in one process (helper -> serialiser -> framing -> run_async ->
        structure_message / handle_message -> handler -> response -> future), with a params
        instance (and a result instance) generated from the attrs field types.
  recv  one raw JSON frame fed through run_async into a fresh LanguageServer endpoint
        (classification rows, generic objects, the finding classes, malformed frames).
  d2o   pygls.protocol._dict_to_object called directly.
  stream several typed messages of different byte lengths in ONE byte stream through the real
        run_async and run, with a failing frame (invalid params, unknown response id, undecodable
        JSON, surplus member, other version) before / between / after them: every well-formed typed
        payload must reach its handler equal to the converter alone on its own frame.
  btrip built-ins ON: for every method LanguageServerProtocol handles itself (except exit) a user
        feature is registered for the same method on a fresh LanguageServer; generated instances
        (for initialize: rootPath / rootUri / workspaceFolders absent / null / set in all
        combinations) arrive through run_async; what the USER handler is given - on entry and after
        the frame - must equal the lsprotocol converter alone on the captured wire JSON.
Model / reference: Model/Registry.v, Spec/RegistrySpec.v through bin/c13_driver; the reflected
tables (gen_c13) are written to coq/Gen/*.v and work/C13/tables.txt on every run."""
import asyncio, collections, copy, enum, json, keyword, logging, os, random, threading, typing
import core
import priv
import gen_c13

NoneType = type(None)
KINDS = {0: "request", 1: "notification", 2: "response", 3: "error"}
CMD = "c13.cmd"
F_A, F_B, F_C, F_D = ("F23a-type-name-key", "F23b-nested-jsonrpc-key", "F23c-array-params-dict-leaves",
                      "F23d-registry-kind-overrides-members")


# ---------------------------------------------------------------- encoding for the driver
def enc_str(s):
    return f"{len(s)} " + " ".join(str(ord(c)) for c in s) if s else "0"


def is_pairs(v):
    return isinstance(v, dict) and set(v) == {"@pairs"}


def members(v):
    return [(k, x) for k, x in v["@pairs"]] if is_pairs(v) else list(v.items())


def enc_json(v):
    if v is None: return "0"
    if v is True: return "1 1"
    if v is False: return "1 0"
    if isinstance(v, int): return f"2 {v}"
    if isinstance(v, float): return "7 " + enc_str(repr(v))
    if isinstance(v, str): return "3 " + enc_str(v)
    if isinstance(v, (list, tuple)):
        return f"4 {len(v)}" + "".join(" " + enc_json(x) for x in v)
    ms = members(v)
    return f"5 {len(ms)}" + "".join(f" {enc_str(k)} {enc_json(x)}" for k, x in ms)


def dumps(v):
    """JSON text of a case value; {"@pairs": [[k, v], ...]} is an object whose members may repeat."""
    if isinstance(v, dict):
        return "{" + ", ".join(json.dumps(k) + ": " + dumps(x) for k, x in members(v)) + "}"
    if isinstance(v, (list, tuple)):
        return "[" + ", ".join(dumps(x) for x in v) + "]"
    return json.dumps(v)


def plain_json(v):
    """the value json.loads gives for the text (duplicates: last value wins)"""
    return json.loads(dumps(v))


class Toks:
    def __init__(self, toks): self.t, self.i = toks, 0
    def int(self):
        self.i += 1
        return int(self.t[self.i - 1])
    def str(self):
        n = self.int()
        return "".join(chr(self.int()) for _ in range(n))
    def ostr(self):
        return self.str() if self.int() else None
    def fields(self):
        return [[self.str(), self.pval()] for _ in range(self.int())]
    def pval(self):
        t = self.int()
        if t == 0: return None
        if t == 1: return bool(self.int())
        if t == 2: return self.int()
        if t == 3: return self.str()
        if t == 7: return {"__f": self.str()}
        if t == 4: return [self.pval() for _ in range(self.int())]
        if t == 5: return {"__d": self.fields()}
        if t == 6:
            tn = self.str()
            return {"__t": tn, "f": self.fields()}
        if t == 8:
            c = self.int()
            return {"__m": c, "f": self.fields()}
        raise ValueError("bad pval tag")
    def leaves(self):
        out = []
        for _ in range(self.int()):
            path = []
            for _ in range(self.int()):
                path.append(self.str() if self.int() == 0 else self.int())
            out.append([path, self.pval()])
        return out


# ---------------------------------------------------------------- canonical form of Python values
def _generic_classes():
    from pygls.protocol import JsonRPCRequestMessage, JsonRPCNotification, JsonRPCResponseMessage
    return [JsonRPCRequestMessage, JsonRPCNotification, JsonRPCResponseMessage]


def canon(o):
    import attrs
    if o is None or isinstance(o, (bool, int, str)) and not isinstance(o, enum.Enum):
        return o
    if isinstance(o, enum.Enum):
        return {"__e": type(o).__name__, "v": canon(o.value)}
    if isinstance(o, float):
        return {"__f": repr(o)}
    if isinstance(o, tuple) and hasattr(o, "_fields"):
        return {"__t": type(o).__name__, "f": [[n, canon(v)] for n, v in zip(o._fields, o)]}
    if isinstance(o, (list, tuple)):
        return [canon(x) for x in o]
    if isinstance(o, dict):
        return {"__d": [[k, canon(v)] for k, v in o.items()]}
    if attrs.has(type(o)):
        gs = _generic_classes()
        fs = [[f.name, canon(getattr(o, f.name))] for f in attrs.fields(type(o))]
        if type(o) in gs:
            return {"__m": gs.index(type(o)), "f": fs}
        return {"__a": type(o).__name__, "f": fs}
    return {"__x": type(o).__name__}


def py_of(c):
    """Python value described by a model value (for applying the real converter to it)"""
    if isinstance(c, list): return [py_of(x) for x in c]
    if isinstance(c, dict):
        if "__f" in c: return float(c["__f"])
        if "__d" in c: return {k: py_of(v) for k, v in c["__d"]}
        if "__m" in c: return _generic_classes()[c["__m"]](**{k: py_of(v) for k, v in c["f"]})
        if "__t" in c:
            return collections.namedtuple(c["__t"], [k for k, _ in c["f"]], rename=True)(*[py_of(v) for _, v in c["f"]])
    return c


def cget(c, path):
    """getattr / index along a path on a canonical value; (found, value)"""
    for s in path:
        if isinstance(s, int):
            if isinstance(c, list) and s < len(c): c = c[s]
            else: return False, None
        else:
            if isinstance(c, dict) and "__t" in c:
                hit = [v for k, v in c["f"] if k == s]
                if not hit: return False, None
                c = hit[0]
            else:
                return False, None
    return True, c


def leaves_hold(c, leaves):
    for path, leaf in leaves:
        ok, v = cget(c, path)
        if not ok or v != leaf or type(v) is not type(leaf):
            return False
    return True


# ---------------------------------------------------------------- instances from attrs field types
class Gen:
    """Recursive generator over attrs classes, unions, optionals, enums, sequences, literals, maps."""
    def __init__(self, rng, depth=4):
        self.rng, self.maxdepth, self.populated = rng, depth, 0

    def string(self):
        r = self.rng
        return r.choice(["", "a", "file:///a/b.py", "héllo", "x\ny", "\U0001F60B", "type_name", "snake_case",
                         "q\"uote\\", "".join(r.choice("abcXYZ _-/$") for _ in range(r.randint(1, 8)))])

    def key(self):
        return self.rng.choice(["a", "b", "camelCase", "snake_case", "type_name", "x y", "1", "class", "_u"])

    def any_(self, d):
        r = self.rng
        k = r.randint(0, 6 if d < self.maxdepth else 3)
        if k == 0: return None
        if k == 1: return r.choice([True, False])
        if k == 2: return r.randint(-5, 10 ** 6)
        if k == 3: return self.string()
        if k == 4: return [self.any_(d + 1) for _ in range(r.randint(0, 3))]
        return {self.key(): self.any_(d + 1) for _ in range(r.randint(0, 3))}

    def gen(self, tp, d=0):
        import attrs
        from lsprotocol import types as t
        r = self.rng
        if tp is None or tp is NoneType: return None
        if tp is typing.Any: return self.any_(d)
        if tp is str: return self.string()
        if tp is bool: return r.choice([True, False])
        if tp is int: return r.choice([0, 1, r.randint(0, 2 ** 31 - 1)])
        if tp is float: return r.choice([0.5, 1.0, 0.25, 3.0, 0.0])
        o = typing.get_origin(tp)
        if o is typing.Union:
            args = list(typing.get_args(tp))
            non = [a for a in args if a is not NoneType]
            if NoneType in args and (d >= self.maxdepth or r.random() < 0.3):
                return None
            self.populated += 1
            return self.gen(r.choice(non), d)
        if o is typing.Literal:
            return r.choice(typing.get_args(tp))
        if o in (collections.abc.Sequence, list):
            (a,) = typing.get_args(tp)
            n = 0 if d >= self.maxdepth else r.randint(0, 2)
            self.populated += 1
            return [self.gen(a, d + 1) for _ in range(n)]
        if o is tuple:
            return tuple(self.gen(a, d + 1) for a in typing.get_args(tp))
        if o in (dict, collections.abc.Mapping):
            ka, va = typing.get_args(tp)
            n = 0 if d >= self.maxdepth else r.randint(0, 2)
            return {self.gen(ka, d + 1): self.gen(va, d + 1) for _ in range(n)}
        if isinstance(tp, type) and issubclass(tp, enum.Enum):
            self.populated += 1
            return r.choice(list(tp))
        if tp is t.LSPObject:
            return {self.key(): self.any_(d + 1) for _ in range(r.randint(0, 2))}
        if isinstance(tp, type) and attrs.has(tp):
            kw = {}
            for f in attrs.fields(tp):
                if not f.init: continue
                if f.default is not attrs.NOTHING and (d >= self.maxdepth or r.random() < 0.35):
                    continue
                opts = getattr(f.validator, "options", None)
                kw[f.name] = r.choice(list(opts)) if opts is not None else self.gen(f.type, d + 1)
            return tp(**kw)
        raise TypeError(f"no generator for {tp!r}")


def falsy_values(tp):
    """the falsy values a (result) type admits: null, empty array / tuple / map, 0, false, "" """
    from lsprotocol import types as t
    out = []
    def add(v):
        if not any(type(v) is type(x) and v == x for x in out): out.append(v)
    def walk(tp):
        if tp is None or tp is NoneType: add(None); return
        if tp is typing.Any:
            for v in (None, 0, False, "", {}, []): add(v)
            return
        if tp is bool: add(False)
        elif tp is int: add(0)
        elif tp is float: add(0.0)
        elif tp is str: add("")
        elif tp is t.LSPObject: add({})
        o = typing.get_origin(tp)
        if o is typing.Union:
            for a in typing.get_args(tp): walk(a)
        elif o in (collections.abc.Sequence, list): add([])
        elif o is tuple and not typing.get_args(tp): add(())
        elif o in (dict, collections.abc.Mapping): add({})
    walk(tp)
    return out


def camel(name):
    new = name[:-1] if name.endswith("_") else name
    parts = new.split("_")
    return parts[0] + "".join(p.title() for p in parts[1:])


def wire_names_ok(inst, wire):
    """Every populated attrs field appears on the wire under its camelCase name and the wire
    object has no member that is not the camelCase name of a field, at every depth."""
    import attrs
    if isinstance(inst, enum.Enum):
        return wire == inst.value
    if isinstance(inst, (list, tuple)):
        return isinstance(wire, list) and len(wire) == len(inst) and all(wire_names_ok(a, b) for a, b in zip(inst, wire))
    if inst is not None and attrs.has(type(inst)):
        if not isinstance(wire, dict): return False
        names = {camel(f.name): f.name for f in attrs.fields(type(inst))}
        if any(k not in names for k in wire): return False
        for cn, pn in names.items():
            v = getattr(inst, pn)
            if v is not None and cn not in wire: return False
            if cn in wire and not wire_names_ok(v, wire[cn]): return False
        return True
    if isinstance(inst, dict):
        return isinstance(wire, dict) and set(map(str, inst)) == set(wire)
    return True


def py_name(method):
    """the helper name prescribed for a method (scripts/generate_code.py)"""
    return "".join("_" + c.lower() if c.isupper() else c for c in method).replace("/", "_").replace("$_", "")


# ---------------------------------------------------------------- a client-server pair in one process
class PipeWriter:
    """one direction of the in-process connection; `hold` delays delivery (latency on the wire)"""
    def __init__(self, reader, log):
        self.reader, self.log, self.held = reader, log, None
    def write(self, data):
        self.log.append(bytes(data))
        if self.held is not None:
            self.held.append(bytes(data))
        else:
            self.reader.feed_data(data)
    def hold(self):
        self.held = []
    def release(self):
        held, self.held = self.held or [], None
        for d in held:
            self.reader.feed_data(d)
    def close(self):
        self.reader.feed_eof()


def frames(chunks):
    buf, out = b"".join(chunks), []
    while buf:
        head, sep, rest = buf.partition(b"\r\n\r\n")
        if not sep: break
        n = [int(l.split(b":")[1]) for l in head.split(b"\r\n") if l.lower().startswith(b"content-length")][0]
        out.append(json.loads(rest[:n]))
        buf = rest[n:]
    return out


class Pair:
    def __init__(self, lazy=False):
        """lazy: no handler is registered at creation; register(side, method) adds one later (pygls allows
        registration at any time: the history between protocol creation and a trip is part of the case)"""
        from lsprotocol import types as t
        from pygls.lsp.server import LanguageServer
        from pygls.lsp.client import BaseLanguageClient
        from pygls.io_ import run_async
        self.server, self.client = LanguageServer("c13-server", "1"), BaseLanguageClient("c13-client", "1")
        self.ends = {"Server": self.server, "Client": self.client}
        self.readers = {"Server": asyncio.StreamReader(), "Client": asyncio.StreamReader()}
        self.writers = {}
        self.out = {"Server": [], "Client": []}          # bytes written by that side
        self.handled = {"Server": [], "Client": []}      # objects given to handle_message on that side
        self.got = {"Server": [], "Client": []}          # handler invocations on that side
        self.errors = {"Server": [], "Client": []}
        self.results = {}
        self.stop = threading.Event()
        for side, other in (("Server", "Client"), ("Client", "Server")):
            end, p = self.ends[side], self.ends[side].protocol
            keep = p.fm.builtin_features.get(t.WORKSPACE_EXECUTE_COMMAND)
            p.fm.builtin_features.clear()                # built-ins are C14's (exit / shutdown would stop the pair)
            if keep is not None:
                p.fm.builtin_features[t.WORKSPACE_EXECUTE_COMMAND] = keep
            self.writers[side] = PipeWriter(self.readers[other], self.out[side])
            p.set_writer(self.writers[side])
            real = p.handle_message
            def spy(message, real=real, side=side):
                self.handled[side].append(message)
                return real(message)
            p.handle_message = spy
            end.report_server_error = (lambda e, src, side=side: self.errors[side].append(type(e).__name__))
        self.registered = set()
        if not lazy:
            for m in t.METHOD_TO_TYPES:
                d = t.message_direction(m)
                for side in ("Server", "Client"):
                    receives = d == "both" or (d == "clientToServer") == (side == "Server")
                    if receives:
                        self.register(side, m)
        self.tasks = [asyncio.ensure_future(run_async(self.stop, self.readers[s], self.ends[s].protocol, None,
                                                      priv.error_handler(self.ends[s]))) for s in ("Server", "Client")]

    def register(self, side, m):
        """register the recording handler for method m on that side (once)"""
        from lsprotocol import types as t
        if (side, m) in self.registered:
            return
        self.registered.add((side, m))
        if m == t.WORKSPACE_EXECUTE_COMMAND:
            if side == "Server":
                def cmd(*args):
                    self.got["Server"].append((t.WORKSPACE_EXECUTE_COMMAND, args))
                    return self.results.get(t.WORKSPACE_EXECUTE_COMMAND)
                self.server.command(CMD)(cmd)
            return
        def h(*args, m=m, side=side):
            self.got[side].append((m, args))
            return self.results.get(m)
        self.ends[side].feature(m)(h)

    def reset(self):
        for w in self.writers.values():
            w.release()
        for d in (self.out, self.handled, self.got, self.errors):
            for s in d: d[s].clear()
        self.results.clear()

    async def close(self):
        self.stop.set()
        for r in self.readers.values():
            try: r.feed_eof()
            except Exception: pass
        try:
            await asyncio.wait_for(asyncio.gather(*self.tasks, return_exceptions=True), 5)
        except Exception:
            for t_ in self.tasks: t_.cancel()
        tp = priv.thread_pool_slot(self.server)
        if tp: tp.shutdown(wait=False)


# ---------------------------------------------------------------- the property
class C13(core.Property):
    id = "C13"
    modules = ["Proofs.RegistryProofs", "Props.C13"]
    obligations = ["classify_by_members_only", "classify_agrees_jsonrpc", "route_is_classify",
                   "id_presence_not_value", "route_independent_of_id_value",
                   "handler_gets_structure", "result_type_of_requested_method", "rtype_survives_other_ids",
                   "reply_structured_as_requested", "generic_paths_preserved", "generic_leaves_reachable", "generic_handler_gets_object",
                   "spec_leaves_sound", "helpers_ok_sound", "helpers_ok_current", "trip_reference_agrees",
                   "C13_reference_agrees", "C13_partial", "C13_refuted_type_name", "C13_refuted_nested_jsonrpc",
                   "C13_refuted_array_params", "C13_refuted_kind_mismatch", "C13_refuted", "C13_nonvacuous", "C13_falsy_ids", "user_feature_gets_params", "stream_frame_delivered", "trip_after_history"]
    coq_targets = ["Props/C13.vo", "Extract/ExtractC13.vo"]
    rule = ("trip: every helper of the regenerated table x n seeded instances of its params (and result) type; "
            "non-trivial = the params instance has >= 1 optional/union/enum/sequence field populated (or the method "
            "has a result type); plus per helper the receiver's histories before the trip on one fresh pair "
            "(message of the same method before / after the late registration of its handler, then the trip). recv: all 8 id/method/error rows x unknown / registry request / registry "
            "notification methods x payload shapes, responses to outstanding requests, random generic objects with "
            "identifier / non-identifier / keyword / underscore / rename-colliding member names at several depths, the "
            "finding classes and a malformed stream; non-trivial = nested payload or a member needing rename. "
            "d2o: _dict_to_object on random JSON values, same rule.")
    trusted_base = ["Coq 8.16.1 kernel incl. vm_compute (regenerated finite theorem helpers_ok_current, refutation witnesses, Examples)",
                    "extraction with ExtrOcamlBasic only + ocaml/c13_driver.ml + conv_io/conv_n/conv_z",
                    "harness/gen_c13.py (reflection translator: METHOD_TO_TYPES rows, helpers invoked against a recording stub)",
                    "harness/c13.py (instance generator, in-process client-server pair, canonicalisation)",
                    "oracle, exercised not proved: lsprotocol/cattrs structure/unstructure (Section variable `structure`)",
                    "modelled not verified: collections.namedtuple(rename=True), str.isidentifier/keyword.iskeyword on ASCII, "
                    "json.loads object_hook order, dict insertion order, attrs generic classes' __init__",
                    priv.trusted(["server.error_handler", "client.error_handler", "server.thread_pool", "protocol_module.dict_to_object"])]
    private = ["server.error_handler", "client.error_handler", "server.thread_pool"]   # (dict_to_object has a public fall-back)
    assumptions = ["member names of generic payloads are ASCII (str.isidentifier is modelled on ASCII only)",
                   "objects on the wire have pairwise distinct member names (duplicates are modelled but the statement is silent)",
                   "ids are ints or strings; an incoming request's id is not the id of an own outstanding request (finding 21, C05)",
                   "built-in features are switched off on the pair except workspace/executeCommand (dispatch order is C14's)"]

    def __init__(self):
        self.reg, self.helpers = None, None
        self.extra_coverage = {}

    # ---------------- tables ----------------
    def regenerate(self, chk):
        logging.disable(logging.CRITICAL)
        self.reg, self.helpers, changed = gen_c13.generate()
        self._write_tables()
        self.extra_coverage = {"registry_methods": len(self.reg), "helpers": len(self.helpers), "tables_changed": changed}
        # the extracted model does not depend on the tables: build it even if the finite theorem breaks
        ok, log = core.coq_make(["Extract/ExtractC13.vo"])
        if not ok:
            chk.notes.append("extraction cone failed: " + log[-600:])

    def _ensure_tables(self):
        if self.reg is None:
            logging.disable(logging.CRITICAL)
            try:
                self.reg, self.helpers = gen_c13.reflect_registry(), gen_c13.reflect_helpers()
            except Exception as ex:
                # fail-closed: regenerate() has already reported the failure (the check cannot pass);
                # carry on with what can still be reflected so that a failing input may be found
                self.reflect_error = repr(ex)
                self.reflect_broken = []
                try:
                    self.reg = gen_c13.reflect_registry()
                except Exception:
                    self.reg = []
                try:
                    self.helpers = gen_c13.reflect_helpers(strict=False, broken=self.reflect_broken)
                except Exception:
                    self.helpers = []
            self._write_tables()

    def _mrow(self, r):
        d = {"ClientToServer": 0, "ServerToClient": 1, "BothDir": 2}[r["dir"]]
        o = lambda s: "0" if s is None else "1 " + enc_str(s)
        return f"{enc_str(r['name'])} {int(r['request'])} {d} {enc_str(r['msg'])} {o(r['res'])} {o(r['par'])}"

    def _hrow(self, h):
        k = {"HNotify": 0, "HSendRequest": 1, "HSendRequestAsync": 2}[h["kind"]]
        return f"{0 if h['side'] == 'Server' else 1} {enc_str(h['name'])} {enc_str(h['method'])} {k} {int(h['params'])} {int(h['callback'])}"

    def _write_tables(self):
        os.makedirs(os.path.join(core.ROOT, "work", "C13"), exist_ok=True)
        txt = (f"setreg {len(self.reg)} " + " ".join(self._mrow(r) for r in self.reg) + "\n" +
               f"sethelpers {len(self.helpers)} " + " ".join(self._hrow(h) for h in self.helpers) + "\n")
        p = os.path.join(core.ROOT, "work", "C13", "tables.txt")
        if not os.path.exists(p) or open(p).read() != txt:
            open(p + ".tmp", "w").write(txt)
            os.replace(p + ".tmp", p)

    def _types(self):
        from lsprotocol import types as t, converters
        if not hasattr(self, "_fresh"):
            self._fresh = converters.get_converter()        # the lsprotocol converter alone
        return t

    def _spec_method(self, side, name):
        """registry method a helper called `name` on `side` stands for (Python twin of spec_helper)"""
        t = self._types()
        base = name[:-6] if name.endswith("_async") else name
        for m, (msg, res, par, _o) in t.METHOD_TO_TYPES.items():
            d = t.message_direction(m)
            sends = d == "both" or (d == "serverToClient") == (side == "Server")
            if sends and py_name(m) == (base if res is not None else name):
                return m
        return None

    # ---------------- generation ----------------
    def generate(self, chk):
        self._ensure_tables()
        rng = chk.rng
        cases = []
        cdir = os.path.join(core.ROOT, "corpus", "C13")
        if os.path.isdir(cdir):
            for f in sorted(os.listdir(cdir)):
                if f.endswith(".json"):
                    cases.extend(json.load(open(os.path.join(cdir, f))))
        # trips: every helper x n instances
        # per helper n instances; for requests the slots ROTATE (by seed and helper) through: plain trips,
        # falsy result values admitted by the method's result type, and histories - what the requester
        # does between the request and its (delayed) reply
        n = chk.n(10, 50)
        OPS = [["cancel"], ["second"], ["note"], ["stray"], ["cancel", "note", "second", "stray"], ["stray", "cancel"],
               ["second", "cancel"], ["note", "note"]]
        for hi, h in enumerate(self.helpers):
            rot = chk.seed + hi
            for j in range(n):
                c = {"k": "trip", "side": h["side"], "helper": h["name"], "seed": rng.randrange(10 ** 9)}
                if h["kind"] != "HNotify":
                    slot = j % 10
                    if slot in (0, 1, 6):
                        c["falsy"] = rot + j // 10 * 3 + slot
                    if slot in (2, 3, 4, 5, 6):
                        c["ops"] = OPS[(rot + j) % len(OPS)]
                cases.append(c)
            # histories of the RECEIVER between its creation and the trip, on one protocol instance: earlier
            # messages of the same method arrive before / after the handler is registered (a request for a
            # method nobody listens to is answered MethodNotFound, a notification is ignored), then the trip
            for j in range(chk.n(len(self.PRE), 4 * len(self.PRE))):
                cases.append({"k": "trip", "side": h["side"], "helper": h["name"], "seed": rng.randrange(10 ** 9),
                              "pre": self.PRE[(rot + j) % len(self.PRE)]})
        cases.extend(self._recv_cases(chk))
        cases.extend(self._btrip_cases(chk))
        cases.extend(self._stream_cases(chk))
        for _ in range(chk.n(6000, 40000)):
            cases.append({"k": "d2o", "j": self._rjson(rng, rng.choice([0, 0, 0, 1, 2]), top=True)})
        for c in cases:
            if c["k"] == "trip" and "pop" not in c:
                c["pop"] = self._trip_instances(c)[3]
        return cases

    PRE = [["msg", "reg"], ["reg", "msg"], ["msg", "msg", "reg"]]

    KEYS_GOOD = ["a", "b", "foo", "count", "index", "x1", "camelCase", "snake_case", "A", "type_name", "Object"]
    KEYS_BAD = ["1a", "b c", "", "a-b", "$x", "a.b", "9"]
    KEYS_US = ["_x", "_1", "_0", "__class__", "_", "_2", "_fields"]
    KEYS_SOFT = ["match", "case", "type"]

    def _rkey(self, rng):
        k = rng.random()
        if k < 0.5: return rng.choice(self.KEYS_GOOD)
        if k < 0.65: return rng.choice(self.KEYS_BAD)
        if k < 0.8: return rng.choice(keyword.kwlist)
        if k < 0.93: return rng.choice(self.KEYS_US)
        return rng.choice(self.KEYS_SOFT)

    def _rscalar(self, rng):
        return rng.choice([None, True, False, 0, 1, -7, 2 ** 40, "", "s", "type_name", "é\U0001F60B", 1.5, "2.0"])

    def _rjson(self, rng, depth, top=False, obj=False):
        """random JSON value; top=True: usually an object, and never with a top-level type_name member"""
        k = rng.random()
        if depth <= 0 and not obj and (not top or k < 0.1):
            return self._rscalar(rng)
        if obj or k < (0.8 if top else 0.45):
            d = {}
            for _ in range(rng.randint(0, 4)):
                key = self._rkey(rng)
                if top and key == "type_name": continue
                d[key] = self._rjson(rng, depth - 1)
            return d
        if k < (0.92 if top else 0.7):
            return [self._rjson(rng, depth - 1) for _ in range(rng.randint(0, 3))]
        return self._rscalar(rng)

    def _recv_cases(self, chk):
        rng = chk.rng
        J = "2.0"
        out = []
        pos = {"textDocument": {"uri": "file:///a"}, "position": {"line": 1, "character": 2}}
        op = {"textDocument": {"uri": "file:///a", "languageId": "x", "version": 1, "text": "t"}}
        err = {"code": -32001, "message": "boo"}
        def add(wire, sends=(), **kw):
            c = {"k": "recv", "sends": [list(s) for s in sends], "wire": wire}
            c.update(kw)
            out.append(c)
        # the 8 rows x kinds of method x extra members x id values (falsy, string/int look-alikes, big):
        # classification is by PRESENCE of the members, whatever the value of the id
        IDS = [0, "", 1, "a", "0", 2 ** 53]
        OTHER = "own-1"
        for i in (0, 1):
            for idv in (IDS if i else [None]):
                for m in (0, 1):
                    for e in (0, 1):
                        for meth, params in (("x/unknown", {"a": {"b": 1}}), ("textDocument/hover", pos),
                                             ("textDocument/didOpen", op), ("x/unknown", None)):
                            if not m and meth != "x/unknown": continue
                            for ownm in (None, "x/sent", "textDocument/hover"):
                                # a response answers OUR request sent under the caller-chosen id idv;
                                # a request never uses the id of an own outstanding request
                                own = () if ownm is None else ((ownm, idv if (i and (e or not m)) else OTHER),)
                                for extra in ((), ("result",), ("params",)):
                                    w = {"jsonrpc": J}
                                    if i: w["id"] = idv
                                    if m: w["method"] = meth
                                    if e: w["error"] = err
                                    if "params" in extra or (m and params is not None and "result" not in extra):
                                        w["params"] = params
                                    if "result" in extra:
                                        w["result"] = {"contents": "c"} if ownm == "textDocument/hover" else {"r": [1, {"s": 2}]}
                                    add(w, own)
        # look-alike ids: a reply whose id differs from the outstanding one only in JSON type (or is
        # another falsy value) answers nothing
        for sent, back in ((0, "0"), ("0", 0), (0, ""), ("", 0), (1, "1"), ("a", "A"), (2 ** 53, str(2 ** 53)), (0, 1)):
            for ownm in ("x/sent", "textDocument/hover"):
                add({"jsonrpc": J, "id": back, "result": {"contents": "c"}}, [(ownm, sent)])
                add({"jsonrpc": J, "id": back, "error": err}, [(ownm, sent)])
                add({"jsonrpc": J, "id": back, "result": None}, [(ownm, sent), ("y/sent", 77)])
        # responses to outstanding requests: generic and typed, several ids
        for _ in range(chk.n(800, 3000)):
            ids = rng.sample([1, 2, 3, "a", "b", "uuid-4", 10 ** 12], rng.randint(1, 3))
            sends = [(rng.choice(["x/sent", "y/sent", "textDocument/hover", "shutdown", "textDocument/definition"]), i) for i in ids]
            tm, ti = rng.choice(sends)
            if rng.random() < 0.15: ti = rng.choice([99, "zz"])
            if rng.random() < 0.25:
                w = {"jsonrpc": J, "id": ti, "error": {"code": rng.choice([-32601, -32001, 1, -32800]), "message": "m"}}
            elif tm == "textDocument/hover":
                w = {"jsonrpc": J, "id": ti, "result": rng.choice([None, {"contents": "c"}, {"contents": {"kind": "markdown", "value": "v"}, "range": {"start": {"line": 0, "character": 0}, "end": {"line": 1, "character": 1}}}, {"bogus": 1}])}
            elif tm == "shutdown":
                w = {"jsonrpc": J, "id": ti, "result": None}
            elif tm == "textDocument/definition":
                w = {"jsonrpc": J, "id": ti, "result": rng.choice([None, [], {"uri": "file:///d", "range": {"start": {"line": 0, "character": 0}, "end": {"line": 1, "character": 1}}}])}
            else:
                w = {"jsonrpc": J, "id": ti, "result": self._rjson(rng, rng.choice([0, 1, 2, 3]), top=True)}
            add(w, sends)
        # replies to requests whose result type admits null, in every member shape a JSON-RPC peer may put
        # on the wire: explicit null / result member left out, members in another order, a member JSON-RPC
        # does not name next to them; the methods come from the regenerated registry, ids rotate
        nm = self._null_result_methods()
        RID = [1, "a", 0, "", "0", 2 ** 53, "uuid-4", 7]
        per = max(1, chk.n(360, 3000) // max(1, len(nm) * len(self.NULL_SHAPES)))
        for k, meth in enumerate(nm):
            for r in range(per):
                for sn, shape in enumerate(self.NULL_SHAPES):
                    idv = RID[(chk.seed + k + sn + 3 * r) % len(RID)]
                    vals = {"jsonrpc": J, "id": idv, "result": None, "x-extra": [1, "s", None, {"a": 1}][(k + r) % 4]}
                    others = [("y/sent", "other-9")] if (k + sn + r) % 3 == 0 else []
                    add({m_: vals[m_] for m_ in shape}, [(meth, idv)] + others, shape="/".join(shape))
        # unknown methods: random generic payloads
        for _ in range(chk.n(4000, 25000)):
            w = {"jsonrpc": J, "method": rng.choice(["x/unknown", "y/other", "textDocument/notInRegistry"])}
            if rng.random() < 0.5: w["id"] = rng.choice([1, 2, "r-1", 10 ** 10])
            if rng.random() < 0.95: w["params"] = self._rjson(rng, rng.choice([0, 1, 2, 3]), top=True)
            add(w)
        # F23a: top-level type_name member
        for tn in ("Foo", "class", 5, None, True, "", "1x", "_ok", {"a": 1}, ["x"], "None", "Object"):
            for other in ({"a": 1}, {"a": {"b": [1, {"c": 2}]}, "type_name_2": 1}):
                p = dict(other); p["type_name"] = tn
                add({"jsonrpc": J, "method": "x/unknown", "params": p}, klass=F_A)
                add({"jsonrpc": J, "id": 3, "method": "x/unknown", "params": p}, klass=F_A)
        add({"jsonrpc": J, "id": 5, "result": {"type_name": "T", "v": 1}}, [("x/sent", 5)], klass=F_A)
        # F23b: a nested object with a jsonrpc member
        nests = [{"jsonrpc": J, "method": "m"}, {"jsonrpc": "x"}, {"jsonrpc": J, "id": 9}, {"jsonrpc": J, "method": "m", "params": {"k": 1}},
                 {"jsonrpc": J, "id": 9, "method": "q", "zz": 1}, {"jsonrpc": J, "id": 9, "method": "q"}, {"jsonrpc": 1, "method": "m", "params": [1]}]
        for nst in nests:
            add({"jsonrpc": J, "method": "x/unknown", "params": {"s": nst}}, klass=F_B)
            add({"jsonrpc": J, "id": 4, "method": "x/unknown", "params": {"deep": [{"s": nst}]}}, klass=F_B)
            add({"jsonrpc": J, "method": "workspace/didChangeConfiguration", "params": {"settings": nst}}, klass=F_B)
            add({"jsonrpc": J, "method": "workspace/didChangeConfiguration", "params": {"settings": {"python": {"x": nst}}}}, klass=F_B)
            add({"jsonrpc": J, "id": 5, "result": {"v": nst}}, [("x/sent", 5)], klass=F_B)
        # F23c: array-valued params / result keep dict leaves
        for arr in ([{"a": 1}], [1, [2, {"b": {"c": 3}}]], [[], {}], [{"a": [{"b": 1}]}, "s"]):
            add({"jsonrpc": J, "method": "x/unknown", "params": arr}, klass=F_C)
            add({"jsonrpc": J, "id": 2, "method": "x/unknown", "params": arr}, klass=F_C)
            add({"jsonrpc": J, "id": 5, "result": arr}, [("x/sent", 5)], klass=F_C)
        for arr in ([], [1, "a", None], [[1], [2, [3]]]):        # arrays without objects are inside the guard
            add({"jsonrpc": J, "method": "x/unknown", "params": arr})
        # F23d: the registry's kind of a method overrides the id member
        add({"jsonrpc": J, "id": 1, "method": "textDocument/didOpen", "params": op}, klass=F_D)
        add({"jsonrpc": J, "id": "k", "method": "initialized", "params": {}}, klass=F_D)
        add({"jsonrpc": J, "method": "textDocument/hover", "params": pos}, klass=F_D)
        add({"jsonrpc": J, "method": "shutdown"}, klass=F_D)
        # registry methods with valid and invalid payloads
        for w in ({"jsonrpc": J, "id": 1, "method": "textDocument/hover", "params": pos},
                  {"jsonrpc": J, "id": 1, "method": "textDocument/hover", "params": {"position": 3}},
                  {"jsonrpc": J, "id": 1, "method": "textDocument/hover"},
                  {"jsonrpc": J, "method": "textDocument/didOpen", "params": op},
                  {"jsonrpc": J, "method": "textDocument/didOpen", "params": {"textDocument": 1}},
                  {"jsonrpc": J, "method": "workspace/didChangeConfiguration", "params": {"settings": {"a": {"type_name": "x", "class": [1, {"b": 2}]}}}},
                  {"jsonrpc": J, "id": 2, "method": "shutdown"},
                  {"jsonrpc": J, "method": "$/progress", "params": {"token": "t", "value": {"kind": "begin", "title": "x"}}}):
            add(w)
        # malformed / outside the statement: compared with the model, never judged
        for w in ({"method": "x/unknown", "params": {}}, {"jsonrpc": "1.0", "method": "x/unknown", "params": {}},
                  {"jsonrpc": 2.0, "method": "x/unknown"}, {"jsonrpc": J, "method": "x/unknown", "foo": 1},
                  {"jsonrpc": J, "id": 1, "method": "x/unknown", "result": 1}, [1, 2], [{"jsonrpc": J, "method": "x/unknown"}], 7, "s", None,

                  {"@pairs": [["jsonrpc", J], ["method", "x/unknown"], ["params", {"@pairs": [["a", 1], ["b", 2], ["a", 3]]}]]},
                  {"@pairs": [["jsonrpc", J], ["method", "x/unknown"], ["method", "y/other"], ["params", {"a": {"@pairs": [["k", {"jsonrpc": J}], ["k", 1]]}}]]},
                  {"jsonrpc": J, "id": [1], "method": "x/unknown"}, {"jsonrpc": J, "id": None, "method": "x/unknown", "params": {"a": 1}},
                  {"jsonrpc": J, "id": {"a": 1}, "error": err}, {"jsonrpc": J, "id": [1], "result": 1}):
            add(w, malformed=True)
        add({"jsonrpc": J, "id": 1, "method": "x/unknown", "params": {"é": 1, "a": 2}}, malformed=True, nomodel=True)
        # an incoming request under the id of an own outstanding request (finding 21 of C05: the
        # two tables are shared between directions): model = implementation only
        for own in (("x/sent", 5), ("textDocument/hover", 5), ("shutdown", "k")):
            for meth, params in (("x/unknown", {"a": 1}), ("textDocument/hover", pos)):
                add({"jsonrpc": J, "id": own[1], "method": meth, "params": params}, [own], malformed=True)
        return out

    NULL_SHAPES = [("jsonrpc", "id", "result"), ("jsonrpc", "id"), ("id", "jsonrpc"), ("result", "id", "jsonrpc"),
                   ("id", "result", "jsonrpc"), ("jsonrpc", "id", "result", "x-extra"), ("jsonrpc", "id", "x-extra"),
                   ("x-extra", "id", "jsonrpc")]

    def _result_admits_null(self, method):
        import attrs
        t = self._types()
        try:
            e = t.METHOD_TO_TYPES.get(method)
        except TypeError:
            return False
        if e is None or e[1] is None:
            return False
        rt = {f.name: f.type for f in attrs.fields(e[1])}.get("result")
        return any(v is None for v in falsy_values(rt))

    def _null_result_methods(self):
        """request methods of the regenerated registry whose result type admits null"""
        self._ensure_tables()
        return [r["name"] for r in self.reg if r["request"] and self._result_admits_null(r["name"])]

    # ---- streams: several typed messages in one byte stream, a failing frame at every position ----
    BAD = ("invalid-params", "unknown-response-id", "undecodable", "extra-member", "version-1.0", "invalid-request-params")

    def _stream_methods(self):
        t = self._types()
        skip = {t.WORKSPACE_EXECUTE_COMMAND, t.CANCEL_REQUEST}
        return [m for m in t.METHOD_TO_TYPES if t.message_direction(m) != "serverToClient" and m not in skip]

    def _stream_cases(self, chk):
        rng = chk.rng
        ms = self._stream_methods()
        out = []
        for _ in range(chk.n(40, 400)):
            good = [["good", rng.choice(ms), rng.randrange(10 ** 9)] for _ in range(rng.randint(2, 4))]
            bad = rng.choice(self.BAD)
            for pos in range(len(good) + 1):                 # the failing frame before / between / after
                out.append({"k": "stream", "frames": good[:pos] + [["bad", bad]] + good[pos:]})
            if rng.random() < 0.3:                           # two failing frames in a row, then typed ones
                out.append({"k": "stream", "frames": [["bad", bad], ["bad", rng.choice(self.BAD)]] + good})
        return out

    def _stream_frames(self, c):
        """per frame: (body bytes, wire JSON or None, registry type or None, valid?)"""
        import attrs
        t = self._types()
        frames = []
        for n, f in enumerate(c["frames"]):
            if f[0] == "good":
                m = f[1]
                msg, res, par, _o = t.METHOD_TO_TYPES[m]
                is_req = "id" in {a.name for a in attrs.fields(msg)}
                wire = None
                for attempt in range(30):
                    g = Gen(random.Random(f[2] + 7919 * attempt))
                    params = g.gen(par) if par is not None else None
                    try:
                        kw = {"id": f"s-{n}"} if is_req else {}
                        wire = self._fresh.unstructure(msg(method=m, params=params, jsonrpc="2.0", **kw))
                        self._fresh.structure(copy.deepcopy(wire), msg)
                        break
                    except Exception:
                        wire = None
                frames.append((json.dumps(wire).encode("utf-8"), wire, msg, True))
            else:
                kind = f[1]
                if kind == "undecodable":
                    frames.append((b'{"jsonrpc": "2.0", "method": "textDocument/didOpen", "params": {', None, None, False))
                    continue
                wire = {"invalid-params": {"jsonrpc": "2.0", "method": "textDocument/didOpen", "params": {"textDocument": 1}},
                        "invalid-request-params": {"jsonrpc": "2.0", "id": f"b-{n}", "method": "textDocument/hover", "params": {"position": "x"}},
                        "unknown-response-id": {"jsonrpc": "2.0", "id": "nobody-asked", "result": {"a": 1}},
                        "extra-member": {"jsonrpc": "2.0", "method": "x/unknown", "params": {}, "surplus": True},
                        "version-1.0": {"jsonrpc": "1.0", "method": "textDocument/didOpen", "params": {}}}[kind]
                e = t.METHOD_TO_TYPES.get(wire.get("method"))
                frames.append((json.dumps(wire).encode("utf-8"), wire, e[0] if e else None, False))
        return frames

    async def _stream(self, c):
        from pygls.io_ import run_async, run
        import io
        t = self._types()
        frames = self._stream_frames(c)
        data = b"".join(b"Content-Length: %d\r\n\r\n" % len(b) + b for b, _w, _t, _v in frames)
        expected = [(w["method"], self._fresh.structure(copy.deepcopy(w), tp).params) for _b, w, tp, v in frames if v]
        obs = {}
        for loop_kind in ("run_async", "run"):
            s = self._endpoint()
            p = s.protocol
            got = []
            class W:
                def write(self, d): pass
                def close(self): pass
            p.set_writer(W())
            s.report_server_error = lambda e, src: None
            for m in {w["method"] for _b, w, _t, _v in frames if w and isinstance(w.get("method"), str)}:
                def h(*args, m=m):
                    got.append((m, args[0]))
                    return None
                try: s.feature(m)(h)
                except Exception: pass
            if loop_kind == "run_async":
                reader = asyncio.StreamReader()
                reader.feed_data(data); reader.feed_eof()
                await run_async(threading.Event(), reader, p, None, priv.error_handler(s))
                for _ in range(3): await asyncio.sleep(0)
            else:
                run(threading.Event(), io.BytesIO(data), p, None, priv.error_handler(s))
            # delivered typed payloads, in order, each judged against the converter alone on ITS frame
            seq = []
            k = 0
            for m, params in got:
                if m == "x/unknown": continue
                while k < len(expected) and expected[k][0] != m: k += 1
                seq.append([m, k < len(expected) and params == expected[k][1]])
                k += 1
            obs[loop_kind] = seq
        return obs

    # ---- built-ins ON: a user feature registered for a method pygls also handles itself ----
    def _builtin_methods(self):
        from pygls.lsp.server import LanguageServer
        t = self._types()
        s = LanguageServer("c13-b", "1", converter_factory=lambda: self._conv())
        return [m for m in sorted(s.protocol.fm.builtin_features) if m != t.EXIT and m in t.METHOD_TO_TYPES]

    def _btrip_cases(self, chk):
        rng = chk.rng
        out = []
        for m in self._builtin_methods():
            variants = [None]
            if m == "initialize":
                # the optional / deprecated members the built-in reads, in all combinations
                variants = [{"root_path": rp, "root_uri": ru, "workspace_folders": wf}
                            for rp in ("absent", None, "/work/project", "rel/dir")
                            for ru in (None, "file:///work/uri")
                            for wf in ("absent", None, [], [{"uri": "file:///w1", "name": "w1"}])]
            for v in variants:
                for _ in range(chk.n(2 if v else 12, 6 if v else 120)):
                    c = {"k": "btrip", "method": m, "seed": rng.randrange(10 ** 9)}
                    if v: c["force"] = v
                    out.append(c)
        return out

    def _conv(self):
        from pygls.protocol import default_converter
        if not hasattr(self, "_shared_conv"):
            self._shared_conv = default_converter()
        return self._shared_conv

    def _btrip_wire(self, c):
        """(setup frames, the frame under test) as wire JSON, from seeded instances"""
        import attrs
        t = self._types()
        m = c["method"]
        msg, res, par, _o = t.METHOD_TO_TYPES[m]
        is_req = "id" in {f.name for f in attrs.fields(msg)}
        U, NB = "file:///c13/doc.txt", "file:///c13/book.ipynb"
        params = None
        for attempt in range(30):
            g = Gen(random.Random(c["seed"] + 7919 * attempt))
            params = g.gen(par) if par is not None else None
            f = c.get("force")
            if f:
                kw = {k: v for k, v in f.items() if v != "absent"}
                if kw.get("workspace_folders"):
                    kw["workspace_folders"] = [t.WorkspaceFolder(**w) for w in kw["workspace_folders"]]
                for k in f:
                    if f[k] == "absent": kw[k] = None
                params = attrs.evolve(params, **kw)
            if m == t.WORKSPACE_EXECUTE_COMMAND:
                params = attrs.evolve(params, command=CMD)
            if m in (t.TEXT_DOCUMENT_DID_CHANGE, t.TEXT_DOCUMENT_DID_CLOSE):
                params = attrs.evolve(params, text_document=attrs.evolve(params.text_document, uri=U))
            if m == t.TEXT_DOCUMENT_DID_CHANGE:
                # edits that a conforming client could send for the open text "ab\ncd\n"
                ch = []
                for x in params.content_changes:
                    if hasattr(x, "range"):
                        l0, c0 = g.rng.randint(0, 2), g.rng.randint(0, 3)
                        x = attrs.evolve(x, range=t.Range(t.Position(l0, c0), t.Position(l0 + g.rng.randint(0, 1), c0 + g.rng.randint(0, 2))))
                    ch.append(x)
                params = attrs.evolve(params, content_changes=ch)
            if m in (t.NOTEBOOK_DOCUMENT_DID_CHANGE, t.NOTEBOOK_DOCUMENT_DID_CLOSE):
                params = attrs.evolve(params, notebook_document=attrs.evolve(params.notebook_document, uri=NB))
            if m == t.NOTEBOOK_DOCUMENT_DID_CHANGE:
                params = attrs.evolve(params, change=attrs.evolve(params.change, cells=None))
            if m == t.NOTEBOOK_DOCUMENT_DID_CLOSE:
                params = attrs.evolve(params, cell_text_documents=[])
            try:
                kw = {"id": 41} if is_req else {}
                wire = self._fresh.unstructure(msg(method=m, params=params, jsonrpc="2.0", **kw))
                self._fresh.structure(wire, msg)
                break
            except Exception:
                continue
        if f:
            # "absent" = the member is not on the wire at all; None = explicit null where lsprotocol keeps it
            for k, v in f.items():
                ck = camel(k)
                if v == "absent": wire["params"].pop(ck, None)
                elif v is None: wire["params"][ck] = None
        setup = []
        if m not in (t.INITIALIZE,):
            setup.append({"jsonrpc": "2.0", "id": 40, "method": "initialize",
                          "params": {"capabilities": {}, "rootUri": "file:///c13", "processId": None}})
        if m in (t.TEXT_DOCUMENT_DID_CHANGE, t.TEXT_DOCUMENT_DID_CLOSE):
            setup.append({"jsonrpc": "2.0", "method": "textDocument/didOpen",
                          "params": {"textDocument": {"uri": U, "languageId": "x", "version": 1, "text": "ab\ncd\n"}}})
        if m in (t.NOTEBOOK_DOCUMENT_DID_CHANGE, t.NOTEBOOK_DOCUMENT_DID_CLOSE):
            setup.append({"jsonrpc": "2.0", "method": "notebookDocument/didOpen",
                          "params": {"notebookDocument": {"uri": NB, "notebookType": "n", "version": 1, "cells": []},
                                     "cellTextDocuments": []}})
        return setup, wire

    async def _btrip(self, c):
        from pygls.lsp.server import LanguageServer
        from pygls.io_ import run_async
        t = self._types()
        m = c["method"]
        setup, wire = self._btrip_wire(c)
        s = LanguageServer("c13-b", "1", converter_factory=lambda: self._conv())
        p = s.protocol
        written, seen = [], []
        class W:
            def write(self, d): written.append(bytes(d))
            def close(self): pass
        p.set_writer(W())
        s.report_server_error = lambda e, src: None
        def user(*args):
            seen.append((args[0], copy.deepcopy(args[0])))     # the object, and what it looked like on entry
            return None
        s.feature(m)(user)
        s.command(CMD)(lambda *a: None)
        reader = asyncio.StreamReader()
        for w in setup + [wire]:
            body = json.dumps(w).encode("utf-8")
            reader.feed_data(b"Content-Length: %d\r\n\r\n" % len(body) + body)
        reader.feed_eof()
        await run_async(threading.Event(), reader, p, None, priv.error_handler(s))
        for _ in range(3):
            await asyncio.sleep(0)
        tp = priv.thread_pool_slot(s)
        if tp: tp.shutdown(wait=False)
        expected = self._fresh.structure(copy.deepcopy(wire), t.METHOD_TO_TYPES[m][0]).params
        if len(seen) != 1:
            return [len(seen), None, None]
        obj, entry = seen[0]
        return [1, entry == expected, obj == expected]

    # ---------------- implementation ----------------
    def run_impl(self, chk, cases):
        logging.disable(logging.CRITICAL)
        self._ensure_tables()
        out = [None] * len(cases)
        loop = asyncio.new_event_loop()
        try:
            asyncio.set_event_loop(loop)
            loop.run_until_complete(self._run_all(cases, out))
        finally:
            try:
                loop.run_until_complete(loop.shutdown_asyncgens())
            except Exception:
                pass
            asyncio.set_event_loop(None)
            loop.close()
        return out

    async def _run_all(self, cases, out):
        pair = None
        for n, c in enumerate(cases):
            try:
                if c["k"] == "trip":
                    if c.get("pre"):                     # the receiver's whole life is part of the case: own pair
                        own = Pair(lazy=True)
                        try:
                            out[n] = await asyncio.wait_for(self._trip(own, c), 20)
                        except Exception as ex:
                            out[n] = ["raise", type(ex).__name__]
                        await own.close()
                        continue
                    if pair is None:
                        pair = Pair()
                    try:
                        out[n] = await asyncio.wait_for(self._trip(pair, c), 20)
                    except Exception as ex:
                        out[n] = ["raise", type(ex).__name__]
                        await pair.close()
                        pair = None
                elif c["k"] == "recv":
                    out[n] = await asyncio.wait_for(self._recv(c), 20)
                elif c["k"] == "btrip":
                    out[n] = await asyncio.wait_for(self._btrip(c), 20)
                elif c["k"] == "stream":
                    out[n] = await asyncio.wait_for(self._stream(c), 30)
                else:
                    out[n] = self._d2o(c)
            except Exception as ex:
                out[n] = ["raise", type(ex).__name__]
        if pair is not None:
            await pair.close()

    def _trip_instances(self, c):
        """(method the name stands for, params instance, result instance, populated count)"""
        import attrs
        t = self._types()
        m = self._spec_method(c["side"], c["helper"])
        if m is None:
            return None, None, None, 0
        msg, res, par, _o = t.METHOD_TO_TYPES[m]
        # "valid value" = a value the lsprotocol converter alone can take back from its own JSON
        # (a few generated unions cannot be restructured by lsprotocol itself: resample)
        for attempt in range(30):
            g = Gen(random.Random(c["seed"] + 7919 * attempt))
            params = g.gen(par) if par is not None else None
            if m == t.WORKSPACE_EXECUTE_COMMAND:
                params = attrs.evolve(params, command=CMD)
            pop = g.populated
            result = None
            try:
                kw = {"id": 1} if "id" in {f.name for f in attrs.fields(msg)} else {}
                self._fresh.structure(self._fresh.unstructure(msg(method=m, params=params, jsonrpc="2.0", **kw)), msg)
                if res is not None:
                    rt = {f.name: f.type for f in attrs.fields(res)}["result"]
                    result = g.gen(rt)
                    fv = falsy_values(rt) if "falsy" in c else []
                    if fv:
                        result = copy.deepcopy(fv[c["falsy"] % len(fv)])
                    pop += 1
                    self._fresh.structure(self._fresh.unstructure(res(id=1, result=result, jsonrpc="2.0")), res)
                break
            except Exception:
                self.oracle_rejected = getattr(self, "oracle_rejected", 0) + 1
                continue
        return m, params, result, pop

    async def _trip(self, pair, c):
        t = self._types()
        side = c["side"]
        other = "Client" if side == "Server" else "Server"
        sender = pair.ends[side]
        fn = getattr(sender, c["helper"], None)
        if fn is None:
            return ["no-helper"]
        m, params, result, _pop = self._trip_instances(c)
        if c.get("pre") and m is not None:
            pair.results[m] = result
            await self._prehistory(pair, c, side, other, m)
        pair.reset()
        if m is not None:
            pair.results[m] = result
        row = self._helper_row(c)
        ops = c.get("ops", []) if row["kind"] != "HNotify" else []
        cbvals = []
        state, value = "sent", None
        try:
            if ops:
                pair.writers[other].hold()               # the reply is on its way while the requester goes on
            if row["kind"] == "HSendRequest" and row["callback"]:
                r = fn(params, lambda v: cbvals.append(v))
            else:
                r = fn(params)
            waiter = None
            if asyncio.iscoroutine(r):
                waiter = asyncio.ensure_future(r)
            elif r is not None and hasattr(r, "add_done_callback"):
                waiter = asyncio.wrap_future(r)
            if ops:
                for _ in range(2000):
                    await asyncio.sleep(0)
                    if pair.writers[other].held or pair.errors[side] or pair.errors[other]:
                        break
                first = frames(pair.out[side])
                await self._history(pair, c, side, other, ops, first[0].get("id") if first else None, params)
                pair.writers[other].release()
            base = (len(pair.errors[side]), len(pair.errors[other]))
            # run the loop until the trip is over: the future is done, or an endpoint reported an
            # error (a rejected frame leaves the future pending for ever), or nothing moves any more
            idle = 0
            for _ in range(4000):
                await asyncio.sleep(0)
                if waiter is not None and waiter.done():
                    break
                if (len(pair.errors[side]), len(pair.errors[other])) != base:
                    idle += 1
                elif waiter is None and pair.handled[other]:
                    idle += 5
                if idle > 20:
                    break
            if waiter is None:
                pass
            elif waiter.done():
                value = waiter.result(); state = "result"
                for _ in range(50):                      # bounded wait for the callback shape
                    if cbvals: break
                    await asyncio.sleep(0)
            else:
                waiter.cancel(); state = "pending"
        except Exception as ex:
            state = "error:" + type(ex).__name__
        sent = frames(pair.out[side])
        if (len(sent) != 1 and not ops) or not sent:
            return ["frames", len(sent), state]
        wire = sent[0]
        wm, has_id = wire.get("method"), "id" in wire
        entry = t.METHOD_TO_TYPES.get(wm)
        names_ok = wire_names_ok(params, wire.get("params")) and wire.get("jsonrpc") == "2.0"
        handled = pair.handled[other]
        msg_type, params_eq, handler_same = None, None, None
        if ops and handled:
            handled = handled[:1]
        if len(handled) == 1:
            msg = handled[0]
            msg_type = type(msg).__name__
            if entry is not None:
                try:
                    direct = self._fresh.structure(wire, entry[0])
                    params_eq = (msg.params == direct.params) and type(msg) is entry[0]
                except Exception:
                    params_eq = "oracle-fails"
            calls = pair.got[other][:1] if ops else pair.got[other]
            if wm == t.CANCEL_REQUEST:
                handler_same = not calls           # taken by _handle_notification itself
            elif wm == t.WORKSPACE_EXECUTE_COMMAND:
                handler_same = len(calls) == 1 and calls[0][1][0] is msg.params.arguments
            else:
                handler_same = len(calls) == 1 and calls[0][0] == wm and calls[0][1][0] is msg.params
        replies = [f for f in frames(pair.out[other]) if "id" in f and f.get("id") == wire.get("id") and "method" not in f]
        route = -1
        if len(handled) == 1:
            route = 0 if (has_id and len(replies) == 1) else (1 if not replies else -1)
        res_type, result_eq, cb_eq = None, None, None
        if has_id and len(replies) == 1:
            back = [b for b in pair.handled[side] if getattr(b, "id", None) == wire.get("id") and not hasattr(b, "method")]
            if len(back) == 1:
                res_type = type(back[0]).__name__
                if entry is not None and entry[1] is not None and state == "result":
                    try:
                        direct = self._fresh.structure(replies[0], entry[1])
                        exact = lambda v: v == direct.result and type(v) is type(direct.result)
                        result_eq = exact(value) and type(back[0]) is entry[1] and "error" not in replies[0]
                        if row["kind"] == "HSendRequest":        # the callback shape of the same requester
                            cb_eq = "never-called" if not cbvals else (len(cbvals) == 1 and exact(cbvals[0]))
                    except Exception:
                        result_eq = "oracle-fails"
                else:
                    result_eq = False
        return [wm, has_id, msg_type, route, res_type, params_eq, handler_same, result_eq, names_ok, cb_eq]

    NOTE_HELPER = {"Client": "initialized", "Server": "window_log_message"}

    async def _prehistory(self, pair, c, side, other, m):
        """what happened on this pair before the trip: earlier messages of the same method, the (late)
        registration of its handler on the receiving side"""
        sender = pair.ends[side]
        row = self._helper_row(c)
        for n, op in enumerate(c["pre"]):
            if op == "reg":
                pair.register(other, m)
                continue
            _m, p2, _r, _p = self._trip_instances({"side": side, "helper": c["helper"], "seed": c["seed"] + 1 + n})
            seen, fut = len(pair.handled[other]), None
            if row["kind"] == "HNotify":
                getattr(sender, c["helper"])(p2)
            else:
                base = c["helper"][:-6] if c["helper"].endswith("_async") else c["helper"]
                fut = getattr(sender, base)(p2)
                if hasattr(fut, "add_done_callback"):
                    fut.add_done_callback(lambda f: f.cancelled() or f.exception())
            for _ in range(2000):
                await asyncio.sleep(0)
                if (fut.done() if hasattr(fut, "done") else len(pair.handled[other]) > seen):
                    break
            for _ in range(30):
                await asyncio.sleep(0)

    async def _history(self, pair, c, side, other, ops, wire_id, params):
        """what a requester may do while its request is pending (the reply is held on the wire)"""
        t = self._types()
        sender = pair.ends[side]
        for n, op in enumerate(ops):
            if op == "cancel":
                sender.cancel_request(t.CancelParams(id=wire_id))
            elif op == "second":
                base = c["helper"][:-6] if c["helper"].endswith("_async") else c["helper"]
                getattr(sender, base)(params)
            elif op == "note":
                name = self.NOTE_HELPER[side]
                _m, p2, _r, _p = self._trip_instances({"side": side, "helper": name, "seed": c["seed"] + n})
                getattr(sender, name)(p2)
            elif op == "stray":
                body = json.dumps({"jsonrpc": "2.0", "id": f"c13-stray-{n}", "result": {"a": 1}}).encode()
                pair.readers[side].feed_data(b"Content-Length: %d\r\n\r\n" % len(body) + body)
            for _ in range(30):
                await asyncio.sleep(0)

    def _history_events(self, c):
        """the same history for the model: Model.ev"""
        row = self._helper_row(c)
        evs = []
        for n, op in enumerate(c.get("pre", [])):        # earlier messages of the same requester
            if op == "msg":
                evs.append(("1 " + enc_str(row["method"])) if row["kind"] == "HNotify" else
                           ("0 " + enc_str(row["method"]) + " " + enc_json(f"c13-pre-{n}")))
        if row["kind"] == "HNotify":
            return evs
        for n, op in enumerate(c.get("ops", [])):
            if op == "cancel": evs.append("1 " + enc_str("$/cancelRequest"))
            elif op == "second": evs.append("0 " + enc_str(row["method"]) + " " + enc_json(f"c13-second-{n}"))
            elif op == "note":
                h = next((x for x in self.helpers if x["side"] == c["side"] and x["name"] == self.NOTE_HELPER[c["side"]]), None)
                evs.append("1 " + enc_str(h["method"] if h else ""))
            elif op == "stray":
                evs.append("2 " + enc_json({"jsonrpc": "2.0", "id": f"c13-stray-{n}", "result": {"a": 1}}))
        return evs

    def _endpoint(self):
        from pygls.lsp.server import LanguageServer
        from pygls.protocol import default_converter
        if not hasattr(self, "_shared_conv"):
            self._shared_conv = default_converter()
        s = LanguageServer("c13-recv", "1", converter_factory=lambda: self._shared_conv)
        s.protocol.fm.builtin_features.clear()
        return s

    async def _recv(self, c):
        from pygls.io_ import run_async
        s = self._endpoint()
        p = s.protocol
        written, got, hook = [], [], []
        class W:
            def write(self, d): written.append(bytes(d))
            def close(self): pass
        p.set_writer(W())
        def report(e, src):
            from pygls.exceptions import FeatureRequestError
            if src is not FeatureRequestError:
                hook.append(getattr(e, "code", None) if hasattr(e, "to_response_error") else None)
        s.report_server_error = report
        wire = c["wire"]
        meth = None
        if isinstance(wire, dict):
            for k, v in members(wire):
                if k == "method": meth = v
        if isinstance(meth, str) and meth:
            def h(*args):
                got.append(args)
                return None
            try:
                s.feature(meth)(h)
            except Exception:
                pass
        futs = []
        for m, i in c["sends"]:
            futs.append((i, p.send_request(m, None, msg_id=i)))
        written.clear(); hook.clear()
        body = dumps(wire).encode("utf-8")
        reader = asyncio.StreamReader()
        reader.feed_data(b"Content-Length: %d\r\n\r\n" % len(body) + body)
        reader.feed_eof()
        await run_async(threading.Event(), reader, p, None, priv.error_handler(s))
        for _ in range(3):
            await asyncio.sleep(0)
        has_id = isinstance(wire, dict) and any(k == "id" for k, _ in members(wire))
        hs = [["req" if (has_id and len(a) >= 1 and self._replied(written)) else "note", canon(a[0]) if a else None] for a in got]
        replies = []
        for f in frames(written):
            if "method" in f: continue
            replies.append([canon(f.get("id")), f["error"]["code"] if "error" in f else "ok"])
        fs = []
        for i, f in futs:
            if not f.done(): st = ["pending"]
            elif f.exception() is not None: st = ["exc", getattr(f.exception(), "code", None)]
            else: st = ["res", canon(f.result())]
            fs.append([canon(i), st])
        return {"h": hs, "replies": replies, "futs": fs, "reported": bool(hook)}

    @staticmethod
    def _replied(written):
        return any("method" not in f for f in frames(written))

    def _d2o(self, c):
        d2o = priv.dict_to_object()          # (outside the observed call)
        try:
            return ["ok", canon(d2o(copy.deepcopy(c["j"])))]
        except Exception:
            return ["raise"]

    # ---------------- model ----------------
    def _helper_row(self, c):
        self._ensure_tables()
        for h in self.helpers:
            if h["side"] == c["side"] and h["name"] == c["helper"]:
                return h
        return {"side": c["side"], "name": c["helper"], "method": "", "kind": "HNotify", "params": False, "callback": False}

    def _oracle_flag(self, c):
        """what the lsprotocol converter does with the top-level object: 0 ok, 1 ClassValidationError, 2 other"""
        t = self._types()
        from cattrs.errors import ClassValidationError
        wire = c["wire"]
        if not isinstance(wire, dict): return 0
        try:
            w = plain_json(wire)
        except Exception:
            return 0
        tp = None
        if "id" in w and "error" in w:
            tp = t.ResponseErrorMessage
        elif "method" in w:
            try:
                e = t.METHOD_TO_TYPES.get(w["method"])
            except TypeError:
                e = None
            tp = e[0] if e else None
        elif "id" in w:
            for m, i in c["sends"]:
                if i == w["id"] and type(i) is type(w["id"]):
                    e = t.METHOD_TO_TYPES.get(m)
                    tp = e[1] if e else None
        if tp is None: return 0
        try:
            self._fresh.structure(w, tp)
            return 0
        except ClassValidationError:
            return 1
        except Exception:
            return 2

    def model_input(self, c):
        k = c["k"]
        if k == "trip":
            evs = self._history_events(c)
            return f"trip {self._hrow(self._helper_row(c))} {enc_json('c13-id')} {len(evs)} " + " ".join(evs)
        if k == "d2o":
            return "d2o " + enc_json(c["j"])
        if k == "stream":
            from cattrs.errors import ClassValidationError
            frames = self._stream_frames(c)
            flags, parts = [], []
            for _b, w, tp, v in frames:
                if w is None:
                    parts.append("0"); continue
                parts.append("1 " + enc_json(w))
                if tp is not None and w.get("jsonrpc") is not None:
                    try:
                        self._fresh.structure(copy.deepcopy(w), tp); flags.append(0)
                    except ClassValidationError: flags.append(1)
                    except Exception: flags.append(2)
            return f"stream {len(flags)} " + " ".join(map(str, flags)) + f" {len(parts)} " + " ".join(parts)
        if k == "btrip":
            return "builtin 1 1"
        sends = f"{len(c['sends'])}" + "".join(f" {enc_str(m)} {enc_json(i)}" for m, i in c["sends"])
        return f"recv {sends} {self._oracle_flag(c)} {enc_json(c['wire'])}"

    def _typed(self, tyname, payload):
        """apply the real lsprotocol converter to what the model says pygls asks it for"""
        t = self._types()
        return self._fresh.structure(py_of(payload), getattr(t, tyname))

    def model_output(self, c, toks):
        k = c["k"]
        T = Toks(toks)
        if toks and toks[0] == "DRIVER-ERROR":
            return {"M": ["driver-error"], "S": None, "guard": True}
        if k == "trip":
            def trip():
                if not T.int(): return None
                m = T.str(); hid = bool(T.int()); ty = T.str(); route = T.int(); rt = T.ostr()
                req = route == 0
                return [m, hid, ty, route, rt if req else None, True, True, True if req and rt else None, True]
            row = self._helper_row(c)
            S = trip() or ["no-registry-method-for-this-name"]
            M = trip() or ["helper-raises"]
            # the callback shape: prescribed for the sync request helper (by its name), present in the
            # model iff the row says the helper passes `callback` on
            if len(S) > 1: S.append(True if (S[3] == 0 and S[4] and not c["helper"].endswith("_async")) else None)
            if len(M) > 1: M.append(True if (M[3] == 0 and M[4] and row["kind"] == "HSendRequest" and row["callback"]) else None)
            return {"M": M, "S": S, "guard": True, "klass": None}
        if k == "d2o":
            M = ["ok", T.pval()] if T.int() else ["raise"]
            g, has_tn, deep, arr, wf = [bool(T.int()) for _ in range(5)]
            leaves = T.leaves()
            guard = (not has_tn) and (not arr) and wf
            klass = F_A if has_tn else (F_C if arr else None)
            return {"M": M, "S": {"leaves": leaves}, "guard": guard, "klass": klass}
        if k == "stream":
            t = self._types()
            frames = self._stream_frames(c)
            n = T.int()
            seq = []
            for (_b, w, tp, v), _ in zip(frames, range(n)):
                tag = T.int()
                if tag == 1:
                    ty = T.str(); same = bool(T.int())
                    seq.append([w["method"], same and tp is not None and ty == tp.__name__])
            S = [[w["method"], True] for _b, w, _tp, v in frames if v]
            return {"M": {"run_async": seq, "run": seq}, "S": {"run_async": S, "run": S}, "guard": True, "klass": None}
        if k == "btrip":
            # model: the user's feature is called once with the structured params, which the built-in
            # cannot have written to; reference: the converter alone on the wire JSON (computed by
            # the implementation side against the captured frame)
            n, same, _order = T.int(), bool(T.int()), bool(T.int())
            return {"M": [n, same, same], "S": [1, True, True], "guard": True, "klass": None}
        return self._recv_model(c, T)

    def _recv_model(self, c, T):
        tag = T.int()
        M = {"h": [], "replies": [], "futs": None, "reported": False}
        unmodelled, route = False, -1
        def message(which):
            if T.int() == 0:
                cls = T.int(); fields = dict(T.fields())
                return fields.get(which)
            ty = T.str(); payload = T.pval()
            try:
                o = self._typed(ty, payload)
                return canon(getattr(o, which))
            except Exception:
                return {"__oracle_fails": ty}
        resolved = {}
        if tag == 0:
            if T.int(): T.int()
            M["reported"] = True
        elif tag == 1:
            code = T.int()
            M["replies"] = [[T.pval(), T.int()] for _ in range(T.int())]
            M["reported"] = True
        elif tag == 2:
            i = T.pval(); payload = message("params")
            how = T.int()      # _send_response: 0 = the class looked up for the id is None (TypeError), 1 generic, 2 typed
            M["h"] = [["req", payload]]; M["replies"] = [[i, "ok" if how else -32603]]; route = 0
        elif tag == 3:
            M["h"] = [["note", message("params")]]; route = 1
        elif tag == 4:
            i = T.pval(); payload = message("result"); known = bool(T.int())
            if known: resolved[json.dumps(i)] = ["res", payload]
            else: M["reported"] = True
            route = 2
        elif tag == 5:
            i = T.pval(); err = message("error"); known = bool(T.int())
            code = None
            if isinstance(err, dict):
                code = dict(err.get("f", [])).get("code")
            if known: resolved[json.dumps(i)] = ["exc", code]
            else: M["reported"] = True
            route = 3
        else:
            unmodelled = True
        futs_after = [T.pval() for _ in range(T.int())]
        _rt_after = [T.pval() for _ in range(T.int())]
        nested = bool(T.int())
        g, has_tn, deep, arr, wf = [bool(T.int()) for _ in range(5)]
        leaves = T.leaves()
        M["futs"] = [[canon(i), resolved.get(json.dumps(canon(i)), ["pending"])] for _m, i in c["sends"]]
        if unmodelled:
            return {"M": "unmodelled", "S": None, "guard": False, "klass": None}
        # ---- the reference: JSON-RPC 2.0 kind from the members, payload by name / by the converter alone
        S, guard, klass = None, True, c.get("klass")
        wire = c["wire"]
        ok_shape = isinstance(wire, dict) and not is_pairs(wire) and not c.get("malformed")
        if ok_shape:
            w = wire
            hid, hm, he = "id" in w, "method" in w, "error" in w
            # Spec.spec_kind: id + error is an error response (also when a method member is there: JSON-RPC
            # has no such object and this is the reading that settles the sender's request), method
            # without id is a notification (also with an error member), no id and no method: nothing
            kind = {(True, True, False): 0, (False, True, False): 1, (False, True, True): 1,
                    (True, False, True): 3, (True, True, True): 3, (True, False, False): 2}.get((hid, hm, he))
            allowed = {0: {"jsonrpc", "id", "method", "params"}, 1: {"jsonrpc", "method", "params"},
                       2: {"jsonrpc", "id", "result"}, 3: {"jsonrpc", "id", "error", "method", "params"}}
            t = self._types()
            idok = (not hid) or (isinstance(w["id"], (int, str)) and not isinstance(w["id"], bool))
            clash = kind == 0 and any(i == w["id"] and type(i) is type(w["id"]) for _m, i in c["sends"])
            outstanding = [m for m, i in c["sends"] if hid and i == w["id"] and type(i) is type(w["id"])]
            basic = (kind is not None and w.get("jsonrpc") == "2.0" and idok and not clash
                     and (not hm or isinstance(w["method"], str))
                     and (kind in (0, 1) or outstanding))
            # a reply whose result is null or left out, to a request whose result type admits null, is a
            # null result whatever else the object carries: judged exactly (the converter alone on this JSON)
            null_reply = (kind == 2 and basic and w.get("result") is None and not nested
                          and self._result_admits_null(outstanding[0]))
            if basic and not null_reply and not (set(w) <= allowed[kind] and (kind != 2 or "result" in w)):
                # members beyond the ones JSON-RPC names (or a response without result): only the
                # classification itself is judged - a request is answered (result or error) under its
                # id, nothing else is ever answered
                if not nested:
                    S = {"route": kind, "id": canon(w.get("id")), "coarse": True}
                    e_ = t.METHOD_TO_TYPES.get(w["method"]) if kind in (0, 1) else None
                    if e_ is not None and (("id" in {f.name for f in __import__("attrs").fields(e_[0])}) != (kind == 0)):
                        guard, klass = False, klass or F_D
            elif (kind in (2, 3) and w.get("jsonrpc") == "2.0" and idok and not outstanding and not nested
                  and set(w) <= allowed[kind]):
                # a (well-formed) reply to nothing we sent: no future may be touched, nothing dispatched
                S = {"route": kind, "stray": True}
            elif basic:
                entry = t.METHOD_TO_TYPES.get(w["method"]) if kind in (0, 1) else t.METHOD_TO_TYPES.get(outstanding[0])
                S = {"route": kind, "id": canon(w.get("id"))}
                if kind == 3:
                    S["code"] = w["error"].get("code") if isinstance(w["error"], dict) else None
                elif entry is None:
                    S["leaves"] = leaves
                    guard = g and not nested and wf
                    if not guard and klass is None:
                        klass = F_B if (deep or nested) else F_A if has_tn else F_C if arr else None
                else:
                    tp = entry[0] if kind in (0, 1) else entry[1]
                    try:
                        direct = self._fresh.structure(copy.deepcopy(w), tp)
                        S["payload"] = canon(direct.params if kind in (0, 1) else direct.result)
                    except Exception:
                        S = None          # not a valid payload for the type the method prescribes
                    mismatch = kind in (0, 1) and (("id" in {f.name for f in __import__("attrs").fields(entry[0])}) != (kind == 0))
                    if mismatch:
                        S = {"route": kind, "id": canon(w.get("id")), "any_payload": True}
                    guard = not nested and not mismatch
                    if not guard and klass is None:
                        klass = F_D if mismatch else F_B
        else:
            guard = False
        if S is None:
            # outside the statement: the model is still compared (tie) unless the case is one the
            # model does not cover (non-ASCII member names)
            guard = not c.get("nomodel") and not c.get("klass")
        return {"M": M, "S": S, "guard": guard, "klass": klass if not guard else None}

    # ---------------- comparison ----------------
    @staticmethod
    def _route(impl):
        if not isinstance(impl, dict): return -1
        if impl["h"]:
            return 0 if impl["h"][0][0] == "req" else 1
        for _i, st in impl["futs"] or []:
            if st[0] == "res": return 2
            if st[0] == "exc": return 3
        return -1

    def satisfies(self, c, impl, S):
        if c["k"] in ("trip", "btrip", "stream"):
            return impl == S
        if c["k"] == "d2o":
            return impl[0] == "ok" and leaves_hold(impl[1], S["leaves"])
        if not isinstance(impl, dict):
            return False
        r = S["route"]
        jeq = lambda a, b: core.canon(a) == core.canon(b)      # same JSON type and value (0 is not "0" / false)
        if S.get("stray"):
            return impl["h"] == [] and impl["replies"] == [] and all(st == ["pending"] for _i, st in impl["futs"])
        if S.get("coarse"):
            if r == 0:
                return len(impl["replies"]) == 1 and jeq(impl["replies"][0][0], S["id"])
            return impl["replies"] == [] and (r == 1 or impl["h"] == [])
        if self._route(impl) != r:
            return False
        if r == 0 and not jeq(impl["replies"], [[S["id"], "ok"]]): return False
        if r == 1 and impl["replies"]: return False
        if r in (0, 1):
            payload = impl["h"][0][1]
        else:
            st = [st for i, st in impl["futs"] if jeq(i, S["id"])]
            if any(st2 != ["pending"] for i, st2 in impl["futs"] if not jeq(i, S["id"])): return False
            if len(st) != 1: return False
            if r == 3: return st[0] == ["exc", S["code"]]
            if st[0][0] != "res": return False
            payload = st[0][1]
        if "any_payload" in S: return True
        if "payload" in S: return payload == S["payload"]
        return leaves_hold(payload, S["leaves"])

    def same(self, c, impl, M):
        return core.canon(impl) == core.canon(M)

    def nontrivial(self, c):
        if c["k"] == "trip":
            return c.get("pop", 0) >= 1
        if c["k"] == "btrip":
            return True
        if c["k"] == "stream":
            return len(c["frames"]) >= 3
        v = c["j"] if c["k"] == "d2o" else c["wire"]
        def deep(x, d):
            if isinstance(x, dict):
                ms = members(x)
                return (d >= 2 and bool(ms)) or any((not k.isidentifier() or keyword.iskeyword(k) or k.startswith("_")) and d >= 1 for k, _ in ms) \
                    or any(deep(y, d + 1) for _, y in ms)
            if isinstance(x, list):
                return any(deep(y, d + 1) for y in x)
            return False
        return deep(v, 0 if c["k"] == "recv" else 1)

    def shrink(self, c):
        if c["k"] == "stream":
            fr = c["frames"]
            for i in range(len(fr)):
                if len(fr) > 1:
                    yield dict(c, frames=fr[:i] + fr[i + 1:])
            return
        if c["k"] in ("trip", "btrip"):
            return
        key = "j" if c["k"] == "d2o" else "wire"
        def variants(v):
            if isinstance(v, dict) and not is_pairs(v):
                for k in list(v):
                    if c["k"] == "recv" and v is c[key] and k in ("jsonrpc", "id", "method"): continue
                    d = dict(v); del d[k]; yield d
                for k in list(v):
                    for sub in variants(v[k]):
                        d = dict(v); d[k] = sub; yield d
            elif isinstance(v, list):
                for i in range(len(v)):
                    yield v[:i] + v[i + 1:]
                for i in range(len(v)):
                    for sub in variants(v[i]):
                        yield v[:i] + [sub] + v[i + 1:]
        for v in variants(c[key]):
            d = dict(c); d[key] = v
            yield d

    def search(self, chk):
        """the regenerated finite theorem or the tie broke: name the table row that is wrong"""
        self._ensure_tables()
        found = []
        for side, name, why in getattr(self, "reflect_broken", []):
            found.append({"case": {"k": "table", "helper": name, "side": side}, "impl": why,
                          "S": "the helper calls exactly one of notify / send_request / send_request_async with a method string",
                          "verdict": "violation"})
        if found:
            return found
        lines = ["helperok " + self._hrow(h) for h in self.helpers] + ["covered " + enc_str(r["name"]) for r in self.reg]
        outs = core.run_driver("C13", lines)
        for h, o in zip(self.helpers, outs):
            if o != ["1"]:
                found.append({"case": {"k": "table", "helper": h["name"], "side": h["side"], "row": h},
                              "impl": h, "S": "helper_ok registry row = true (method in registry, kind and direction agree, "
                              "name = snake_case(method)[+_async], params/callback passed on)", "verdict": "violation"})
        for r, o in zip(self.reg, outs[len(self.helpers):]):
            if o != ["1", "1"]:
                found.append({"case": {"k": "table", "method": r["name"]}, "impl": {"covered_server_client": o},
                              "S": "every registry method has its helper(s) on each side that sends it", "verdict": "violation"})
        return found

    def extra_checks(self, chk):
        """thorough tier: coqchk re-checks the compiled property file (and its cone) independently"""
        if chk.quick:
            return []
        r = core.sh(f"timeout 1500 coqchk -silent -o -Q {core.COQ} Pygls Pygls.Props.C13", timeout=1600)
        out = (r.stdout + r.stderr)
        ok = r.returncode == 0 and "Axioms: <none>" in " ".join(out.split())
        self.extra_coverage = dict(self.extra_coverage or {}, coqchk_ok=ok, coqchk_tail=out[-400:],
                                   oracle_rejected_instances=getattr(self, "oracle_rejected", 0))
        if ok:
            return []
        return [{"case": None, "impl": out[-1500:], "S": "coqchk accepts Props/C13.vo with no axioms",
                 "verdict": "violation", "suffix": "no-failing-input-found"}]

    def distribution(self, cases):
        d = collections.Counter()
        for c in cases:
            if c["k"] == "trip":
                d["trip/" + c["side"]] += 1
                if "falsy" in c: d["trip/falsy-result"] += 1
                if c.get("ops"): d["trip/history"] += 1
                if c.get("pre"): d["trip/receiver-history:" + ",".join(c["pre"])] += 1
            elif c["k"] == "btrip": d["builtin-on/" + c["method"]] += 1
            elif c["k"] == "stream": d["stream/" + next(f[1] for f in c["frames"] if f[0] == "bad")] += 1
            elif c["k"] == "recv":
                d["recv/" + (c.get("klass") or ("malformed" if c.get("malformed") else "stream"))] += 1
                if c.get("shape"): d["recv/null-reply:" + c["shape"]] += 1
            else: d["d2o"] += 1
        return dict(d)


PROPERTY = C13
