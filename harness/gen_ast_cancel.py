#!/usr/bin/env python3
"""Translator tie for JsonRPCProtocol._handle_cancel_notification (C08): source text -> coq/Gen/AstCancel.v.

The method uses two constructs PyMini has no statement for.  They are NORMALISED here, on the parsed tree, before
gen_ast's translator sees them; every step is a structural match that fails closed (TranslateError -> poisoned
file) when the source has another shape:

  x = self._request_futures.pop(k, None)   (x a local bound once, k a parameter that is never rebound)
                                    -> x = self._request_futures.get(k, None)
                                       self._request_futures.pop(k, None)
                                    (PyMini has dict.get as an expression and pop-with-default as a mutating
                                    statement on a field of self; evaluating the plain name k twice has no effect;
                                    that d.pop(k, None) returns what d.get(k, None) returned and then removes the key
                                    is checked by reflection on a Python dict)
  if x.cancel(): <logger calls only>  (x that local, no else)
                                    -> recorded call "$method.cancel" [x]
                                    (the branch only logs: its body is checked to consist of
                                    logger.<debug|info|warning|error>(constants / plain names) statements, so
                                    whatever cancel() returns nothing observable depends on it)
"""
import ast, importlib, os, sys
sys.path.insert(0, os.path.dirname(os.path.abspath(__file__)))
import gen_ast
from gen_ast import translate_module, poison, TranslateError, fail

CLS = "JsonRPCProtocol"
FN = "_handle_cancel_notification"
TABLE = "_request_futures"
CANCEL = "$method.cancel"
_LOG_LEVELS = ("debug", "info", "warning", "error")


def _is_self_attr(e, attr):
    return isinstance(e, ast.Attribute) and e.attr == attr and isinstance(e.value, ast.Name) and e.value.id == "self"


def _at(node, like):
    for n in ast.walk(node):
        n.lineno = like.lineno
        n.col_offset = 0
    return node


def _is_logger_stmt(s):
    if not (isinstance(s, ast.Expr) and isinstance(s.value, ast.Call)):
        return False
    v = s.value
    return (isinstance(v.func, ast.Attribute) and v.func.attr in _LOG_LEVELS and isinstance(v.func.value, ast.Name)
            and v.func.value.id == "logger" and not v.keywords
            and all(isinstance(a, (ast.Constant, ast.Name)) for a in v.args))


def normalise(fn):
    """a copy of the FunctionDef in the shape gen_ast translates (see the module docstring)"""
    if not isinstance(fn, ast.FunctionDef):
        fail(fn, "not a plain def")
    a = fn.args
    if fn.decorator_list:
        fail(fn, "decorated")
    if len(a.args) < 1 or a.args[0].arg != "self" or a.vararg or a.kwarg or a.kwonlyargs or a.posonlyargs or a.defaults:
        fail(fn, "parameters other than plain positional ones after self")
    params = [p.arg for p in a.args]
    stores = {}
    for n in ast.walk(fn):
        if isinstance(n, ast.Name) and isinstance(n.ctx, (ast.Store, ast.Del)):
            stores[n.id] = stores.get(n.id, 0) + 1
        if isinstance(n, (ast.Try, ast.With, ast.AsyncWith, ast.For, ast.While, ast.Global, ast.Nonlocal, ast.NamedExpr,
                          ast.Lambda, ast.FunctionDef, ast.AsyncFunctionDef, ast.ClassDef)) and n is not fn:
            fail(n, "construct outside the normalised shapes")
    if "logger" in stores or "logger" in params:
        fail(fn, "logger is rebound")
    popped = []      # the locals that received a popped entry

    def block(stmts, top):
        out = []
        for s in stmts:
            # x = self._request_futures.pop(k, None)
            if isinstance(s, ast.Assign) and isinstance(s.value, ast.Call) and isinstance(s.value.func, ast.Attribute) \
                    and s.value.func.attr == "pop" and _is_self_attr(s.value.func.value, TABLE):
                v = s.value
                ok = (top and len(s.targets) == 1 and isinstance(s.targets[0], ast.Name) and len(v.args) == 2
                      and not v.keywords and isinstance(v.args[0], ast.Name) and v.args[0].id in params
                      and v.args[0].id != "self" and v.args[0].id not in stores
                      and isinstance(v.args[1], ast.Constant) and v.args[1].value is None
                      and stores.get(s.targets[0].id) == 1 and s.targets[0].id not in params)
                if not ok:
                    fail(s, "pop other than `<local> = self._request_futures.pop(<parameter>, None)`")
                k = v.args[0].id
                tbl = lambda: ast.Attribute(value=ast.Name(id="self", ctx=ast.Load()), attr=TABLE, ctx=ast.Load())
                call = lambda m: ast.Call(func=ast.Attribute(value=tbl(), attr=m, ctx=ast.Load()),
                                          args=[ast.Name(id=k, ctx=ast.Load()), ast.Constant(value=None)], keywords=[])
                out.append(_at(ast.Assign(targets=[ast.Name(id=s.targets[0].id, ctx=ast.Store())], value=call("get")), s))
                out.append(_at(ast.Expr(value=call("pop")), s))
                popped.append(s.targets[0].id)
                continue
            # if x.cancel(): <logger calls only>
            if isinstance(s, ast.If) and isinstance(s.test, ast.Call) and isinstance(s.test.func, ast.Attribute) \
                    and s.test.func.attr == "cancel":
                t = s.test
                ok = (isinstance(t.func.value, ast.Name) and t.func.value.id in popped and not t.args and not t.keywords
                      and not s.orelse and s.body and all(_is_logger_stmt(b) for b in s.body))
                if not ok:
                    fail(s, "cancel other than `if <popped local>.cancel(): <logger calls>`")
                mod, attr = CANCEL.split(".", 1)
                c = ast.Call(func=ast.Attribute(value=ast.Name(id=mod, ctx=ast.Load()), attr=attr, ctx=ast.Load()),
                             args=[ast.Name(id=t.func.value.id, ctx=ast.Load())], keywords=[])
                out.append(_at(ast.Expr(value=c), s))
                continue
            if isinstance(s, ast.If):
                s2 = ast.If(test=s.test, body=block(s.body, False), orelse=block(s.orelse, False))
                s2.lineno, s2.col_offset = s.lineno, s.col_offset
                out.append(s2)
                continue
            out.append(s)
        return out

    body = block(fn.body, True)
    # nothing else may call .cancel / .pop (they would reach the translator in a shape it may read otherwise)
    for s in body:
        for n in ast.walk(s):
            if isinstance(n, ast.Call) and isinstance(n.func, ast.Attribute) and n.func.attr == "cancel" \
                    and not (isinstance(n.func.value, ast.Name) and n.func.value.id == "$method"):
                fail(n, "a cancel() outside the normalised shape")
    new = ast.FunctionDef(
        name=fn.name, body=body, decorator_list=[], returns=None, type_comment=None,
        args=ast.arguments(posonlyargs=[], args=list(a.args), vararg=None, kwonlyargs=[], kw_defaults=[], kwarg=None,
                           defaults=[]))
    new.lineno, new.col_offset = fn.lineno, fn.col_offset
    return new


def _reflect_cancel():
    import logging
    m = importlib.import_module("pygls.protocol.json_rpc")
    if not isinstance(m.logger, logging.Logger):
        raise TranslateError("logger is not a logging.Logger")
    # d.pop(k, None) is d.get(k, None) followed by the removal of k; other entries keep value and order;
    # keys compare with == (1 and "1" are different keys, 1 and True the same)
    for k, want, left in ((1, "b", {3: "a", "1": "c"}), ("1", "c", {3: "a", 1: "b"}), (9, None, {3: "a", 1: "b", "1": "c"}),
                          (True, "b", {3: "a", "1": "c"})):
        d = {3: "a", 1: "b", "1": "c"}
        g = d.get(k, None)
        p = d.pop(k, None)
        if g is not p or p != want or d != left or list(d) != list(left):
            raise TranslateError("dict.pop(k, None)")
    # the table is a plain dict made in __init__
    import inspect
    src = inspect.getsource(m.JsonRPCProtocol.__init__)
    if "self._request_futures" not in src:
        raise TranslateError("_request_futures is not set in JsonRPCProtocol.__init__")
    lp = importlib.import_module("pygls.protocol.language_server").LanguageServerProtocol
    if FN in vars(lp):
        raise TranslateError("LanguageServerProtocol overrides _handle_cancel_notification")


def gen_cancel():
    orig = gen_ast.find_function
    cache = {}

    def find_function(tree, cls, name):
        fn = orig(tree, cls, name)
        if cls == CLS and name == FN:
            if id(fn) not in cache:
                cache[id(fn)] = (fn, normalise(fn))
            return cache[id(fn)][1]
        return fn
    gen_ast.find_function = find_function
    try:
        return translate_module(
            "pygls.protocol.json_rpc", [(CLS, FN)],
            {"logger": gen_ast._is_logger, "$method": lambda b: b is None},
            "AstCancel.v", _reflect_cancel,
            opts={"dicts": {TABLE}, "effect_functions": {CANCEL}})
    except Exception as e:
        poison("AstCancel.v", repr(e))
        raise
    finally:
        gen_ast.find_function = orig


if __name__ == "__main__":
    print(gen_cancel())
